package kapacitor

import (
	"time"

	"github.com/influxdata/kapacitor/edge"
	"github.com/influxdata/kapacitor/models"
	"github.com/influxdata/kapacitor/pipeline"
	vrt "github.com/influxdata/kapacitor/zz_vrt"
)

// VerifC12JoinOn: stream join.on('h') of a general parent (grouped by h) with a more
// specific parent (grouped by h and s, two s-groups): a general point joins with the
// specific points of every s-group at the same rounded time. Symbolic merge order, symbolic
// times in time order per parent; per parent group the rounded times are distinct (the
// documented use: one point per group and time). The joined output is the same for every
// interleaving, and nothing stays buffered when the parents end.
func VerifC12JoinOn(v *vrt.T) {
	tol := []time.Duration{0, 4}[v.Choose("tol", 2)]
	fillKind := v.Choose("fill", 3)
	pj := pipeline.VerifNewJoinNode(pipeline.StreamEdge)
	pj.Names = []string{"a", "b"}
	pj.Tolerance = tol
	pj.Delimiter = "."
	pj.Dimensions = []string{"h"}
	out := &verifC12Edge{}
	n := verifC12NewJoin(pj, out, fillKind)

	type in struct {
		rt  int64
		seq int64
		s   int
	}
	k := v.Bound("msgs", 4)
	steps := v.Choose("steps", k+1)
	last := []int64{verifT2020, verifT2020}
	lastRT := map[[2]int]int64{}
	seq := []int64{0, 0}
	var as, bs []in
	sNames := []string{"p", "q"}
	for i := 0; i < steps; i++ {
		src := v.Choose("src", 2)
		last[src] += int64(v.IntRange("dt", 0, 6))
		rt := verifRoundRef(last[src], int64(tol))
		seq[src]++
		var p edge.PointMessage
		g := [2]int{src, 0}
		if src == 0 {
			p = edge.NewPointMessage("ma", "db", "rp", models.Dimensions{TagNames: []string{"h"}}, models.Fields{"v": seq[src]}, models.Tags{"h": "x"}, time.Unix(0, last[src]).UTC())
			as = append(as, in{rt, seq[src], 0})
		} else {
			s := v.Choose("s", 2)
			g[1] = s
			p = edge.NewPointMessage("mb", "db", "rp", models.Dimensions{TagNames: []string{"h", "s"}}, models.Fields{"v": seq[src]}, models.Tags{"h": "x", "s": sNames[s]}, time.Unix(0, last[src]).UTC())
			bs = append(bs, in{rt, seq[src], s})
		}
		if prev, ok := lastRT[g]; ok {
			v.Assume(rt > prev) // one point per parent group and rounded time
		}
		lastRT[g] = rt
		v.Assert(n.Point(src, p) == nil, "no error")
	}
	v.Assert(n.Finish() == nil, "finish succeeds")

	type want struct {
		t      int64
		s      int
		av, bv interface{}
	}
	var fillV interface{}
	if fillKind == 2 {
		fillV = int64(-7)
	}
	var wants []want
	for _, b := range bs {
		matched := false
		for _, a := range as {
			if a.rt == b.rt {
				wants = append(wants, want{b.rt, b.s, a.seq, b.seq})
				matched = true
			}
		}
		if !matched && fillKind != 0 {
			wants = append(wants, want{b.rt, b.s, fillV, b.seq})
		}
	}
	v.Observe("joined", len(out.msgs))
	v.Assert(len(out.msgs) == len(wants), "number of joined points: one per specific point with a general point of the same rounded time (inner), or per specific point (outer)")
	if len(out.msgs) == len(wants) {
		for _, w := range wants {
			found := 0
			for _, m := range out.msgs {
				p := m.(edge.PointMessage)
				f := p.Fields()
				av, aok := f["a.v"]
				bv, bok := f["b.v"]
				if aok && bok && len(f) == 2 && av == w.av && bv == w.bv && p.Time().UnixNano() == w.t &&
					p.Tags()["h"] == "x" && p.Tags()["s"] == sNames[w.s] && len(p.Dimensions().TagNames) == 2 {
					found++
				}
			}
			v.Assert(found == 1, "each expected joined point appears exactly once in the specific point's group with prefixed fields and the rounded time")
		}
	}
	v.Reach("end")
}
