package edge

import (
	"runtime"
	"time"

	"github.com/influxdata/kapacitor/models"
	"github.com/influxdata/kapacitor/pipeline"
	vrt "github.com/influxdata/kapacitor/zz_vrt"
)

// verifScriptedEdge emits a fixed list of messages; before each message it may yield
// (decided per message), so that the parents of a multi consumer interleave at message
// granularity: a parent's batch may still be between begin and end when another parent's
// messages are read.
type verifScriptedEdge struct {
	msgs   []Message
	yields []bool
	pos    int
}

func (e *verifScriptedEdge) Collect(Message) error { return nil }
func (e *verifScriptedEdge) Emit() (Message, bool) {
	if e.pos == len(e.msgs) {
		return nil, false
	}
	if e.yields[e.pos] {
		runtime.Gosched()
	}
	m := e.msgs[e.pos]
	e.pos++
	return m, true
}
func (e *verifScriptedEdge) Close() error            { return nil }
func (e *verifScriptedEdge) Abort()                  {}
func (e *verifScriptedEdge) Type() pipeline.EdgeType { return pipeline.BatchEdge }

type verifC12Got struct {
	src   int
	batch BufferedBatchMessage
}

type verifMultiRecv struct {
	got      []verifC12Got
	finished bool
}

func (r *verifMultiRecv) BufferedBatch(src int, b BufferedBatchMessage) error {
	r.got = append(r.got, verifC12Got{src, b})
	return nil
}
func (r *verifMultiRecv) Point(src int, p PointMessage) error        { return nil }
func (r *verifMultiRecv) Barrier(src int, b BarrierMessage) error    { return nil }
func (r *verifMultiRecv) Delete(src int, d DeleteGroupMessage) error { return nil }
func (r *verifMultiRecv) Finish() error                              { r.finished = true; return nil }

// VerifC12MultiConsumer: the real multiConsumer (one reader goroutine per parent, one
// consuming loop) with two batch parents that forward their batches as begin / point / end
// messages; the parents interleave at every message (yield decisions are explored): every
// batch reaches the receiver exactly once, under its own parent index, with its own name,
// tags and points, each parent's batches in order; then Finish.
func VerifC12MultiConsumer(v *vrt.T) {
	names := []string{"a", "b"}
	var edges []Edge
	var want [2][][]int64
	for s := 0; s < 2; s++ {
		e := &verifScriptedEdge{}
		nb := 1 + v.Choose("batches", v.Bound("batches", 2))
		for b := 0; b < nb; b++ {
			np := v.Choose("points", 3)
			e.msgs = append(e.msgs, NewBeginBatchMessage(names[s], models.Tags{"src": names[s]}, false, time.Unix(0, int64(100*b)).UTC(), 0))
			var vals []int64
			for i := 0; i < np; i++ {
				x := int64(1000*s + 10*b + i)
				vals = append(vals, x)
				e.msgs = append(e.msgs, NewBatchPointMessage(models.Fields{"v": x}, models.Tags{"src": names[s]}, time.Unix(0, int64(100*b+i)).UTC()))
			}
			e.msgs = append(e.msgs, NewEndBatchMessage())
			want[s] = append(want[s], vals)
		}
		for range e.msgs {
			e.yields = append(e.yields, v.Choose("yield before the message", 2) == 1)
		}
		edges = append(edges, e)
	}
	r := &verifMultiRecv{}
	err := NewMultiConsumer(edges, r).Consume()
	v.Assert(err == nil && r.finished, "consume ends with Finish")
	var seen [2]int
	for _, g := range r.got {
		s := g.src
		v.Assert(s == 0 || s == 1, "a known parent index")
		if seen[s] >= len(want[s]) {
			v.Assert(false, "no batch is delivered twice")
			continue
		}
		vals := want[s][seen[s]]
		seen[s]++
		v.Assert(g.batch.Name() == names[s] && g.batch.Tags()["src"] == names[s], "a batch is delivered under the index of the parent it came from")
		pts := g.batch.Points()
		v.Assert(len(pts) == len(vals), "a batch keeps its number of points")
		if len(pts) == len(vals) {
			for i := range pts {
				v.Assert(pts[i].Fields()["v"] == interface{}(vals[i]), "a batch keeps exactly its own points")
			}
		}
	}
	v.Assert(seen[0] == len(want[0]) && seen[1] == len(want[1]), "every batch of every parent is delivered, in the parent's order")
	v.Observe("batches", len(r.got))
	v.Reach("end")
}
