package kapacitor

import (
	"time"

	"github.com/influxdata/kapacitor/edge"
	"github.com/influxdata/kapacitor/expvar"
	"github.com/influxdata/kapacitor/models"
	"github.com/influxdata/kapacitor/pipeline"
	vrt "github.com/influxdata/kapacitor/zz_vrt"
)

// verifC12Edge records what a node forwards to its children.
type verifC12Edge struct {
	msgs []edge.Message
	c, e expvar.Int
}

func (r *verifC12Edge) Collect(m edge.Message) error          { r.msgs = append(r.msgs, m); return nil }
func (r *verifC12Edge) Emit() (edge.Message, bool)            { return nil, false }
func (r *verifC12Edge) Close() error                          { return nil }
func (r *verifC12Edge) Abort()                                {}
func (r *verifC12Edge) Type() pipeline.EdgeType               { return pipeline.StreamEdge }
func (r *verifC12Edge) Collected() int64                      { return int64(len(r.msgs)) }
func (r *verifC12Edge) Emitted() int64                        { return 0 }
func (r *verifC12Edge) CollectedVar() expvar.IntVar           { return &r.c }
func (r *verifC12Edge) EmittedVar() expvar.IntVar             { return &r.e }
func (r *verifC12Edge) ReadGroupStats(func(*edge.GroupStats)) {}

type verifC12Timer struct{}

func (verifC12Timer) Start()  {}
func (verifC12Timer) Pause()  {}
func (verifC12Timer) Resume() {}
func (verifC12Timer) Stop()   {}

// VerifC12Union: the real multiConsumer funnels all parents through one loop, so an
// execution is a merge order of the per-parent sequences. Merge order (which parent
// delivers next) and per-parent non-decreasing timestamps are symbolic.
func VerifC12Union(v *vrt.T) {
	parents := v.Bound("parents", 2)
	k := v.Bound("msgs", 5)
	out := &verifC12Edge{}
	n := &UnionNode{u: &pipeline.UnionNode{}, node: node{timer: verifC12Timer{}, outs: []edge.StatsEdge{out}}}
	n.sources = make([]*CircularQueue[timeMessage], parents)
	for i := range n.sources {
		n.sources[i] = NewCircularQueue[timeMessage]()
	}
	n.lowMarks = make([]time.Time, parents)

	dims := models.Dimensions{}
	base := verifT2020
	last := make([]int64, parents)
	seq := make([]int64, parents)
	for i := range last {
		last[i] = base
	}
	steps := v.Choose("steps", k+1)
	for s := 0; s < steps; s++ {
		src := v.Choose("src", parents)
		last[src] += int64(v.IntRange("dt", 0, 3))
		seq[src]++
		p := edge.NewPointMessage("m", "db", "rp", dims, models.Fields{"src": int64(src), "seq": seq[src]}, models.Tags{}, time.Unix(0, last[src]).UTC())
		err := n.Point(src, p)
		v.Assert(err == nil, "no error")
	}
	v.Assert(n.Finish() == nil, "finish succeeds")

	v.Observe("emitted", len(out.msgs))
	v.Assert(len(out.msgs) == steps, "every parent message is emitted exactly once (nothing lost, duplicated or left buffered)")
	next := make([]int64, parents)
	var prevT int64
	for i, m := range out.msgs {
		p, ok := m.(edge.PointMessage)
		v.Assert(ok, "points stay points")
		if !ok {
			continue
		}
		src := p.Fields()["src"].(int64)
		sq := p.Fields()["seq"].(int64)
		next[src]++
		v.Assert(sq == next[src], "each parent's order is kept")
		t := p.Time().UnixNano()
		if i > 0 {
			v.Assert(t >= prevT, "output is in non-decreasing time order")
		}
		prevT = t
	}
	for i := range n.sources {
		v.Assert(n.sources[i].Len == 0, "nothing left buffered after the parents ended")
	}
	v.Reach("end")
}
