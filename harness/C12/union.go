package kapacitor

import (
	"time"

	"github.com/influxdata/kapacitor/edge"
	"github.com/influxdata/kapacitor/expvar"
	"github.com/influxdata/kapacitor/models"
	"github.com/influxdata/kapacitor/pipeline"
	vrt "github.com/influxdata/kapacitor/zz_vrt"
)

// verifC12Edge records what a node forwards to its children.
type verifC12Edge struct {
	msgs []edge.Message
	c, e expvar.Int
}

func (r *verifC12Edge) Collect(m edge.Message) error          { r.msgs = append(r.msgs, m); return nil }
func (r *verifC12Edge) Emit() (edge.Message, bool)            { return nil, false }
func (r *verifC12Edge) Close() error                          { return nil }
func (r *verifC12Edge) Abort()                                {}
func (r *verifC12Edge) Type() pipeline.EdgeType               { return pipeline.StreamEdge }
func (r *verifC12Edge) Collected() int64                      { return int64(len(r.msgs)) }
func (r *verifC12Edge) Emitted() int64                        { return 0 }
func (r *verifC12Edge) CollectedVar() expvar.IntVar           { return &r.c }
func (r *verifC12Edge) EmittedVar() expvar.IntVar             { return &r.e }
func (r *verifC12Edge) ReadGroupStats(func(*edge.GroupStats)) {}

type verifC12Timer struct{}

func (verifC12Timer) Start()  {}
func (verifC12Timer) Pause()  {}
func (verifC12Timer) Resume() {}
func (verifC12Timer) Stop()   {}

// VerifC12Union: the real multiConsumer funnels all parents through one loop, so an
// execution is a merge order of the per-parent sequences. Merge order (which parent
// delivers next) and per-parent non-decreasing timestamps are symbolic.
func VerifC12Union(v *vrt.T) {
	parents := v.Bound("parents", 2)
	k := v.Bound("msgs", 5)
	out := &verifC12Edge{}
	n := &UnionNode{u: &pipeline.UnionNode{}, node: node{timer: verifC12Timer{}, outs: []edge.StatsEdge{out}}}
	n.sources = make([]*CircularQueue[timeMessage], parents)
	for i := range n.sources {
		n.sources[i] = NewCircularQueue[timeMessage]()
	}
	n.lowMarks = make([]time.Time, parents)

	dims := models.Dimensions{}
	base := verifT2020
	last := make([]int64, parents)
	seq := make([]int64, parents)
	for i := range last {
		last[i] = base
	}
	// kinds=1: points only; 2: points and barriers; 3: also buffered batches (a stream union
	// sees points and barriers, a batch union batches and barriers; the node treats all alike).
	// rename=1: the union renames (.rename('r')) what it forwards - on its own copy.
	kinds := v.Bound("kinds", 1)
	if v.Bound("rename", 0) == 1 {
		n.rename = "r"
	}
	wantName := "m"
	if n.rename != "" {
		wantName = n.rename
	}
	type sentT struct {
		kind int
		msg  edge.Message
	}
	sent := make([][]sentT, parents)
	steps := v.Choose("steps", k+1)
	for s := 0; s < steps; s++ {
		src := v.Choose("src", parents)
		last[src] += int64(v.IntRange("dt", 0, 3))
		seq[src]++
		t := time.Unix(0, last[src]).UTC()
		kind := 0
		if kinds > 1 {
			kind = v.Choose("kind", kinds)
		}
		var err error
		switch kind {
		case 0:
			p := edge.NewPointMessage("m", "db", "rp", dims, models.Fields{"src": int64(src), "seq": seq[src]}, models.Tags{}, t)
			sent[src] = append(sent[src], sentT{0, p})
			err = n.Point(src, p)
		case 1:
			b := edge.NewBarrierMessage(edge.GroupInfo{ID: models.GroupID(string([]byte{'0' + byte(src), ':', '0' + byte(seq[src])}))}, t)
			sent[src] = append(sent[src], sentT{1, b})
			err = n.Barrier(src, b)
		default:
			bp := edge.NewBatchPointMessage(models.Fields{"src": int64(src), "seq": seq[src]}, models.Tags{}, t)
			bb := edge.NewBufferedBatchMessage(edge.NewBeginBatchMessage("m", models.Tags{}, false, t, 1), []edge.BatchPointMessage{bp}, edge.NewEndBatchMessage())
			sent[src] = append(sent[src], sentT{2, bb})
			err = n.BufferedBatch(src, bb)
		}
		v.Assert(err == nil, "no error")
	}
	v.Assert(n.Finish() == nil, "finish succeeds")

	v.Observe("emitted", len(out.msgs))
	v.Assert(len(out.msgs) == steps, "every parent message is emitted exactly once (nothing lost, duplicated or left buffered)")
	next := make([]int64, parents)
	var prevT int64
	for i, m := range out.msgs {
		var src, sq, t int64
		kind := -1
		switch x := m.(type) {
		case edge.PointMessage:
			kind, src, sq, t = 0, x.Fields()["src"].(int64), x.Fields()["seq"].(int64), x.Time().UnixNano()
			v.Assert(x.Name() == wantName, "a point is forwarded under the union's name")
		case edge.BarrierMessage:
			id := string(x.GroupID())
			kind, src, sq, t = 1, int64(id[0]-'0'), int64(id[2]-'0'), x.Time().UnixNano()
		case edge.BufferedBatchMessage:
			pts := x.Points()
			v.Assert(len(pts) == 1, "a batch keeps its points")
			if len(pts) == 1 {
				kind, src, sq, t = 2, pts[0].Fields()["src"].(int64), pts[0].Fields()["seq"].(int64), x.Time().UnixNano()
			}
			v.Assert(x.Name() == wantName, "a batch is forwarded under the union's name")
		}
		v.Assert(kind >= 0, "messages keep their kind")
		if kind < 0 {
			continue
		}
		next[src]++
		v.Assert(sq == next[src], "each parent's order is kept")
		if sq >= 1 && int(sq) <= len(sent[src]) {
			o := sent[src][sq-1]
			v.Assert(o.kind == kind, "messages keep their kind")
			// what the parent sent (other children of the parent read the same message) is untouched
			switch y := o.msg.(type) {
			case edge.PointMessage:
				v.Assert(y.Name() == "m" && y.Time().UnixNano() == t, "the parent's own message is not modified")
			case edge.BufferedBatchMessage:
				v.Assert(y.Name() == "m" && y.Time().UnixNano() == t, "the parent's own message is not modified")
			case edge.BarrierMessage:
				v.Assert(y.Time().UnixNano() == t, "the parent's own message is not modified")
			}
		}
		if i > 0 {
			v.Assert(t >= prevT, "output is in non-decreasing time order")
		}
		prevT = t
	}
	for i := range n.sources {
		v.Assert(n.sources[i].Len == 0, "nothing left buffered after the parents ended")
	}
	v.Reach("end")
}
