package kapacitor

import (
	vrt "github.com/influxdata/kapacitor/zz_vrt"
)

// VerifC12CircularQueueStep: one operation from an arbitrary valid queue state
// (inductive step: covers operation histories of any length).
// Representation invariant (reachable states): data non-empty, 0 <= Len <= len(data),
// 0 <= head <= len(data) (head == len(data) is reachable: Dequeue only wraps when head > len; it is
// read modulo len everywhere; head == 0 when empty), tail == head+Len modulo len(data) with
// the convention that a tail at the end of the buffer is stored as len(data), never 0,
// after an insert; slots outside the live region hold the zero value.
func VerifC12CircularQueueStep(v *vrt.T) {
	capChoices := []int{4, 8}
	c := capChoices[v.Choose("cap", len(capChoices))]
	n := v.Choose("len", c+1)
	head := 0
	if n > 0 {
		head = v.Choose("head", c+1)
	}
	q := &CircularQueue[int64]{data: make([]int64, c), head: head, Len: n}
	var model []int64
	for i := 0; i < n; i++ {
		x := v.Int64("elem")
		q.data[(head+i)%c] = x
		model = append(model, x)
	}
	// tail: where the next insert goes; reachable encodings: head+Len if it does not wrap
	// (may equal len(data)), else (head+Len) mod len(data).
	tail := head + n
	if tail > c {
		tail -= c
	}
	if tail > c { // head == c
		tail -= c
	}
	if n == 0 {
		tail = 0
	}
	q.tail = tail

	switch v.Choose("op", 3) {
	case 0: // Enqueue
		x := v.Int64("new")
		q.Enqueue(x)
		model = append(model, x)
	case 1: // Dequeue(k), any k including <= 0 and > Len
		k := v.IntRange("k", -1, c+1)
		q.Dequeue(k)
		if k > 0 {
			if k > len(model) {
				k = len(model)
			}
			model = model[k:]
		}
	case 2: // Peek only
	}
	v.Assert(q.Len == len(model), "Len equals number of queued items")
	for i := range model {
		v.Assert(q.Peek(i) == model[i], "Peek(i) is the i-th oldest item")
	}
	// the invariant is re-established (so the step composes)
	v.Assert(len(q.data) >= 4 && q.Len <= len(q.data), "capacity invariant")
	v.Assert(q.head >= 0 && q.head <= len(q.data) && q.tail >= 0 && q.tail <= len(q.data), "index invariant")
	if q.Len == 0 {
		v.Assert(q.head == 0 && q.tail == 0, "empty queue is reset")
	} else {
		t := q.head + q.Len
		if t > len(q.data) {
			t -= len(q.data)
		}
		if t > len(q.data) {
			t -= len(q.data)
		}
		v.Assert(q.tail == t, "tail = head+Len (mod cap)")
	}
	v.Observe("len", q.Len)
	v.Reach("end")
}
