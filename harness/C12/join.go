package kapacitor

import (
	"time"

	"github.com/influxdata/influxql"
	"github.com/influxdata/kapacitor/edge"
	"github.com/influxdata/kapacitor/models"
	"github.com/influxdata/kapacitor/pipeline"
	vrt "github.com/influxdata/kapacitor/zz_vrt"
)

// verifRoundRef: reference for time.Time.Round on Unix ns (half rounds up), relative to
// the zero Time like Go's.
func verifRoundRef(ns, d int64) int64 {
	if d <= 0 {
		return ns
	}
	k := verifFloorMod(verifFloorMod(62135596800, d)*verifFloorMod(1000000000, d), d)
	r := verifFloorMod(verifFloorMod(ns, d)+k, d)
	if r+r < d {
		return ns - r
	}
	return ns + (d - r)
}

type verifJoinIn struct {
	rt  int64 // rounded time
	seq int64
}

// VerifC12Join: stream join of two parents without join.on(): symbolic merge order and
// symbolic per-parent non-decreasing times; the joined output equals the reference pairing
// (k-th occurrence per rounded time; inner / outer with fill), whatever the interleaving.
func VerifC12Join(v *vrt.T) {
	tol := []time.Duration{0, 4}[v.Choose("tol", 2)]
	fillKind := v.Choose("fill", 3)
	pj := pipeline.VerifNewJoinNode(pipeline.StreamEdge)
	pj.Names = []string{"a", "b"}
	pj.Tolerance = tol
	pj.Delimiter = "."
	out := &verifC12Edge{}
	n := &JoinNode{
		j:                    pj,
		node:                 node{Node: pj, timer: verifC12Timer{}, outs: []edge.StatsEdge{out}, ins: make([]edge.StatsEdge, 2), diag: &verifNopDiag{}},
		groups:               make(map[models.GroupID]*joinGroup),
		matchGroupsBuffer:    make(map[models.GroupID]*CircularQueue[srcPoint]),
		specificGroupsBuffer: make(map[models.GroupID]*CircularQueue[srcPoint]),
		lowMarks:             make(map[srcGroup]time.Time),
		reported:             make(map[int]bool),
	}
	switch fillKind {
	case 0:
		n.fill = influxql.NoFill
	case 1:
		n.fill = influxql.NullFill
	case 2:
		n.fill = influxql.NumberFill
		n.fillValue = int64(-7)
	}
	k := v.Bound("msgs", 4)
	steps := v.Choose("steps", k+1)
	last := []int64{verifT2020, verifT2020}
	seq := []int64{0, 0}
	ins := [2][]verifJoinIn{}
	for s := 0; s < steps; s++ {
		src := v.Choose("src", 2)
		last[src] += int64(v.IntRange("dt", 0, 6))
		seq[src]++
		// the parents carry different measurement names: the joined point is named after the
		// lowest-index parent present in the set (streamName is unset), whatever arrived first
		p := edge.NewPointMessage([]string{"ma", "mb"}[src], "db", "rp", models.Dimensions{}, models.Fields{"v": seq[src]}, models.Tags{}, time.Unix(0, last[src]).UTC())
		v.Assert(n.Point(src, p) == nil, "no error")
		ins[src] = append(ins[src], verifJoinIn{verifRoundRef(last[src], int64(tol)), seq[src]})
	}
	v.Assert(n.Finish() == nil, "finish succeeds")

	// reference pairing: for every rounded time, the k-th a-point pairs with the k-th b-point
	type want struct {
		t      int64
		av, bv interface{}
	}
	var wants []want
	usedB := make([]bool, len(ins[1]))
	for _, a := range ins[0] {
		// rank of a among a-points with the same rounded time
		rank := 0
		for _, a2 := range ins[0] {
			if a2.rt == a.rt && a2.seq < a.seq {
				rank++
			}
		}
		matched := false
		r := 0
		for j, b := range ins[1] {
			if b.rt == a.rt {
				if r == rank {
					wants = append(wants, want{a.rt, a.seq, b.seq})
					usedB[j] = true
					matched = true
				}
				r++
			}
		}
		if !matched && fillKind != 0 {
			var f interface{}
			if fillKind == 2 {
				f = int64(-7)
			}
			wants = append(wants, want{a.rt, a.seq, f})
		}
	}
	for j, b := range ins[1] {
		if !usedB[j] && fillKind != 0 {
			var f interface{}
			if fillKind == 2 {
				f = int64(-7)
			}
			wants = append(wants, want{b.rt, f, b.seq})
		}
	}
	v.Observe("joined", len(out.msgs))
	v.Assert(len(out.msgs) == len(wants), "number of joined points equals the reference pairing")
	if len(out.msgs) == len(wants) {
		for _, w := range wants {
			found := 0
			for _, m := range out.msgs {
				p := m.(edge.PointMessage)
				f := p.Fields()
				av, aok := f["a.v"]
				bv, bok := f["b.v"]
				wantName := "ma"
				if w.av == nil || (fillKind == 2 && w.av == interface{}(int64(-7))) {
					wantName = "mb" // only parent b is present in this set
				}
				if aok && bok && len(f) == 2 && av == w.av && bv == w.bv && p.Time().UnixNano() == w.t && p.Name() == wantName {
					found++
				}
			}
			v.Assert(found == 1, "each reference pair appears exactly once with prefixed fields, the rounded time and the name of the first present parent")
		}
	}
	v.Reach("end")
}
