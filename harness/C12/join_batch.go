package kapacitor

import (
	"time"

	"github.com/influxdata/influxql"
	"github.com/influxdata/kapacitor/edge"
	"github.com/influxdata/kapacitor/models"
	"github.com/influxdata/kapacitor/pipeline"
	vrt "github.com/influxdata/kapacitor/zz_vrt"
)

func verifC12NewJoin(pj *pipeline.JoinNode, out *verifC12Edge, fillKind int) *JoinNode {
	n := &JoinNode{
		j:                    pj,
		node:                 node{Node: pj, timer: verifC12Timer{}, outs: []edge.StatsEdge{out}, ins: make([]edge.StatsEdge, 2), diag: &verifNopDiag{}},
		groups:               make(map[models.GroupID]*joinGroup),
		matchGroupsBuffer:    make(map[models.GroupID]*CircularQueue[srcPoint]),
		specificGroupsBuffer: make(map[models.GroupID]*CircularQueue[srcPoint]),
		lowMarks:             make(map[srcGroup]time.Time),
		reported:             make(map[int]bool),
	}
	switch fillKind {
	case 0:
		n.fill = influxql.NoFill
	case 1:
		n.fill = influxql.NullFill
	case 2:
		n.fill = influxql.NumberFill
		n.fillValue = int64(-7)
	}
	return n
}

// VerifC12JoinBatch: batch join of two parents (no join.on): each parent delivers for the
// query period one batch of 0..k points in time order (symbolic times, duplicates and gaps)
// or stays silent; the batches arrive in either order, then the parents end. The joined
// batch holds, per rounded time, one point per k-th occurrence present in both batches
// (inner) or in any of them with the configured fill (outer).
func VerifC12JoinBatch(v *vrt.T) {
	tol := []time.Duration{0, 4}[v.Choose("tol", 2)]
	fillKind := v.Choose("fill", 3)
	pj := pipeline.VerifNewJoinNode(pipeline.BatchEdge)
	pj.Names = []string{"a", "b"}
	pj.Tolerance = tol
	pj.Delimiter = "."
	out := &verifC12Edge{}
	n := verifC12NewJoin(pj, out, fillKind)

	k := v.Bound("points", 3)
	const tmax = verifT2020 + 400
	ins := [2][]verifJoinIn{}
	var batches [2]edge.BufferedBatchMessage
	present := 0
	for src := 0; src < 2; src++ {
		np := v.Choose("points", k+2) - 1 // -1: the parent is silent for this period
		if np < 0 {
			continue
		}
		present++
		t := int64(verifT2020)
		pts := make([]edge.BatchPointMessage, np)
		for i := 0; i < np; i++ {
			t += int64(v.IntRange("dt", 0, v.Bound("gap", 3)))
			pts[i] = edge.NewBatchPointMessage(models.Fields{"v": int64(i + 1)}, models.Tags{"h": "x"}, time.Unix(0, t).UTC())
			ins[src] = append(ins[src], verifJoinIn{verifRoundRef(t, int64(tol)), int64(i + 1)})
		}
		begin := edge.NewBeginBatchMessage([]string{"ma", "mb"}[src], models.Tags{"h": "x"}, false, time.Unix(0, tmax).UTC(), np)
		batches[src] = edge.NewBufferedBatchMessage(begin, pts, edge.NewEndBatchMessage())
	}
	order := v.Choose("arrival order", 2)
	for i := 0; i < 2; i++ {
		src := i
		if order == 1 {
			src = 1 - i
		}
		if batches[src] != nil {
			v.Assert(n.BufferedBatch(src, batches[src]) == nil, "no error")
		}
	}
	v.Assert(n.Finish() == nil, "finish succeeds")

	// reference pairing: for every rounded time, the k-th a-point pairs with the k-th b-point
	type want struct {
		t      int64
		av, bv interface{}
	}
	var fillV interface{}
	if fillKind == 2 {
		fillV = int64(-7)
	}
	var wants []want
	usedB := make([]bool, len(ins[1]))
	for _, a := range ins[0] {
		rank := 0
		for _, a2 := range ins[0] {
			if a2.rt == a.rt && a2.seq < a.seq {
				rank++
			}
		}
		matched := false
		r := 0
		for j, b := range ins[1] {
			if b.rt == a.rt {
				if r == rank {
					wants = append(wants, want{a.rt, a.seq, b.seq})
					usedB[j] = true
					matched = true
				}
				r++
			}
		}
		if !matched && fillKind != 0 {
			wants = append(wants, want{a.rt, a.seq, fillV})
		}
	}
	for j, b := range ins[1] {
		if !usedB[j] && fillKind != 0 {
			wants = append(wants, want{b.rt, fillV, b.seq})
		}
	}

	var got []edge.BatchPointMessage
	for _, m := range out.msgs {
		b, ok := m.(edge.BufferedBatchMessage)
		v.Assert(ok, "a batch join emits batches")
		if ok {
			v.Assert(b.Time().UnixNano() == tmax && b.Tags()["h"] == "x", "the joined batch keeps the period end time and the group tags")
			got = append(got, b.Points()...)
		}
	}
	v.Assert(len(out.msgs) <= 1, "at most one joined batch for the period")
	if present == 2 || (present == 1 && fillKind != 0) {
		v.Assert(len(out.msgs) == 1 || len(wants) == 0, "the joined batch is emitted when the parents end")
	}
	v.Observe("joined", len(got))
	v.Assert(len(got) == len(wants), "number of joined points equals the reference pairing")
	if len(got) == len(wants) {
		for _, w := range wants {
			found := 0
			for _, p := range got {
				f := p.Fields()
				av, aok := f["a.v"]
				bv, bok := f["b.v"]
				if aok && bok && len(f) == 2 && av == w.av && bv == w.bv && p.Time().UnixNano() == w.t {
					found++
				}
			}
			v.Assert(found >= 1, "each reference pair appears with prefixed fields and the rounded time")
		}
		for i := 1; i < len(got); i++ {
			v.Assert(!got[i].Time().Before(got[i-1].Time()), "joined points in time order")
		}
	}
	v.Reach("end")
}
