package kapacitor

import (
	"time"

	"github.com/influxdata/kapacitor/edge"
	"github.com/influxdata/kapacitor/models"
	"github.com/influxdata/kapacitor/pipeline"
	vrt "github.com/influxdata/kapacitor/zz_vrt"
)

type verifJoinOut struct {
	t      int64
	s      string
	av, bv interface{}
}

// VerifC12JoinOnOrder: join.on('h') with several points of a parent group at one rounded
// time allowed. No absolute pairing is asserted (the documentation does not define one for
// duplicates under join.on); the property itself is: the multiset of joined points is the
// same for every interleaving of the two time-ordered parent streams. The interleaving
// "general parent first" is compared with an arbitrary (symbolic) one.
func VerifC12JoinOnOrder(v *vrt.T) {
	tol := []time.Duration{0, 4}[v.Choose("tol", 2)]
	fillKind := v.Choose("fill", 3)
	sNames := []string{"p", "q"}
	na, nb := v.Choose("general points", v.Bound("general", 2)+1), v.Choose("specific points", v.Bound("specific", 2)+1)
	type pt struct {
		ns int64
		s  int
	}
	var as, bs []pt
	t := int64(verifT2020)
	for i := 0; i < na; i++ {
		t += int64(v.IntRange("dta", 0, 6))
		as = append(as, pt{t, 0})
	}
	t = int64(verifT2020)
	for i := 0; i < nb; i++ {
		t += int64(v.IntRange("dtb", 0, 6))
		bs = append(bs, pt{t, v.Choose("s", 2)})
	}
	run := func(order []int) []verifJoinOut {
		pj := pipeline.VerifNewJoinNode(pipeline.StreamEdge)
		pj.Names = []string{"a", "b"}
		pj.Tolerance = tol
		pj.Delimiter = "."
		pj.Dimensions = []string{"h"}
		out := &verifC12Edge{}
		n := verifC12NewJoin(pj, out, fillKind)
		ia, ib := 0, 0
		for _, src := range order {
			var p edge.PointMessage
			if src == 0 {
				p = edge.NewPointMessage("ma", "db", "rp", models.Dimensions{TagNames: []string{"h"}}, models.Fields{"v": int64(ia + 1)}, models.Tags{"h": "x"}, time.Unix(0, as[ia].ns).UTC())
				ia++
			} else {
				p = edge.NewPointMessage("mb", "db", "rp", models.Dimensions{TagNames: []string{"h", "s"}}, models.Fields{"v": int64(ib + 1)}, models.Tags{"h": "x", "s": sNames[bs[ib].s]}, time.Unix(0, bs[ib].ns).UTC())
				ib++
			}
			v.Assert(n.Point(src, p) == nil, "no error")
		}
		v.Assert(n.Finish() == nil, "finish succeeds")
		var res []verifJoinOut
		for _, m := range out.msgs {
			p := m.(edge.PointMessage)
			res = append(res, verifJoinOut{p.Time().UnixNano(), p.Tags()["s"], p.Fields()["a.v"], p.Fields()["b.v"]})
		}
		return res
	}
	// canonical order: the general parent delivers everything first
	var canon, order []int
	for i := 0; i < na; i++ {
		canon = append(canon, 0)
	}
	for i := 0; i < nb; i++ {
		canon = append(canon, 1)
	}
	ra, rb := na, nb
	for ra+rb > 0 {
		src := 0
		if ra == 0 {
			src = 1
		} else if rb > 0 {
			src = v.Choose("next from", 2)
		}
		if src == 0 {
			ra--
		} else {
			rb--
		}
		order = append(order, src)
	}
	want := run(canon)
	got := run(order)
	v.Observe("joined", len(want), len(got))
	v.Assert(len(got) == len(want), "the number of joined points does not depend on the interleaving")
	if len(got) == len(want) {
		for _, w := range want {
			cw, cg := 0, 0
			for _, x := range want {
				if x == w {
					cw++
				}
			}
			for _, x := range got {
				if x == w {
					cg++
				}
			}
			v.Assert(cw == cg, "the multiset of joined points does not depend on the interleaving")
		}
	}
	v.Reach("end")
}
