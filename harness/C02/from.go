package kapacitor

import (
	"errors"
	"time"

	"github.com/influxdata/kapacitor/edge"
	"github.com/influxdata/kapacitor/models"
	"github.com/influxdata/kapacitor/pipeline"
	"github.com/influxdata/kapacitor/tick/ast"
	"github.com/influxdata/kapacitor/tick/stateful"
	vrt "github.com/influxdata/kapacitor/zz_vrt"
)

// verifC02Expr stands for a compiled where() predicate: a boolean expression whose
// evaluation on the point yields pass or fails with err (evaluation itself is C04).
type verifC02Expr struct {
	pass  bool
	err   error
	evals int
}

func (e *verifC02Expr) Reset() {}
func (e *verifC02Expr) Type(scope stateful.ReadOnlyScope) (ast.ValueType, error) {
	return ast.TBool, nil
}
func (e *verifC02Expr) EvalFloat(scope *stateful.Scope) (float64, error)   { panic("not a float") }
func (e *verifC02Expr) EvalInt(scope *stateful.Scope) (int64, error)       { panic("not an int") }
func (e *verifC02Expr) EvalString(scope *stateful.Scope) (string, error)   { panic("not a string") }
func (e *verifC02Expr) EvalDuration(s *stateful.Scope) (time.Duration, error) { panic("not a duration") }
func (e *verifC02Expr) EvalBool(scope *stateful.Scope) (bool, error) {
	e.evals++
	return e.pass, e.err
}
func (e *verifC02Expr) Eval(scope *stateful.Scope) (interface{}, error) { return e.EvalBool(scope) }
func (e *verifC02Expr) CopyReset() stateful.Expression                  { return e }

// VerifC02FromMatches: one from() node with any combination of database /
// retentionPolicy / measurement filters and an optional where() outcome against one
// point: matches() and Point() select the point iff every configured filter equals the
// point's attribute and the predicate (if any) evaluates to true without error; the
// forwarded message carries the point's data; the input message is not modified.
func VerifC02FromMatches(v *vrt.T) {
	maxLen := v.Bound("namebytes", 1)
	f := verifC02From{
		db: v.String("fromdb", v.Choose("fromdblen", maxLen+1)),
		rp: v.String("fromrp", v.Choose("fromrplen", maxLen+1)),
		m:  v.String("measurement", v.Choose("mlen", maxLen+1)),
	}
	_, src := pipeline.VerifNewStreamSource()
	pn := src.From()
	pn.Database, pn.RetentionPolicy, pn.Measurement = f.db, f.rp, f.m
	fn, nerr := newFromNode(nil, pn, &verifNopDiag{})
	v.Assert(nerr == nil, "from node created")
	whereKind := v.Choose("where", 3) // none, evaluates to a boolean, evaluation error
	wherePass := uint8(1)
	var expr *verifC02Expr
	if whereKind != 0 {
		expr = &verifC02Expr{}
		if whereKind == 1 {
			expr.pass = v.Bool("wherepass")
			if !expr.pass {
				wherePass = 0
			}
		} else {
			expr.err = errors.New("evaluation failed")
			wherePass = 0
		}
		fn.expression = expr
		fn.scopePool = stateful.NewScopePool(nil)
	}

	db := v.String("pdb", v.Choose("pdblen", maxLen+1))
	rp := v.String("prp", v.Choose("prplen", maxLen+1))
	name := v.String("pname", v.Choose("pnamelen", maxLen+1))
	ts := v.Time("ptime", verifT2020-1000, verifT2020+1000)
	fv := v.Int64("field")
	dims := models.Dimensions{ByName: true, TagNames: []string{"host"}}
	p := edge.NewPointMessage(name, db, rp, dims, models.Fields{"x": fv}, models.Tags{"host": "h"}, ts)

	want := f.selects(db, rp, name) & wherePass

	got := fn.matches(p)
	v.Observe("matches", got)
	v.Assert(got == (want == 1), "matches iff every configured filter equals and the where predicate holds")
	if expr != nil && expr.err != nil && f.selects(db, rp, name) == 1 {
		v.Assert(fn.diag.(*verifNopDiag).errors == 1, "a failing where predicate is reported")
	}

	out, err := fn.Point(p)
	v.Assert(err == nil, "Point returns no error")
	v.Assert((out != nil) == (want == 1), "Point forwards iff the point is selected")
	if out != nil {
		q, ok := out.(edge.PointMessage)
		v.Assert(ok, "forwarded message is a point")
		v.Assert(q.Name() == name && q.Database() == db && q.RetentionPolicy() == rp, "forwarded point keeps name, database, retention policy")
		v.Assert(q.Time().Equal(ts) && q.Fields()["x"] == interface{}(fv) && q.Tags()["host"] == "h" && len(q.Fields()) == 1 && len(q.Tags()) == 1, "forwarded point keeps time, fields, tags")
		v.Assert(!q.Dimensions().ByName && len(q.Dimensions().TagNames) == 0, "from() without groupBy resets the dimensions")
		v.Assert(q != p, "forwarded message is a copy")
	}
	// the message shared with the other from() nodes of the task is left as it was
	v.Assert(p.Name() == name && p.Database() == db && p.RetentionPolicy() == rp && p.Time().Equal(ts), "input message attributes not modified")
	v.Assert(p.Dimensions().ByName && len(p.Dimensions().TagNames) == 1 && p.Dimensions().TagNames[0] == "host", "input message dimensions not modified")
	v.Assert(p.Fields()["x"] == interface{}(fv) && p.Tags()["host"] == "h", "input message data not modified")
	v.Reach("end")
}

// VerifC02FromWhere: from() with a REAL where() lambda.
//   A: from().truncate(16ns).where(lambda: unixNano("time") >= T): the predicate sees the
//      time the point was written with (selection happens before truncate/round, which only
//      affect the forwarded copy); the forwarded time is the truncated one.
//   B: from().where(lambda: "v" > 1) on a point that carries v as a field (symbolic int)
//      and optionally also as a tag: an ambiguous name cannot be evaluated - the point is
//      not selected and the error is reported; without the tag it is selected iff v > 1.
func VerifC02FromWhere(v *vrt.T) {
	_, src := pipeline.VerifNewStreamSource()
	pn := src.From()
	variant := v.Choose("variant", 2)
	const T = verifT2020
	var lambda string
	if variant == 0 {
		pn.Truncate = 16
		lambda = `unixNano("time") >= 1577836800000000008` // T+8: not on the truncation grid
	} else {
		lambda = `"v" > 1`
	}
	ln, err := ast.ParseLambda(lambda)
	v.Assert(err == nil, "lambda parses")
	pn.Lambda = ln
	diag := &verifNopDiag{}
	fn, nerr := newFromNode(nil, pn, diag)
	v.Assert(nerr == nil && fn != nil, "from node created")
	if nerr != nil {
		return
	}
	ts := v.Time("ptime", T-40, T+40)
	fv := int64(v.IntRange("v", -2, 4))
	tags := models.Tags{"host": "h"}
	ambiguous := variant == 1 && v.Choose("v is also a tag", 2) == 1
	if ambiguous {
		tags["v"] = "x"
	}
	p := edge.NewPointMessage("m", "db", "rp", models.Dimensions{}, models.Fields{"v": fv}, tags, ts)
	out, perr := fn.Point(p)
	v.Assert(perr == nil, "Point returns no error")
	var want bool
	if variant == 0 {
		want = ts.UnixNano() >= T+8
	} else {
		want = !ambiguous && fv > 1
	}
	v.Observe("selected", out != nil)
	v.Assert((out != nil) == want, "the point is forwarded iff the where() predicate holds for the point as written")
	if ambiguous {
		v.Assert(diag.errors == 1, "a name that is both a tag and a field is reported, not guessed")
	}
	if out != nil && variant == 0 {
		q := out.(edge.PointMessage)
		v.Assert(q.Time().UnixNano() == verifTruncRef(ts.UnixNano(), 16), "the forwarded copy carries the truncated time")
	}
	v.Assert(p.Time().Equal(ts), "the written point keeps its time")
	v.Reach("end")
}
