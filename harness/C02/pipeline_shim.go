package pipeline

// VerifNewStreamSource returns an empty pipeline with its `stream` source node, as
// CreatePipeline makes it for a stream task before the TICKscript is evaluated
// (exported shim for harnesses in package kapacitor; from() nodes are then added with
// the real StreamNode.From()).
func VerifNewStreamSource() (*Pipeline, *StreamNode) {
	s := newStreamNode()
	return CreatePipelineSources(s), s
}
