package kapacitor

import (
	"errors"
	"time"

	"github.com/influxdata/kapacitor/edge"
	"github.com/influxdata/kapacitor/expvar"
	"github.com/influxdata/kapacitor/models"
	"github.com/influxdata/kapacitor/pipeline"
	vrt "github.com/influxdata/kapacitor/zz_vrt"
)

// verifC02FailEdge is a task's source edge; when dead (its pipeline failed and aborted
// the edge, the task is still registered until someone stops it) Collect returns an error.
type verifC02FailEdge struct {
	dead bool
	got  []int64
}

func (e *verifC02FailEdge) Collect(m edge.Message) error {
	if e.dead {
		return errors.New("edge aborted")
	}
	e.got = append(e.got, m.(edge.PointMessage).Fields()["i"].(int64))
	return nil
}
func (e *verifC02FailEdge) Emit() (edge.Message, bool) { return nil, false }
func (e *verifC02FailEdge) Close() error               { return nil }
func (e *verifC02FailEdge) Abort()                     { e.dead = true }
func (e *verifC02FailEdge) Type() pipeline.EdgeType    { return pipeline.StreamEdge }

// VerifC02FailedTaskStillRegistered: a task whose pipeline failed stays in the routing table
// until it is stopped; points written meanwhile must still reach every healthy task that
// selects them, exactly once and in order (failure of one task does not lose points of
// another).
func VerifC02FailedTaskStillRegistered(v *vrt.T) {
	tm := &TaskMaster{
		id:             "tm",
		forks:          map[forkKey]map[string]edge.Edge{},
		forkStats:      map[forkKey]*expvar.Int{},
		taskToForkKeys: map[string][]forkKey{},
	}
	// three tasks on (db, rp): which measurement each selects ("" = unfiltered) and which
	// of them is dead is chosen structurally; the measurement byte of the points is symbolic
	names := []string{"a", "b", "c"}
	edges := map[string]*verifC02FailEdge{}
	sel := map[string]string{}
	for _, n := range names {
		e := &verifC02FailEdge{dead: v.Choose("dead "+n, 2) == 1}
		edges[n] = e
		sel[n] = []string{"", "m"}[v.Choose("measurement "+n, 2)]
		k := forkKey{Database: "db", RetentionPolicy: "rp", Measurement: sel[n]}
		if tm.forks[k] == nil {
			tm.forks[k] = map[string]edge.Edge{}
		}
		tm.forks[k][n] = e
		tm.taskToForkKeys[n] = append(tm.taskToForkKeys[n], k)
	}
	k := v.Bound("points", 2)
	want := map[string][]int64{}
	for i := 0; i < k; i++ {
		m := v.String("name", 1)
		p := edge.NewPointMessage(m, "db", "rp", models.Dimensions{}, models.Fields{"i": int64(i)}, models.Tags{}, time.Unix(0, int64(i)).UTC())
		tm.forkPoint(p)
		for _, n := range names {
			if !edges[n].dead && (sel[n] == "" || sel[n] == m) {
				want[n] = append(want[n], int64(i))
			}
		}
	}
	for _, n := range names {
		got := edges[n].got
		v.Assert(len(got) == len(want[n]), "every healthy task receives exactly the points it selects")
		if len(got) == len(want[n]) {
			for i := range got {
				v.Assert(got[i] == want[n][i], "in the order written")
			}
		}
	}
	v.Reach("end")
}
