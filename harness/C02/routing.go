package kapacitor

import (
	"time"

	"github.com/influxdata/kapacitor/edge"
	kexpvar "github.com/influxdata/kapacitor/expvar"
	"github.com/influxdata/kapacitor/models"
	"github.com/influxdata/kapacitor/pipeline"
	vrt "github.com/influxdata/kapacitor/zz_vrt"
)

// ---- stubs of Kapacitor's own interfaces (instrumentation only) ----

type verifC02Diag struct{}

func (verifC02Diag) WithTaskContext(task string) TaskDiagnostic    { return nil }
func (d verifC02Diag) WithTaskMasterContext(tm string) Diagnostic  { return d }
func (verifC02Diag) WithNodeContext(node string) NodeDiagnostic    { return &verifNopDiag{} }
func (verifC02Diag) WithEdgeContext(t, p, c string) EdgeDiagnostic { return verifC02EdgeDiag{} }
func (verifC02Diag) TaskMasterOpened()                             {}
func (verifC02Diag) TaskMasterClosed()                             {}
func (verifC02Diag) StartingTask(id string)                        {}
func (verifC02Diag) StartedTask(id string)                         {}
func (verifC02Diag) StoppedTask(id string)                         {}
func (verifC02Diag) StoppedTaskWithError(id string, err error)     {}
func (verifC02Diag) TaskMasterDot(d string)                        {}

type verifC02EdgeDiag struct{}

func (verifC02EdgeDiag) ClosingEdge(collected, emitted int64) {}

// verifC02Timer is a timer.Timer that measures nothing.
type verifC02Timer struct{}

func (verifC02Timer) Start()  {}
func (verifC02Timer) Pause()  {}
func (verifC02Timer) Resume() {}
func (verifC02Timer) Stop()   {}

// verifC02NewStatistic replaces server/vars.NewStatistic (publishes counters into the
// process-wide expvar tree under a random UUID key): statistics are not part of routing.
func verifC02NewStatistic(name string, tags map[string]string) (string, *kexpvar.Map) {
	m := &kexpvar.Map{}
	m.Init()
	return "verif", m
}

// verifC02DeleteStatistic replaces server/vars.DeleteStatistic.
func verifC02DeleteStatistic(key string) {}

// ---- configuration ----

type verifC02From struct {
	db, rp, m string // from().database(db).retentionPolicy(rp).measurement(m); "" = not configured
}

type verifC02Task struct {
	id    string
	dbrps []DBRP
	froms []verifC02From
	task  *Task                // the real task definition: stream source with one from() per entry of froms
	nodes []*pipeline.FromNode // its from() nodes
}

// one incarnation of a running task: the edge newFork returned and, per written point
// and from() node, whether the reference semantics select the point.
type verifC02Inc struct {
	e    edge.StatsEdge
	want [][]uint8 // [point index][from index], 0/1
}

func verifC02MakeTask(v *vrt.T, id string, maxDBRPs, maxFroms int, fromFilters bool) *verifC02Task {
	t := &verifC02Task{id: id}
	ndb := 1 + v.Choose("ndbrp", maxDBRPs)
	for i := 0; i < ndb; i++ {
		t.dbrps = append(t.dbrps, DBRP{Database: v.String("db", 1), RetentionPolicy: v.String("rp", 1)})
	}
	nf := 1 + v.Choose("nfrom", maxFroms)
	for j := 0; j < nf; j++ {
		f := verifC02From{m: v.String("measurement", v.Choose("mlen", 2))}
		if fromFilters {
			f.db = v.String("fromdb", v.Choose("fromdblen", 2))
			f.rp = v.String("fromrp", v.Choose("fromrplen", 2))
		}
		t.froms = append(t.froms, f)
	}
	// what `stream|from().database(db).retentionPolicy(rp).measurement(m)` (once per
	// from) builds, without the TICKscript evaluator
	pl, src := pipeline.VerifNewStreamSource()
	for _, f := range t.froms {
		n := src.From()
		n.Database, n.RetentionPolicy, n.Measurement = f.db, f.rp, f.m
		t.nodes = append(t.nodes, n)
	}
	t.task = &Task{ID: id, Pipeline: pl, Type: StreamTask, DBRPs: t.dbrps}
	return t
}

// Reference semantics (DESIGN Appendix A "Routing"), written branch-free: truth values
// are uint8 0/1 combined with & and |, so that evaluating the oracle on symbolic names
// does not split paths (the assertion hands one term to the solver).

// verifC02Eq is 1 iff a == b (lengths are concrete, bytes may be symbolic).
func verifC02Eq(a, b string) uint8 {
	if len(a) != len(b) {
		return 0
	}
	var d uint8
	for i := 0; i < len(a); i++ {
		d |= a[i] ^ b[i]
	}
	return 1 - ((d | -d) >> 7) // (d | -d) has its top bit set iff d != 0
}

// declared: the task lists the pair (db, rp).
func (t *verifC02Task) declared(db, rp string) uint8 {
	var r uint8
	for _, d := range t.dbrps {
		r |= verifC02Eq(d.Database, db) & verifC02Eq(d.RetentionPolicy, rp)
	}
	return r
}

// selects: every configured filter of the from() node equals the point's attribute.
func (f verifC02From) selects(db, rp, name string) uint8 {
	r := uint8(1)
	if f.db != "" {
		r &= verifC02Eq(f.db, db)
	}
	if f.rp != "" {
		r &= verifC02Eq(f.rp, rp)
	}
	if f.m != "" {
		r &= verifC02Eq(f.m, name)
	}
	return r
}

func verifC02TaskMaster() *TaskMaster {
	return &TaskMaster{
		id:             "verif",
		forks:          make(map[forkKey]map[string]edge.Edge),
		forkStats:      make(map[forkKey]*kexpvar.Int),
		taskToForkKeys: make(map[string][]forkKey),
		diag:           verifC02Diag{},
	}
}

// VerifC02Routing: two stream tasks, a legal history of start / stop / write steps.
// The real forkPoint/newFork/delFork route every written point to the task edges; at
// the end each task edge is closed and pumped through the real StreamNode
// (runSourceStream) and one real FromNode (runStream -> Point -> matches) per from(),
// into one sink edge per from() node. The sink contents are compared with the
// reference semantics.
func VerifC02Routing(v *vrt.T) {
	steps := v.Bound("steps", 4)
	maxWrites := v.Bound("writes", steps)
	fromFilters := v.Bound("fromfilters", 0) == 1
	tasks := []*verifC02Task{
		verifC02MakeTask(v, "A", v.Bound("dbrpsA", 2), v.Bound("fromsA", 2), fromFilters),
		verifC02MakeTask(v, "B", v.Bound("dbrpsB", 2), v.Bound("fromsB", 2), fromFilters)}
	tm := verifC02TaskMaster()

	cur := []*verifC02Inc{nil, nil} // running incarnation per task
	var incs [2][]*verifC02Inc
	npoints := 0

	for s := 0; s < steps; s++ {
		nops := 3
		if npoints >= maxWrites {
			nops = 2 // the write budget of this tier is used up: only start/stop steps remain
		}
		op := v.Choose("op", nops)
		if op < 2 {
			t := tasks[op]
			if cur[op] == nil {
				// as StartTask does
				e, err := tm.newFork(t.task.ID, t.task.DBRPs, t.task.Measurements())
				v.Assert(err == nil && e != nil, "newFork succeeds")
				inc := &verifC02Inc{e: e}
				cur[op] = inc
				incs[op] = append(incs[op], inc)
			} else {
				// StopTask/DeleteTask: delFork(id) closes the task edge
				tm.delFork(t.id)
				cur[op] = nil
			}
			continue
		}
		// a point written to (db, rp) with a measurement name
		db, rp := v.String("pdb", 1), v.String("prp", 1)
		name := v.String("pname", v.Choose("pnamelen", 2))
		p := edge.NewPointMessage(name, db, rp, models.Dimensions{}, models.Fields{"i": int64(npoints)}, models.Tags{}, time.Unix(0, int64(npoints)).UTC())
		var before [2]int64
		for ti := range tasks {
			if cur[ti] != nil {
				before[ti] = cur[ti].e.Collected()
			}
		}
		tm.forkPoint(p)
		for ti, t := range tasks {
			inc := cur[ti]
			if inc == nil {
				continue
			}
			decl := t.declared(db, rp)
			got := inc.e.Collected() - before[ti]
			if got != 0 {
				v.Assert(decl == 1, "a task that did not declare (db,rp) never receives the point")
			}
			w := make([]uint8, len(t.froms))
			for fi, f := range t.froms {
				w[fi] = decl & f.selects(db, rp, name)
			}
			for len(inc.want) < npoints {
				inc.want = append(inc.want, nil)
			}
			inc.want = append(inc.want, w)
		}
		npoints++
	}

	// Stop what is still running (closes the edges), then run the pipelines' heads.
	for ti, t := range tasks {
		if cur[ti] != nil {
			tm.delFork(t.id)
		}
	}
	v.Assert(len(tm.taskToForkKeys) == 0, "no fork keys remain once every task is stopped")
	for _, m := range tm.forks {
		v.Assert(len(m) == 0, "no edge remains in the routing table once every task is stopped")
	}
	total := 0
	for ti, t := range tasks {
		for _, inc := range incs[ti] {
			nf := len(t.froms)
			fromIn := make([]edge.StatsEdge, nf)
			sinks := make([]edge.StatsEdge, nf)
			for fi := range t.froms {
				fromIn[fi] = edge.NewStatsEdge(edge.NewChannelEdge(pipeline.StreamEdge, defaultEdgeBufferSize))
				sinks[fi] = edge.NewStatsEdge(edge.NewChannelEdge(pipeline.StreamEdge, defaultEdgeBufferSize))
			}
			sn := &StreamNode{node: node{ins: []edge.StatsEdge{inc.e}, outs: fromIn}}
			v.Assert(sn.runSourceStream(nil) == nil, "stream node runs")
			for fi := range t.froms {
				fromIn[fi].Close()
				fn, err := newFromNode(nil, t.nodes[fi], &verifNopDiag{})
				v.Assert(err == nil, "from node created")
				fn.ins, fn.outs, fn.timer = []edge.StatsEdge{fromIn[fi]}, []edge.StatsEdge{sinks[fi]}, verifC02Timer{}
				v.Assert(fn.runStream(nil) == nil, "from node runs")
				sinks[fi].Close()
				// sink contents: strictly increasing point indexes (order, at most once) ...
				last := int64(-1)
				seen := make([]bool, npoints)
				for m, ok := sinks[fi].Emit(); ok; m, ok = sinks[fi].Emit() {
					pm, isPoint := m.(edge.PointMessage)
					v.Assert(isPoint, "sink receives points")
					i := pm.Time().UnixNano()
					v.Assert(i >= 0 && i < int64(npoints) && pm.Fields()["i"] == interface{}(i), "sink receives written points unchanged")
					v.Assert(i != last, "a point is delivered at most once per from() node")
					v.Assert(i > last, "points arrive in the order written")
					last = i
					seen[i] = true
					total++
				}
				// ... and exactly the points the reference selects while the task was running
				var bad uint8 // one solver question per sink: some point present xor selected
				for i := 0; i < npoints; i++ {
					want := uint8(0) // not written while this incarnation ran
					if i < len(inc.want) && inc.want[i] != nil {
						want = inc.want[i][fi]
					}
					if seen[i] {
						want ^= 1
					}
					bad |= want
				}
				v.Assert(bad == 0, "from() node receives a point iff the task runs, declared (db,rp) and the from() selects it")
			}
		}
	}
	v.Observe("delivered", total, npoints)
	v.Reach("end")
}
