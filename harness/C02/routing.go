package kapacitor

import (
	"time"

	"github.com/influxdata/kapacitor/edge"
	kexpvar "github.com/influxdata/kapacitor/expvar"
	"github.com/influxdata/kapacitor/models"
	"github.com/influxdata/kapacitor/pipeline"
	vrt "github.com/influxdata/kapacitor/zz_vrt"
)

// ---- stubs of Kapacitor's own interfaces (instrumentation only) ----

type verifC02Diag struct{}

func (verifC02Diag) WithTaskContext(task string) TaskDiagnostic    { return nil }
func (d verifC02Diag) WithTaskMasterContext(tm string) Diagnostic  { return d }
func (verifC02Diag) WithNodeContext(node string) NodeDiagnostic    { return &verifNopDiag{} }
func (verifC02Diag) WithEdgeContext(t, p, c string) EdgeDiagnostic { return verifC02EdgeDiag{} }
func (verifC02Diag) TaskMasterOpened()                             {}
func (verifC02Diag) TaskMasterClosed()                             {}
func (verifC02Diag) StartingTask(id string)                        {}
func (verifC02Diag) StartedTask(id string)                         {}
func (verifC02Diag) StoppedTask(id string)                         {}
func (verifC02Diag) StoppedTaskWithError(id string, err error)     {}
func (verifC02Diag) TaskMasterDot(d string)                        {}

type verifC02EdgeDiag struct{}

func (verifC02EdgeDiag) ClosingEdge(collected, emitted int64) {}

// verifC02Timer is a timer.Timer that measures nothing.
type verifC02Timer struct{}

func (verifC02Timer) Start()  {}
func (verifC02Timer) Pause()  {}
func (verifC02Timer) Resume() {}
func (verifC02Timer) Stop()   {}

// verifC02NewStatistic replaces server/vars.NewStatistic (publishes counters into the
// process-wide expvar tree under a random UUID key): statistics are not part of routing.
func verifC02NewStatistic(name string, tags map[string]string) (string, *kexpvar.Map) {
	m := &kexpvar.Map{}
	m.Init()
	return "verif", m
}

// verifC02DeleteStatistic replaces server/vars.DeleteStatistic.
func verifC02DeleteStatistic(key string) {}

// ---- configuration ----

type verifC02From struct {
	db, rp, m string // from().database(db).retentionPolicy(rp).measurement(m); "" = not configured
}

type verifC02Task struct {
	id    string
	dbrps []DBRP
	froms []verifC02From
}

// one incarnation of a running task: the edge newFork returned and, per written point
// and from() node, whether the reference semantics select the point.
type verifC02Inc struct {
	e    edge.StatsEdge
	want [][]bool // [point index][from index]
}

func verifC02MakeTask(v *vrt.T, id string, maxDBRPs, maxFroms int, fromFilters bool) *verifC02Task {
	t := &verifC02Task{id: id}
	ndb := 1 + v.Choose("ndbrp", maxDBRPs)
	for i := 0; i < ndb; i++ {
		t.dbrps = append(t.dbrps, DBRP{Database: v.String("db", 1), RetentionPolicy: v.String("rp", 1)})
	}
	nf := 1 + v.Choose("nfrom", maxFroms)
	for j := 0; j < nf; j++ {
		f := verifC02From{m: v.String("measurement", v.Choose("mlen", 2))}
		if fromFilters {
			f.db = v.String("fromdb", v.Choose("fromdblen", 2))
			f.rp = v.String("fromrp", v.Choose("fromrplen", 2))
		}
		t.froms = append(t.froms, f)
	}
	return t
}

func (t *verifC02Task) measurements() []string {
	// what Task.Measurements() yields: the measurement of every from() node, in order
	ms := make([]string, 0, len(t.froms))
	for _, f := range t.froms {
		ms = append(ms, f.m)
	}
	return ms
}

// reference semantics (DESIGN Appendix A "Routing")
func (t *verifC02Task) declared(db, rp string) bool {
	for _, d := range t.dbrps {
		if d.Database == db && d.RetentionPolicy == rp {
			return true
		}
	}
	return false
}

func (f verifC02From) selects(db, rp, name string) bool {
	if f.db != "" && f.db != db {
		return false
	}
	if f.rp != "" && f.rp != rp {
		return false
	}
	return f.m == "" || f.m == name
}

func verifC02TaskMaster() *TaskMaster {
	return &TaskMaster{
		id:             "verif",
		forks:          make(map[forkKey]map[string]edge.Edge),
		forkStats:      make(map[forkKey]*kexpvar.Int),
		taskToForkKeys: make(map[string][]forkKey),
		diag:           verifC02Diag{},
	}
}

// VerifC02Routing: two stream tasks, a legal history of start / stop / write steps.
// The real forkPoint/newFork/delFork route every written point to the task edges; at
// the end each task edge is closed and pumped through the real StreamNode
// (runSourceStream) and one real FromNode (runStream -> Point -> matches) per from(),
// into one sink edge per from() node. The sink contents are compared with the
// reference semantics.
func VerifC02Routing(v *vrt.T) {
	steps := v.Bound("steps", 4)
	fromFilters := v.Bound("fromfilters", 0) == 1
	tasks := []*verifC02Task{
		verifC02MakeTask(v, "A", v.Bound("dbrpsA", 2), v.Bound("fromsA", 2), fromFilters),
		verifC02MakeTask(v, "B", v.Bound("dbrpsB", 2), v.Bound("fromsB", 2), fromFilters)}
	tm := verifC02TaskMaster()

	cur := []*verifC02Inc{nil, nil} // running incarnation per task
	var incs [2][]*verifC02Inc
	npoints := 0

	for s := 0; s < steps; s++ {
		op := v.Choose("op", 3)
		if op < 2 {
			t := tasks[op]
			if cur[op] == nil {
				// StartTask: newFork(id, dbrps, Task.Measurements())
				e, err := tm.newFork(t.id, t.dbrps, t.measurements())
				v.Assert(err == nil && e != nil, "newFork succeeds")
				inc := &verifC02Inc{e: e}
				cur[op] = inc
				incs[op] = append(incs[op], inc)
			} else {
				// StopTask/DeleteTask: delFork(id) closes the task edge
				tm.delFork(t.id)
				cur[op] = nil
			}
			continue
		}
		// a point written to (db, rp) with a measurement name
		db, rp := v.String("pdb", 1), v.String("prp", 1)
		name := v.String("pname", v.Choose("pnamelen", 2))
		p := edge.NewPointMessage(name, db, rp, models.Dimensions{}, models.Fields{"i": int64(npoints)}, models.Tags{}, time.Unix(0, int64(npoints)).UTC())
		var before [2]int64
		for ti := range tasks {
			if cur[ti] != nil {
				before[ti] = cur[ti].e.Collected()
			}
		}
		tm.forkPoint(p)
		for ti, t := range tasks {
			inc := cur[ti]
			if inc == nil {
				continue
			}
			decl := t.declared(db, rp)
			got := inc.e.Collected() - before[ti]
			v.Assert(got == 0 || decl, "a task that did not declare (db,rp) never receives the point")
			w := make([]bool, len(t.froms))
			for fi, f := range t.froms {
				w[fi] = decl && f.selects(db, rp, name)
			}
			for len(inc.want) < npoints {
				inc.want = append(inc.want, nil)
			}
			inc.want = append(inc.want, w)
		}
		npoints++
	}

	// Stop what is still running (closes the edges), then run the pipelines' heads.
	for ti, t := range tasks {
		if cur[ti] != nil {
			tm.delFork(t.id)
		}
	}
	v.Assert(len(tm.taskToForkKeys) == 0, "no fork keys remain once every task is stopped")
	for _, m := range tm.forks {
		v.Assert(len(m) == 0, "no edge remains in the routing table once every task is stopped")
	}
	total := 0
	for ti, t := range tasks {
		for _, inc := range incs[ti] {
			nf := len(t.froms)
			fromIn := make([]edge.StatsEdge, nf)
			sinks := make([]edge.StatsEdge, nf)
			for fi := range t.froms {
				fromIn[fi] = edge.NewStatsEdge(edge.NewChannelEdge(pipeline.StreamEdge, defaultEdgeBufferSize))
				sinks[fi] = edge.NewStatsEdge(edge.NewChannelEdge(pipeline.StreamEdge, defaultEdgeBufferSize))
			}
			sn := &StreamNode{node: node{ins: []edge.StatsEdge{inc.e}, outs: fromIn}}
			v.Assert(sn.runSourceStream(nil) == nil, "stream node runs")
			for fi, f := range t.froms {
				fromIn[fi].Close()
				fn := &FromNode{
					node: node{ins: []edge.StatsEdge{fromIn[fi]}, outs: []edge.StatsEdge{sinks[fi]}, diag: &verifNopDiag{}, timer: verifC02Timer{}},
					s:    &pipeline.FromNode{},
					db:   f.db, rp: f.rp, name: f.m,
				}
				v.Assert(fn.runStream(nil) == nil, "from node runs")
				sinks[fi].Close()
				// sink contents: strictly increasing point indexes (order, at most once) ...
				last := int64(-1)
				seen := make([]bool, npoints)
				for m, ok := sinks[fi].Emit(); ok; m, ok = sinks[fi].Emit() {
					pm, isPoint := m.(edge.PointMessage)
					v.Assert(isPoint, "sink receives points")
					i := pm.Time().UnixNano()
					v.Assert(i >= 0 && i < int64(npoints) && pm.Fields()["i"] == interface{}(i), "sink receives written points unchanged")
					v.Assert(i != last, "a point is delivered at most once per from() node")
					v.Assert(i > last, "points arrive in the order written")
					last = i
					seen[i] = true
					total++
				}
				// ... and exactly the points the reference selects while the task was running
				for i := 0; i < npoints; i++ {
					want := i < len(inc.want) && inc.want[i] != nil && inc.want[i][fi]
					v.Assert(seen[i] == want, "from() node receives a point iff the task runs, declared (db,rp) and the from() selects it")
				}
			}
		}
	}
	v.Observe("delivered", total, npoints)
	v.Reach("end")
}
