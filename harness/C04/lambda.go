package stateful

import (
	"time"

	"github.com/influxdata/kapacitor/tick/ast"
	vrt "github.com/influxdata/kapacitor/zz_vrt"
)

// ---------- reference semantics (written from the TICKscript documentation) ----------

type verifKind int

const (
	vkInt verifKind = iota
	vkFloat
	vkString
	vkBool
	vkDuration
	vkMissing
)

type verifVal struct {
	k verifKind
	i int64 // int and duration
	f float64
	s string
	b bool
}

var verifOps = []ast.TokenType{
	ast.TokenPlus, ast.TokenMinus, ast.TokenMult, ast.TokenDiv, ast.TokenMod,
	ast.TokenEqual, ast.TokenNotEqual, ast.TokenLess, ast.TokenGreater, ast.TokenLessEqual, ast.TokenGreaterEqual,
	ast.TokenAnd, ast.TokenOr, ast.TokenRegexEqual, ast.TokenRegexNotEqual,
}

func verifIsCmp(op ast.TokenType) bool {
	switch op {
	case ast.TokenEqual, ast.TokenNotEqual, ast.TokenLess, ast.TokenGreater, ast.TokenLessEqual, ast.TokenGreaterEqual:
		return true
	}
	return false
}

func verifCmpInt(op ast.TokenType, l, r int64) bool {
	switch op {
	case ast.TokenEqual:
		return l == r
	case ast.TokenNotEqual:
		return l != r
	case ast.TokenLess:
		return l < r
	case ast.TokenGreater:
		return l > r
	case ast.TokenLessEqual:
		return l <= r
	}
	return l >= r
}

func verifCmpFloat(op ast.TokenType, l, r float64) bool {
	switch op {
	case ast.TokenEqual:
		return l == r
	case ast.TokenNotEqual:
		return l != r
	case ast.TokenLess:
		return l < r
	case ast.TokenGreater:
		return l > r
	case ast.TokenLessEqual:
		return l <= r
	}
	return l >= r
}

func verifCmpString(op ast.TokenType, l, r string) bool {
	switch op {
	case ast.TokenEqual:
		return l == r
	case ast.TokenNotEqual:
		return l != r
	case ast.TokenLess:
		return l < r
	case ast.TokenGreater:
		return l > r
	case ast.TokenLessEqual:
		return l <= r
	}
	return l >= r
}

// verifRefBinary: typed semantics of `l op r`. ok=false: the evaluation must report an error
// (type mismatch, missing value, arithmetic fault).
// Operators apply only to the documented type pairs; ints and floats are never coerced for
// arithmetic; an int compared with a float is compared as float64(int) (the documented
// numeric comparison); ints wrap around like Go int64; floats are IEEE-754.
func verifRefBinary(op ast.TokenType, l, r verifVal) (res verifVal, ok bool) {
	switch {
	case l.k == vkBool && r.k == vkBool:
		switch op {
		case ast.TokenAnd:
			return verifVal{k: vkBool, b: l.b && r.b}, true
		case ast.TokenOr:
			return verifVal{k: vkBool, b: l.b || r.b}, true
		case ast.TokenEqual:
			return verifVal{k: vkBool, b: l.b == r.b}, true
		case ast.TokenNotEqual:
			return verifVal{k: vkBool, b: l.b != r.b}, true
		}
	case l.k == vkInt && r.k == vkInt:
		if verifIsCmp(op) {
			return verifVal{k: vkBool, b: verifCmpInt(op, l.i, r.i)}, true
		}
		switch op {
		case ast.TokenPlus:
			return verifVal{k: vkInt, i: l.i + r.i}, true
		case ast.TokenMinus:
			return verifVal{k: vkInt, i: l.i - r.i}, true
		case ast.TokenMult:
			return verifVal{k: vkInt, i: l.i * r.i}, true
		case ast.TokenDiv:
			if r.i == 0 {
				return res, false // arithmetic fault
			}
			return verifVal{k: vkInt, i: l.i / r.i}, true
		case ast.TokenMod:
			if r.i == 0 {
				return res, false
			}
			return verifVal{k: vkInt, i: l.i % r.i}, true
		}
	case l.k == vkFloat && r.k == vkFloat:
		if verifIsCmp(op) {
			return verifVal{k: vkBool, b: verifCmpFloat(op, l.f, r.f)}, true
		}
		switch op {
		case ast.TokenPlus:
			return verifVal{k: vkFloat, f: l.f + r.f}, true
		case ast.TokenMinus:
			return verifVal{k: vkFloat, f: l.f - r.f}, true
		case ast.TokenMult:
			return verifVal{k: vkFloat, f: l.f * r.f}, true
		case ast.TokenDiv:
			return verifVal{k: vkFloat, f: l.f / r.f}, true
		}
	case l.k == vkInt && r.k == vkFloat:
		if verifIsCmp(op) {
			return verifVal{k: vkBool, b: verifCmpFloat(op, float64(l.i), r.f)}, true
		}
	case l.k == vkFloat && r.k == vkInt:
		if verifIsCmp(op) {
			return verifVal{k: vkBool, b: verifCmpFloat(op, l.f, float64(r.i))}, true
		}
	case l.k == vkString && r.k == vkString:
		if verifIsCmp(op) {
			return verifVal{k: vkBool, b: verifCmpString(op, l.s, r.s)}, true
		}
		if op == ast.TokenPlus {
			return verifVal{k: vkString, s: l.s + r.s}, true
		}
	case l.k == vkDuration && r.k == vkDuration:
		if verifIsCmp(op) {
			return verifVal{k: vkBool, b: verifCmpInt(op, l.i, r.i)}, true
		}
		switch op {
		case ast.TokenPlus:
			return verifVal{k: vkDuration, i: l.i + r.i}, true
		case ast.TokenMinus:
			return verifVal{k: vkDuration, i: l.i - r.i}, true
		case ast.TokenDiv:
			if r.i == 0 {
				return res, false
			}
			return verifVal{k: vkInt, i: l.i / r.i}, true
		}
	case l.k == vkDuration && r.k == vkInt:
		switch op {
		case ast.TokenMult:
			return verifVal{k: vkDuration, i: l.i * r.i}, true
		case ast.TokenDiv:
			if r.i == 0 {
				return res, false
			}
			return verifVal{k: vkDuration, i: l.i / r.i}, true
		}
	case l.k == vkInt && r.k == vkDuration:
		if op == ast.TokenMult {
			return verifVal{k: vkDuration, i: l.i * r.i}, true
		}
	case l.k == vkDuration && r.k == vkFloat:
		// scaling a duration by a float: computed in float64, truncated to nanoseconds
		switch op {
		case ast.TokenMult:
			return verifVal{k: vkDuration, i: int64(float64(l.i) * r.f)}, true
		case ast.TokenDiv:
			return verifVal{k: vkDuration, i: int64(float64(l.i) / r.f)}, true
		}
	case l.k == vkFloat && r.k == vkDuration:
		if op == ast.TokenMult {
			return verifVal{k: vkDuration, i: int64(l.f * float64(r.i))}, true
		}
	}
	return res, false
}

// ---------- building symbolic scopes ----------

func verifSymVal(v *vrt.T, name string, nk int) verifVal {
	switch verifKind(v.Choose(name+".kind", nk)) {
	case vkInt:
		return verifVal{k: vkInt, i: v.Int64(name + ".int")}
	case vkFloat:
		return verifVal{k: vkFloat, f: v.Float64(name + ".float")}
	case vkString:
		return verifVal{k: vkString, s: v.String(name+".str", v.Choose(name+".len", 2))}
	case vkBool:
		return verifVal{k: vkBool, b: v.Bool(name + ".bool")}
	case vkDuration:
		return verifVal{k: vkDuration, i: v.Int64(name + ".dur")}
	}
	return verifVal{k: vkMissing}
}

func (x verifVal) scopeValue() interface{} {
	switch x.k {
	case vkInt:
		return x.i
	case vkFloat:
		return x.f
	case vkString:
		return x.s
	case vkBool:
		return x.b
	case vkDuration:
		return time.Duration(x.i)
	}
	return ast.MissingValue
}

// verifSame: res (from Eval) equals the reference value (NaN equals NaN).
func verifSame(res interface{}, want verifVal) bool {
	switch want.k {
	case vkInt:
		r, ok := res.(int64)
		return ok && r == want.i
	case vkFloat:
		r, ok := res.(float64)
		return ok && (r == want.f || (r != r && want.f != want.f))
	case vkString:
		r, ok := res.(string)
		return ok && r == want.s
	case vkBool:
		r, ok := res.(bool)
		return ok && r == want.b
	case vkDuration:
		r, ok := res.(time.Duration)
		return ok && int64(r) == want.i
	}
	return false
}

func verifBinaryAST(op ast.TokenType) ast.Node {
	return &ast.BinaryNode{Operator: op, Left: &ast.ReferenceNode{Reference: "a"}, Right: &ast.ReferenceNode{Reference: "b"}}
}

func verifScope(a, b verifVal) *Scope {
	s := NewScope()
	s.Set("a", a.scopeValue())
	s.Set("b", b.scopeValue())
	return s
}

// regex operators need a regex operand; a reference can never hold one, so on references
// they must always be errors (the reference table has no entry with a regex).

// VerifC04Binary: `"a" op "b"` over the full operator x kind matrix with symbolic values
// equals the typed reference semantics (value, kind and error-ness).
func VerifC04Binary(v *vrt.T) {
	op := verifOps[v.Choose("op", len(verifOps))]
	nk := v.Bound("kinds", 6)
	a, b := verifSymVal(v, "a", nk), verifSymVal(v, "b", nk)
	expr, err := NewExpression(verifBinaryAST(op))
	v.Assert(err == nil, "dynamic expression compiles")
	if err != nil {
		return
	}
	res, err := expr.Eval(verifScope(a, b))
	want, ok := verifRefBinary(op, a, b)
	v.Observe("err", err != nil)
	v.Assert((err == nil) == ok, "error exactly when the typed semantics has no value")
	if err == nil && ok {
		v.Assert(verifSame(res, want), "result equals the typed reference value")
	}
	v.Reach("end")
}

// VerifC04History: the result for a scope does not depend on which field types the
// compiled expression saw before (re-specialisation cache).
func VerifC04History(v *vrt.T) {
	op := verifOps[v.Choose("op", len(verifOps))]
	nk := v.Bound("kinds", 4)
	a1, b1 := verifSymVal(v, "a1", nk), verifSymVal(v, "b1", nk)
	a2, b2 := verifSymVal(v, "a2", nk), verifSymVal(v, "b2", nk)
	used, err := NewExpression(verifBinaryAST(op))
	v.Assume(err == nil)
	_, _ = used.Eval(verifScope(a1, b1))
	res, err := used.Eval(verifScope(a2, b2))
	want, ok := verifRefBinary(op, a2, b2)
	v.Observe("err", err != nil)
	v.Assert((err == nil) == ok, "second evaluation: error exactly when the typed semantics has no value")
	if err == nil && ok {
		v.Assert(verifSame(res, want), "second evaluation equals the typed reference value")
	}
	v.Reach("end")
}

// VerifC04ShortCircuit: AND/OR do not evaluate (and so cannot fail on) their right operand
// when the left one decides; otherwise a faulty right operand is an error.
func VerifC04ShortCircuit(v *vrt.T) {
	op := []ast.TokenType{ast.TokenAnd, ast.TokenOr}[v.Choose("op", 2)]
	left := v.Bool("left")
	x, y := v.Int64("x"), v.Int64("y")
	// "l" AND/OR ("x" / "y" == 0): the right side faults iff y == 0
	n := &ast.BinaryNode{Operator: op, Left: &ast.ReferenceNode{Reference: "l"},
		Right: &ast.BinaryNode{Operator: ast.TokenEqual,
			Left:  &ast.BinaryNode{Operator: ast.TokenDiv, Left: &ast.ReferenceNode{Reference: "x"}, Right: &ast.ReferenceNode{Reference: "y"}},
			Right: &ast.NumberNode{IsInt: true, Int64: 0}}}
	expr, err := NewExpression(n)
	v.Assume(err == nil)
	s := NewScope()
	s.Set("l", left)
	s.Set("x", x)
	s.Set("y", y)
	res, err := expr.Eval(s)
	decided := (op == ast.TokenAnd && !left) || (op == ast.TokenOr && left)
	switch {
	case decided:
		v.Assert(err == nil && res == interface{}(left), "left operand decides: right side is not evaluated")
	case y == 0:
		v.Assert(err != nil, "fault in the evaluated right operand is an error")
	default:
		v.Assert(err == nil && res == interface{}(x/y == 0), "value of the right operand")
	}
	v.Reach("end")
}

// verifRefUnary: -x on int/float/duration, !x on bool; everything else is a type error.
func verifRefUnary(op ast.TokenType, x verifVal) (verifVal, bool) {
	switch op {
	case ast.TokenMinus:
		switch x.k {
		case vkInt:
			return verifVal{k: vkInt, i: -x.i}, true
		case vkFloat:
			return verifVal{k: vkFloat, f: -x.f}, true
		case vkDuration:
			return verifVal{k: vkDuration, i: -x.i}, true
		}
	case ast.TokenNot:
		if x.k == vkBool {
			return verifVal{k: vkBool, b: !x.b}, true
		}
	}
	return verifVal{}, false
}

// VerifC04Unary: `(u "a") op "b"` with u in {-, !}: the value of the typed semantics, an error
// when the unary or the binary operator does not apply to the operand kinds; evaluation
// terminates (no unbounded re-specialisation).
func VerifC04Unary(v *vrt.T) {
	u := []ast.TokenType{ast.TokenMinus, ast.TokenNot}[v.Choose("unary", 2)]
	op := verifOps[v.Choose("op", len(verifOps))]
	nk := v.Bound("kinds", 6)
	var a verifVal
	var inner ast.Node
	if v.Choose("aconst", 2) == 1 {
		// a literal operand (the expression is then specialised at compile time)
		switch v.Choose("lit", 5) {
		case 0:
			a, inner = verifVal{k: vkInt, i: 3}, &ast.NumberNode{IsInt: true, Int64: 3}
		case 1:
			a, inner = verifVal{k: vkFloat, f: 1.5}, &ast.NumberNode{IsFloat: true, Float64: 1.5}
		case 2:
			a, inner = verifVal{k: vkString, s: "a"}, &ast.StringNode{Literal: "a"}
		case 3:
			a, inner = verifVal{k: vkBool, b: true}, &ast.BoolNode{Bool: true}
		case 4:
			a, inner = verifVal{k: vkDuration, i: 1000}, &ast.DurationNode{Dur: 1000}
		}
	} else {
		a = verifSymVal(v, "a", nk)
		inner = &ast.ReferenceNode{Reference: "a"}
	}
	b := verifSymVal(v, "b", nk)
	n := &ast.BinaryNode{Operator: op, Left: &ast.UnaryNode{Operator: u, Node: inner}, Right: &ast.ReferenceNode{Reference: "b"}}
	expr, err := NewExpression(n)
	ua, uok := verifRefUnary(u, a)
	var want verifVal
	ok := false
	if uok {
		want, ok = verifRefBinary(op, ua, b)
	}
	if err != nil {
		// rejected at compile time: fine when the expression can never have a value
		v.Assert(!uok, "only ill-typed expressions are rejected at compile time")
		v.Reach("rejected")
		return
	}
	res, err := expr.Eval(verifScope(a, b))
	v.Observe("err", err != nil)
	v.Assert((err == nil) == ok, "error exactly when the typed semantics has no value")
	if err == nil && ok {
		v.Assert(verifSame(res, want), "result equals the typed reference value")
	}
	v.Reach("end")
}

// VerifC04ShortCircuitTyped: as above, but the right operand is a comparison on a field that
// may be missing or of a type the comparison does not accept (a type fault, not an
// arithmetic one), and the left operand is a reference or a function call.
func VerifC04ShortCircuitTyped(v *vrt.T) {
	op := []ast.TokenType{ast.TokenAnd, ast.TokenOr}[v.Choose("op", 2)]
	nk := v.Bound("kinds", 6)
	x := verifSymVal(v, "x", nk)
	cmp := []ast.TokenType{ast.TokenGreater, ast.TokenEqual, ast.TokenLessEqual}[v.Choose("cmp", 3)]
	right := &ast.BinaryNode{Operator: cmp, Left: &ast.ReferenceNode{Reference: "x"}, Right: &ast.NumberNode{IsInt: true, Int64: 1}}
	var left ast.Node
	var lv bool
	s := NewScope()
	s.Set("x", x.scopeValue())
	if v.Choose("leftkind", 2) == 0 {
		lv = v.Bool("left")
		left = &ast.ReferenceNode{Reference: "l"}
		s.Set("l", lv)
	} else {
		// isPresent("x"): true iff the field exists
		left = &ast.FunctionNode{Type: ast.GlobalFunc, Func: "isPresent", Args: []ast.Node{&ast.ReferenceNode{Reference: "x"}}}
		lv = x.k != vkMissing
	}
	expr, err := NewExpression(&ast.BinaryNode{Operator: op, Left: left, Right: right})
	v.Assume(err == nil)
	res, err := expr.Eval(s)
	rv, rok := verifRefBinary(cmp, x, verifVal{k: vkInt, i: 1})
	decided := (op == ast.TokenAnd && !lv) || (op == ast.TokenOr && lv)
	v.Observe("err", err != nil)
	switch {
	case decided:
		v.Assert(err == nil && res == interface{}(lv), "left operand decides: a faulty right comparison is not evaluated")
	case !rok:
		v.Assert(err != nil, "type fault in the evaluated right operand is an error")
	default:
		v.Assert(err == nil && res == interface{}(rv.b), "value of the right comparison")
	}
	v.Reach("end")
}

// VerifC05TypedEval (kernel K3 of C05): the typed entry points nodes use (EvalBool via
// EvalPredicate, EvalInt, EvalFloat, EvalString, EvalDuration) report evaluation faults as
// errors and never panic.
func VerifC05TypedEval(v *vrt.T) {
	op := verifOps[v.Choose("op", len(verifOps))]
	nk := v.Bound("kinds", 6)
	a, b := verifSymVal(v, "a", nk), verifSymVal(v, "b", nk)
	expr, err := NewExpression(verifBinaryAST(op))
	v.Assume(err == nil)
	s := verifScope(a, b)
	want, ok := verifRefBinary(op, a, b)
	switch v.Choose("entry", 5) {
	case 0:
		r, err := expr.EvalBool(s)
		v.Assert((err == nil) == (ok && want.k == vkBool), "EvalBool: error unless the expression has a bool value")
		if err == nil && ok && want.k == vkBool {
			v.Assert(r == want.b, "EvalBool value")
		}
	case 1:
		r, err := expr.EvalInt(s)
		v.Assert((err == nil) == (ok && want.k == vkInt), "EvalInt: error unless the expression has an int value")
		if err == nil && ok && want.k == vkInt {
			v.Assert(r == want.i, "EvalInt value")
		}
	case 2:
		r, err := expr.EvalFloat(s)
		v.Assert((err == nil) == (ok && want.k == vkFloat), "EvalFloat: error unless the expression has a float value")
		if err == nil && ok && want.k == vkFloat {
			v.Assert(r == want.f || (r != r && want.f != want.f), "EvalFloat value")
		}
	case 3:
		r, err := expr.EvalString(s)
		v.Assert((err == nil) == (ok && want.k == vkString), "EvalString: error unless the expression has a string value")
		if err == nil && ok && want.k == vkString {
			v.Assert(r == want.s, "EvalString value")
		}
	case 4:
		r, err := expr.EvalDuration(s)
		v.Assert((err == nil) == (ok && want.k == vkDuration), "EvalDuration: error unless the expression has a duration value")
		if err == nil && ok && want.k == vkDuration {
			v.Assert(int64(r) == want.i, "EvalDuration value")
		}
	}
	v.Reach("end")
}

// VerifC05SubstringFaults (kernel K3): string index functions with arbitrary int arguments
// return a value or an error, never panic; a value equals the Go substring.
func VerifC05SubstringFaults(v *vrt.T) {
	str := v.String("s", v.Choose("len", 4))
	start, stop := v.Int64("start"), v.Int64("stop")
	n := &ast.FunctionNode{Type: ast.GlobalFunc, Func: "strSubstring", Args: []ast.Node{
		&ast.ReferenceNode{Reference: "s"}, &ast.ReferenceNode{Reference: "i"}, &ast.ReferenceNode{Reference: "j"}}}
	expr, err := NewExpression(n)
	v.Assume(err == nil)
	s := NewScope()
	s.Set("s", str)
	s.Set("i", start)
	s.Set("j", stop)
	r, err := expr.EvalString(s)
	v.Observe("err", err != nil)
	valid := start >= 0 && start <= stop && stop <= int64(len(str))
	if err == nil {
		v.Assert(valid, "a substring is only returned for valid bounds")
		if valid {
			v.Assert(r == str[start:stop], "substring value")
		}
	} else {
		v.Assert(!valid, "valid bounds (also the empty range start == stop) give the substring, not an error")
	}
	v.Reach("end")
}

// VerifC04StatefulCopies: the per-group copies (CopyReset) of one compiled expression keep
// separate stateful-function state: count() and spread("a") evaluated on copy A, copy B
// and the original in an arbitrary interleaving, with Reset of one copy in between, give
// for each copy the value determined by that copy's own earlier evaluations since its last
// reset (the calls counted / the range of its own values), never by the other copies'.
func VerifC04StatefulCopies(v *vrt.T) {
	which := v.Choose("function", 2)
	var node ast.Node
	if which == 0 {
		node = &ast.FunctionNode{Type: ast.GlobalFunc, Func: "count"}
	} else {
		node = &ast.FunctionNode{Type: ast.GlobalFunc, Func: "spread", Args: []ast.Node{&ast.ReferenceNode{Reference: "a"}}}
	}
	orig, err := NewExpression(node)
	v.Assert(err == nil, "stateful function expression compiles")
	if err != nil {
		return
	}
	// the copies may be taken before or after the original has been used
	early := v.Bool("original evaluated before the copies are taken")
	type ref struct {
		n        int64
		has      bool
		min, max float64
	}
	var refs [3]ref
	step := func(c int, e Expression, name string) {
		x := v.Float64(name)
		v.Assume(x == x)
		s := NewScope()
		s.Set("a", x)
		res, err := e.Eval(s)
		r := &refs[c]
		r.n++
		if !r.has || x < r.min {
			r.min = x
		}
		if !r.has || x > r.max {
			r.max = x
		}
		r.has = true
		v.Assert(err == nil, "stateful function evaluates")
		if err != nil {
			return
		}
		if which == 0 {
			got, ok := res.(int64)
			v.Assert(ok && got == r.n, "count() is the number of evaluations of this copy since its reset")
		} else {
			got, ok := res.(float64)
			v.Assert(ok && vrt.SameF64(got, r.max-r.min), "spread() is the range of this copy's own values since its reset")
		}
	}
	if early {
		step(2, orig, "x0")
	}
	exprs := [3]Expression{orig.CopyReset(), orig.CopyReset(), orig}
	steps := v.Bound("steps", 4)
	for i := 0; i < steps; i++ {
		c := v.Choose("copy", 3)
		if v.Choose("reset first", 2) == 1 {
			exprs[c].Reset()
			refs[c] = ref{}
		}
		step(c, exprs[c], "x")
	}
	v.Reach("end")
}

// VerifC04NestedHistory: a nested arithmetic expression `("a" op1 "b") op2 "c"` compiled
// once and evaluated on a scope S1 and then on S2 where the operands have other kinds
// (int, float, duration), so that the kind of the INNER result changes between the two
// evaluations: the second evaluation yields the typed reference value (or an error exactly
// when the typed semantics has none), whatever the expression saw before.
func VerifC04NestedHistory(v *vrt.T) {
	ops := []ast.TokenType{ast.TokenPlus, ast.TokenMult, ast.TokenDiv}
	op1, op2 := ops[v.Choose("op1", 3)], ops[v.Choose("op2", 3)]
	kinds := []verifKind{vkInt, vkFloat, vkDuration}
	sym := func(name string) verifVal {
		// the subject is the kinds, not the arithmetic (Binary decides that on full ranges):
		// small symbolic integers, one float per operand
		switch kinds[v.Choose(name+".kind", 3)] {
		case vkInt:
			return verifVal{k: vkInt, i: int64(v.IntRange(name+".int", -3, 3))}
		case vkFloat:
			return verifVal{k: vkFloat, f: map[string]float64{"a": 1.5, "b": -2, "c": 0.5}[name]}
		}
		return verifVal{k: vkDuration, i: int64(v.IntRange(name+".dur", -3, 3))}
	}
	node := &ast.BinaryNode{Operator: op2,
		Left:  &ast.BinaryNode{Operator: op1, Left: &ast.ReferenceNode{Reference: "a"}, Right: &ast.ReferenceNode{Reference: "b"}},
		Right: &ast.ReferenceNode{Reference: "c"}}
	expr, err := NewExpression(node)
	v.Assume(err == nil)
	steps := v.Bound("steps", 2)
	for i := 0; i < steps; i++ {
		a, b, c := sym("a"), sym("b"), sym("c")
		s := NewScope()
		s.Set("a", a.scopeValue())
		s.Set("b", b.scopeValue())
		s.Set("c", c.scopeValue())
		res, err := expr.Eval(s)
		inner, ok := verifRefBinary(op1, a, b)
		var want verifVal
		if ok {
			want, ok = verifRefBinary(op2, inner, c)
		}
		v.Observe("err", err != nil)
		v.Assert((err == nil) == ok, "error exactly when the typed semantics has no value")
		if err == nil && ok {
			v.Assert(verifSame(res, want), "result equals the typed reference value")
		}
	}
	v.Reach("end")
}

// ---------- built-in functions against reference values ----------

func verifDigits(s string) (val int64, ok bool) {
	if len(s) == 0 {
		return 0, false
	}
	for i := 0; i < len(s); i++ {
		if s[i] < '0' || s[i] > '9' {
			return 0, false
		}
		val = val*10 + int64(s[i]-'0')
	}
	return val, true
}

// verifRefFunction: the documented result of the call (TICKscript lambda function
// reference: type conversion functions are decimal, bool() accepts what strconv.ParseBool
// accepts and the numbers 0 and 1; string functions are byte-wise like Go's strings
// package).
func verifRefFunction(name string, a []verifVal) (verifVal, bool) {
	switch name {
	case "int":
		switch a[0].k {
		case vkInt:
			return a[0], true
		case vkBool:
			if a[0].b {
				return verifVal{k: vkInt, i: 1}, true
			}
			return verifVal{k: vkInt, i: 0}, true
		case vkString:
			s := a[0].s
			neg := false
			if len(s) > 0 && (s[0] == '-' || s[0] == '+') {
				neg = s[0] == '-'
				s = s[1:]
			}
			n, ok := verifDigits(s)
			if !ok {
				return verifVal{}, false
			}
			if neg {
				n = -n
			}
			return verifVal{k: vkInt, i: n}, true
		}
	case "float":
		switch a[0].k {
		case vkInt:
			return verifVal{k: vkFloat, f: float64(a[0].i)}, true
		case vkBool:
			if a[0].b {
				return verifVal{k: vkFloat, f: 1}, true
			}
			return verifVal{k: vkFloat, f: 0}, true
		}
	case "bool":
		switch a[0].k {
		case vkBool:
			return a[0], true
		case vkInt:
			if a[0].i == 0 || a[0].i == 1 {
				return verifVal{k: vkBool, b: a[0].i == 1}, true
			}
			return verifVal{}, false
		case vkString:
			switch a[0].s {
			case "1", "t", "T":
				return verifVal{k: vkBool, b: true}, true
			case "0", "f", "F":
				return verifVal{k: vkBool, b: false}, true
			}
			return verifVal{}, false // longer spellings (true, FALSE, ...) need more than 2 bytes
		}
	case "string":
		switch a[0].k {
		case vkString:
			return a[0], true
		case vkBool:
			if a[0].b {
				return verifVal{k: vkString, s: "true"}, true
			}
			return verifVal{k: vkString, s: "false"}, true
		}
	case "strLength":
		return verifVal{k: vkInt, i: int64(len(a[0].s))}, true
	case "strHasPrefix":
		s, p := a[0].s, a[1].s
		return verifVal{k: vkBool, b: len(s) >= len(p) && s[:len(p)] == p}, true
	case "strHasSuffix":
		s, p := a[0].s, a[1].s
		return verifVal{k: vkBool, b: len(s) >= len(p) && s[len(s)-len(p):] == p}, true
	case "strContains", "strIndex":
		s, p := a[0].s, a[1].s
		idx := int64(-1)
		for i := 0; i+len(p) <= len(s); i++ {
			if s[i:i+len(p)] == p {
				idx = int64(i)
				break
			}
		}
		if name == "strContains" {
			return verifVal{k: vkBool, b: idx >= 0}, true
		}
		return verifVal{k: vkInt, i: idx}, true
	case "abs":
		f := a[0].f
		if f < 0 {
			f = -f
		}
		if f == 0 {
			f = 0 // -0 -> +0
		}
		return verifVal{k: vkFloat, f: f}, true
	case "if":
		if a[0].b {
			return a[1], true
		}
		return a[2], true
	}
	return verifVal{}, false
}

var verifC04Funcs = []struct {
	name string
	args string // i int64, f float64, s string of 0..2 bytes, S string of 0..3 bytes, b bool
}{
	{"int", "S"}, {"int", "b"}, {"int", "i"}, {"float", "i"}, {"float", "b"},
	{"bool", "s"}, {"bool", "i"}, {"bool", "b"}, {"string", "b"}, {"string", "s"},
	{"strLength", "s"}, {"strHasPrefix", "ss"}, {"strHasSuffix", "ss"}, {"strContains", "ss"}, {"strIndex", "ss"},
	{"abs", "f"}, {"if", "bii"}, {"if", "bss"},
}

// VerifC04Functions: built-in functions on arbitrary field values compute their documented
// result (value and kind), or report an error exactly when the documented function has no
// value (int('x'), bool(2), ...).
func VerifC04Functions(v *vrt.T) {
	fc := verifC04Funcs[v.Choose("function", len(verifC04Funcs))]
	names := []string{"a", "b", "c"}
	scope := NewScope()
	var args []ast.Node
	var vals []verifVal
	for i := 0; i < len(fc.args); i++ {
		var x verifVal
		switch fc.args[i] {
		case 'i':
			x = verifVal{k: vkInt, i: v.Int64("int")}
		case 'f':
			x = verifVal{k: vkFloat, f: v.Float64("float")}
		case 's':
			x = verifVal{k: vkString, s: v.String("string", v.Choose("len", 3))}
		case 'S':
			x = verifVal{k: vkString, s: v.String("string", v.Choose("len", 4))}
		case 'b':
			x = verifVal{k: vkBool, b: v.Bool("bool")}
		}
		vals = append(vals, x)
		scope.Set(names[i], x.scopeValue())
		args = append(args, &ast.ReferenceNode{Reference: names[i]})
	}
	expr, err := NewExpression(&ast.FunctionNode{Type: ast.GlobalFunc, Func: fc.name, Args: args})
	v.Assert(err == nil, "the call compiles")
	if err != nil {
		return
	}
	res, err := expr.Eval(scope)
	want, ok := verifRefFunction(fc.name, vals)
	v.Observe("err", err != nil)
	v.Assert((err == nil) == ok, "error exactly when the documented function has no value")
	if err == nil && ok {
		v.Assert(verifSame(res, want), "result equals the documented value")
	}
	v.Reach("end")
}

// VerifC04UnaryNestedHistory: `(u "a") op "b"` with a unary operator under a binary one
// (!"a" AND "b", -"a" + "b", -"a" * "b", !"a" == "b", -"a" < "b"), compiled once and
// evaluated on `steps` consecutive scopes with kinds chosen per operand and step (also
// kinds the operators do not accept): every evaluation yields the typed reference value, or
// an error exactly when there is none - a faulty point must not poison later valid ones.
func VerifC04UnaryNestedHistory(v *vrt.T) {
	shapes := []struct{ u, op ast.TokenType }{
		{ast.TokenNot, ast.TokenAnd}, {ast.TokenNot, ast.TokenEqual},
		{ast.TokenMinus, ast.TokenPlus}, {ast.TokenMinus, ast.TokenMult}, {ast.TokenMinus, ast.TokenLess},
	}
	sh := shapes[v.Choose("shape", len(shapes))]
	kinds := []verifKind{vkBool, vkInt, vkFloat, vkString}
	sym := func(name string) verifVal {
		switch kinds[v.Choose(name+".kind", len(kinds))] {
		case vkBool:
			return verifVal{k: vkBool, b: v.Bool(name + ".bool")}
		case vkInt:
			return verifVal{k: vkInt, i: int64(v.IntRange(name+".int", -3, 3))}
		case vkFloat:
			return verifVal{k: vkFloat, f: map[string]float64{"a": 1.5, "b": -2}[name]}
		}
		return verifVal{k: vkString, s: "s"}
	}
	node := &ast.BinaryNode{Operator: sh.op,
		Left:  &ast.UnaryNode{Operator: sh.u, Node: &ast.ReferenceNode{Reference: "a"}},
		Right: &ast.ReferenceNode{Reference: "b"}}
	expr, err := NewExpression(node)
	v.Assume(err == nil)
	steps := v.Bound("steps", 2)
	for i := 0; i < steps; i++ {
		a, b := sym("a"), sym("b")
		res, err := expr.Eval(verifScope(a, b))
		inner, ok := verifRefUnary(sh.u, a)
		var want verifVal
		if ok {
			want, ok = verifRefBinary(sh.op, inner, b)
		}
		v.Observe("err", err != nil)
		v.Assert((err == nil) == ok, "error exactly when the typed semantics has no value")
		if err == nil && ok {
			v.Assert(verifSame(res, want), "result equals the typed reference value")
		}
	}
	v.Reach("end")
}

// VerifC04FunctionHistory: one compiled function call evaluated on consecutive scopes
// whose argument kinds change - if("a","b","c") with int, float or string branches (the
// result kind follows the branches), bare or as the argument of string(...), and int("a")
// / bool("a") over the kinds their signatures accept or reject: every evaluation yields the
// documented value, or an error exactly when the documented function has none, whatever
// the expression saw before.
func VerifC04FunctionHistory(v *vrt.T) {
	shape := v.Choose("shape", 4)
	ref := func(n string) ast.Node { return &ast.ReferenceNode{Reference: n} }
	var node ast.Node
	switch shape {
	case 0:
		node = &ast.FunctionNode{Type: ast.GlobalFunc, Func: "if", Args: []ast.Node{ref("a"), ref("b"), ref("c")}}
	case 1:
		node = &ast.FunctionNode{Type: ast.GlobalFunc, Func: "string", Args: []ast.Node{
			&ast.FunctionNode{Type: ast.GlobalFunc, Func: "if", Args: []ast.Node{ref("a"), ref("b"), ref("c")}}}}
	case 2:
		node = &ast.FunctionNode{Type: ast.GlobalFunc, Func: "int", Args: []ast.Node{ref("a")}}
	default:
		node = &ast.FunctionNode{Type: ast.GlobalFunc, Func: "bool", Args: []ast.Node{ref("a")}}
	}
	expr, err := NewExpression(node)
	v.Assume(err == nil)
	steps := v.Bound("steps", 2)
	for i := 0; i < steps; i++ {
		s := NewScope()
		var want verifVal
		ok := true
		if shape <= 1 {
			c := v.Bool("cond")
			var b, d verifVal
			switch v.Choose("branch kind", 3) {
			case 0:
				b, d = verifVal{k: vkInt, i: int64(v.IntRange("b", -3, 3))}, verifVal{k: vkInt, i: 7}
			case 1:
				b, d = verifVal{k: vkFloat, f: 1.5}, verifVal{k: vkFloat, f: -2}
			default:
				b, d = verifVal{k: vkString, s: "y"}, verifVal{k: vkString, s: "n"}
			}
			s.Set("a", c)
			s.Set("b", b.scopeValue())
			s.Set("c", d.scopeValue())
			want = d
			if c {
				want = b
			}
			if shape == 1 {
				// string() of the selected branch: strings are passed through; int and float
				// results are formatted (decimal)
				switch want.k {
				case vkString:
				case vkInt:
					ok = false // compared below by parsing back
				default:
					ok = false
				}
			}
		} else {
			var a verifVal
			switch v.Choose("arg kind", 3) {
			case 0:
				a = verifVal{k: vkInt, i: int64(v.IntRange("a", -1, 2))}
			case 1:
				a = verifVal{k: vkBool, b: v.Bool("a")}
			default:
				a = verifVal{k: vkDuration, i: 5}
			}
			s.Set("a", a.scopeValue())
			if a.k == vkDuration {
				ok = false // neither int() nor bool() has a signature for durations
				want = verifVal{}
			} else {
				want, ok = verifRefFunction([]string{"", "", "int", "bool"}[shape], []verifVal{a})
			}
			res, err := expr.Eval(s)
			v.Observe("err", err != nil)
			v.Assert((err == nil) == ok, "error exactly when the documented function has no value")
			if err == nil && ok {
				v.Assert(verifSame(res, want), "result equals the documented value")
			}
			continue
		}
		res, err := expr.Eval(s)
		v.Observe("err", err != nil)
		v.Assert(err == nil, "if() with a boolean condition and branches of one kind evaluates")
		if err == nil {
			if shape == 0 || want.k == vkString {
				v.Assert(verifSame(res, want), "result is the selected branch")
			} else {
				_, isStr := res.(string)
				v.Assert(isStr, "string() of the selected branch is a string")
			}
		}
	}
	v.Reach("end")
}
