package kapacitor

import (
	"time"

	"github.com/influxdata/kapacitor/edge"
	"github.com/influxdata/kapacitor/models"
	vrt "github.com/influxdata/kapacitor/zz_vrt"
)

// C11, history of field types: the node caches the creator of reduce contexts keyed by
// the last field kind (InfluxQLNode.currentKind / createFn). Three consecutive batches of
// one group: A numeric, B all strings or all booleans (a kind on which most functions
// are not defined), C numeric again.
//
// Oracle for B: a batch that carries no value of a kind the function is defined on is,
// for that function, an empty batch: nothing is emitted unless the function is defined
// on empty input (count of the points; sum 0); where the function IS defined on the kind
// (count, first, last) the result is the definition's. Nothing may crash, and batch C
// must be aggregated as usual.
func VerifC11KindHistory(v *vrt.T) {
	fn, as, pointTimes, kn, diag := verifC11Setup(v, true)
	var g edge.ForwardReceiver

	// A
	a := verifC11ReadBatch(v, v.Bound("pointsA", 1), verifT2020)
	msg := verifC11Feed(v, kn, &g, a)
	verifC11CheckBatch(v, fn, a, msg, as, pointTimes)
	v.Assert(diag.errors == 0, "no error reported")

	// B: 1..maxB points, all strings or all booleans
	isStr := v.Choose("kindB", 2) == 0
	n := 1 + v.Choose("nB", v.Bound("pointsB", 2))
	tmax := v.Time("tmax", verifT2020-16, verifT2020+16).UnixNano()
	ts := make([]int64, n)
	sv := make([]string, n)
	bv := make([]bool, n)
	begin := edge.NewBeginBatchMessage("m", verifC11GroupTags(), false, time.Unix(0, tmax).UTC(), n)
	m, err := g.BeginBatch(begin)
	v.Assert(m == nil && err == nil, "BeginBatch forwards nothing")
	for i := 0; i < n; i++ {
		ts[i] = v.Time("t", verifT2020-16, verifT2020+16).UnixNano()
		v.Assume(ts[i] <= tmax)
		var val interface{}
		if isStr {
			sv[i] = v.String("sv", 1)
			val = sv[i]
		} else {
			bv[i] = v.Bool("bv")
			val = bv[i]
		}
		bp := edge.NewBatchPointMessage(
			models.Fields{verifAggField: val, "g": int64(i)},
			models.Tags{"host": "a", "x": "p"},
			time.Unix(0, ts[i]).UTC(),
		)
		m, err := g.BatchPoint(bp)
		v.Assert(m == nil && err == nil, "BatchPoint forwards nothing")
	}
	msg, err = g.EndBatch(edge.NewEndBatchMessage())
	v.Assert(err == nil, "EndBatch reports no error")
	v.Observe("emittedB", msg != nil)
	switch fn {
	case verifAggCount, verifAggFirst, verifAggLast:
		// defined on strings and booleans
		v.Assert(msg != nil, "batch emits a result")
		p, ok := msg.(edge.PointMessage)
		v.Assert(ok, "result is a point")
		v.Assert(p.Name() == "m" && p.Tags()["host"] == "a", "result carries the batch name and the group's tags")
		val, has := p.Fields()[as]
		v.Assert(has, "result field is named by as()")
		outT := p.Time().UnixNano()
		v.Observe("timeB", outT)
		if fn == verifAggCount {
			c, ok := val.(int64)
			v.Assert(ok && c == int64(n), "count = number of points")
			v.Assert(outT == tmax, "aggregate is stamped with the batch time")
			break
		}
		gs, okS := val.(string)
		gb, okB := val.(bool)
		v.Assert(okS == isStr && okB == !isStr, "selector keeps the kind")
		var alts []bool
		for i := 0; i < n; i++ {
			var c []bool
			if isStr {
				c = append(c, sv[i] == gs)
			} else {
				c = append(c, bv[i] == gb)
			}
			for k := 0; k < n; k++ {
				if fn == verifAggFirst {
					c = append(c, ts[i] <= ts[k])
				} else {
					c = append(c, ts[i] >= ts[k])
				}
			}
			if pointTimes {
				c = append(c, outT == ts[i])
			}
			alts = append(alts, vrt.And(c...))
		}
		v.Assert(vrt.Or(alts...), "selector result is the selected point (value and, with usePointTimes, its time)")
		if !pointTimes {
			v.Assert(outT == tmax, "without usePointTimes the batch time is used")
		}
		v.Assert(diag.errors == 0, "no error reported")
	case verifAggSum:
		// not defined on the kind: sum of no (numeric) values
		gi, isI, gf, isF, outT := verifC11ResultPoint(v, msg, as, true)
		v.Assert((isI && gi == 0) || (isF && gf == 0), "sum of nothing is 0")
		v.Assert(outT == tmax, "aggregate is stamped with the batch time")
	default:
		v.Assert(msg == nil, "a batch without a value the function is defined on emits nothing")
	}

	// C
	errsB := diag.errors
	c := verifC11ReadBatch(v, v.Bound("pointsC", 1), verifT2020)
	msg = verifC11Feed(v, kn, &g, c)
	verifC11CheckBatch(v, fn, c, msg, as, pointTimes)
	v.Assert(diag.errors == errsB, "no error reported for the numeric batch")
	v.Reach("end")
}
