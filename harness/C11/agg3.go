package kapacitor

import (
	"time"

	"github.com/influxdata/kapacitor/edge"
	"github.com/influxdata/kapacitor/models"
	"github.com/influxdata/kapacitor/pipeline"
	vrt "github.com/influxdata/kapacitor/zz_vrt"
)

// C11, third table: the streaming transformations elapsed, difference, cumulativeSum,
// movingAverage. On a batch edge they turn every batch into a batch: begin and end are
// forwarded, every input point yields at most one output point stamped with that
// point's time, and the state starts afresh with every batch.

const (
	verifAgg3Elapsed = iota
	verifAgg3Difference
	verifAgg3CumulativeSum
	verifAgg3MovingAverage
	verifAgg3Fns
)

var verifAgg3Names = []string{"elapsed", "difference", "cumulativeSum", "movingAverage"}

var verifC11Units = []time.Duration{1, 3, 7}
var verifC11Windows = []int64{1, 2, 3}

// verifC11FloatTable is the small float domain (a symbolic index selects the value).
var verifC11FloatTable = []float64{0, 1, -1, 2, 3, 0.5, 0.1, 1.5, 1e16, -1e16, 1 << 55, -(1 << 55), 1e308, -1e308, 5e-324, 1e-300}

// VerifC11BatchTransform: two consecutive batches through elapsed / difference /
// cumulativeSum / movingAverage.
func VerifC11BatchTransform(v *vrt.T) {
	fnLo, fnHi := v.Bound("fn_lo", 0), v.Bound("fn_hi", verifAgg3Fns-1)
	fn := fnLo + v.Choose("fn", fnHi-fnLo+1)
	asKind := v.Choose("as", 2)
	maxN := [2]int{v.Bound("points1", 2), v.Bound("points", 4)}
	src := pipeline.VerifC11BatchSource()
	var pn *pipeline.InfluxQLNode
	unit := int64(1)
	w := 1
	switch fn {
	case verifAgg3Elapsed:
		u := verifC11Units[v.Choose("unit", len(verifC11Units))]
		unit = int64(u)
		pn = src.Elapsed(verifAggField, u)
	case verifAgg3Difference:
		pn = src.Difference(verifAggField)
	case verifAgg3CumulativeSum:
		pn = src.CumulativeSum(verifAggField)
	case verifAgg3MovingAverage:
		w = int(verifC11Windows[v.Choose("window", len(verifC11Windows))])
		pn = src.MovingAverage(verifAggField, int64(w))
	}
	as := verifAgg3Names[fn]
	if asKind == 1 {
		as = "out"
		pn.As = as
	}
	v.Assert(pn.As == as, "as defaults to the method name")
	if v.Choose("usePointTimes", 2) == 1 {
		pn.UsePointTimes() // transformations always use the point times
	}
	diag := &verifNopDiag{}
	kn, err := newInfluxQLNode(nil, pn, diag)
	v.Assert(err == nil, "node created")

	var g edge.ForwardReceiver
	for k := 0; k < 2; k++ {
		// batch k: kind and size structural; times increasing (difference skips points
		// that do not advance the time: its points are strictly increasing here)
		isInt := v.Choose("kind", 2) == 0
		n := v.Choose("n", maxN[k]+1)
		minGap := 0
		if fn == verifAgg3Difference {
			minGap = 1
		}
		// Float moving averages in which a value leaves the window (n > w) are decided on
		// a small domain only: every value is any of the 16 entries of
		// verifC11FloatTable (exact and inexact sums, cancellation, overflow, subnormal).
		// IEEE addition chains that differ in shape cannot be compared by the solvers
		// over all of float64 in useful time.
		small := fn == verifAgg3MovingAverage && !isInt && n > w
		t := v.Time("t0", verifT2020-16, verifT2020+16).UnixNano()
		ts := make([]int64, n)
		iv := make([]int64, n)
		fv := make([]float64, n)
		for i := 0; i < n; i++ {
			if i > 0 {
				t += int64(v.IntRange("dt", minGap, 9))
			}
			ts[i] = t
			if isInt {
				iv[i] = v.Int64("iv")
			} else if small {
				fv[i] = verifC11FloatTable[v.IntRange("fx", 0, len(verifC11FloatTable)-1)]
			} else {
				fv[i] = v.Float64("fv")
				verifC11Finite(v, fv[i])
			}
		}
		tmax := t + int64(v.IntRange("dtmax", 0, 2))

		begin := edge.NewBeginBatchMessage("m", verifC11GroupTags(), false, time.Unix(0, tmax).UTC(), n)
		if g == nil {
			g = kn.newGroup(begin)
		}
		m, err := g.BeginBatch(begin)
		v.Assert(err == nil, "BeginBatch reports no error")
		ob, ok := m.(edge.BeginBatchMessage)
		v.Assert(ok, "begin is forwarded")
		v.Assert(ob.Name() == "m" && ob.Tags()["host"] == "a" && len(ob.Tags()) == 1 && ob.Time().UnixNano() == tmax, "forwarded begin carries the batch name, the group's tags and the batch time")

		var isum int64   // running integer sum (wrap-around, exact modulo 2^64)
		var fsum float64 // running float sum, arrival order
		var frun float64 // float window sum as incremental updating computes it
		for i := 0; i < n; i++ {
			var val interface{}
			if isInt {
				val = iv[i]
			} else {
				val = fv[i]
			}
			bp := edge.NewBatchPointMessage(
				models.Fields{verifAggField: val, "g": int64(i)},
				models.Tags{"host": "a", "x": "p"},
				time.Unix(0, ts[i]).UTC(),
			)
			m, err := g.BatchPoint(bp)
			v.Assert(err == nil, "BatchPoint reports no error")
			v.Observe("emitted", m != nil)

			// does point i produce a result?
			expect := true
			switch fn {
			case verifAgg3Elapsed, verifAgg3Difference:
				expect = i >= 1
			case verifAgg3MovingAverage:
				expect = i >= w-1
			}
			if !expect {
				v.Assert(m == nil, "no result before enough points of this batch were seen")
				if isInt {
					isum += iv[i]
				} else {
					fsum += fv[i]
					frun += fv[i]
				}
				continue
			}
			v.Assert(m != nil, "point yields a result")
			op, ok := m.(edge.BatchPointMessage)
			v.Assert(ok, "result is a batch point")
			v.Assert(op.Tags()["host"] == "a", "result carries the group's tags")
			v.Assert(op.Time().UnixNano() == ts[i], "result is stamped with the point's time")
			v.Assert(len(op.Fields()) == 1, "result has one field")
			rv, has := op.Fields()[as]
			v.Assert(has, "result field is named by as()")
			gi, isI := rv.(int64)
			gf, isF := rv.(float64)
			if isI {
				v.Observe("ival", gi)
			}
			if isF {
				v.Observe("fval", gf)
			}
			switch fn {
			case verifAgg3Elapsed:
				v.Assert(isI, "elapsed is an integer")
				v.Assert(gi == (ts[i]-ts[i-1])/unit, "elapsed = time since the previous point in units")
			case verifAgg3Difference:
				if isInt {
					v.Assert(isI, "difference of integers is an integer")
					v.Assert(gi == iv[i]-iv[i-1], "difference to the previous value")
				} else {
					v.Assert(isF, "difference of floats is a float")
					v.Assert(vrt.SameF64(gf, fv[i]-fv[i-1]), "difference to the previous value")
				}
			case verifAgg3CumulativeSum:
				if isInt {
					isum += iv[i]
					v.Assert(isI, "cumulative sum of integers is an integer")
					v.Assert(gi == isum, "cumulative sum")
				} else {
					fsum += fv[i]
					v.Assert(isF, "cumulative sum of floats is a float")
					v.Assert(vrt.SameF64(gf, fsum), "cumulative sum")
				}
			case verifAgg3MovingAverage:
				v.Assert(isF, "moving average is a float")
				if isInt {
					// mean of the last w values; integer sums are exact modulo 2^64
					var s int64
					for j := i - w + 1; j <= i; j++ {
						s += iv[j]
					}
					v.Assert(vrt.SameF64(gf, float64(s)/float64(w)), "moving average = mean of the last w values")
				} else {
					// mean of the last w values, summed in arrival order
					var s float64
					for j := i - w + 1; j <= i; j++ {
						s += fv[j]
					}
					// Known finding C11-movavg-float-drift: InfluxDB keeps one running sum
					// and updates it by "- oldest + newest"; once a value has left the
					// window (i >= w) the rounding errors of the values that are no longer
					// in the window stay in the sum. frun is that incremental sum.
					if i >= w {
						frun -= fv[i-w]
					}
					frun += fv[i]
					v.AssertKnown(vrt.SameF64(gf, s/float64(w)), "moving average = mean of the last w values",
						vrt.And(i >= w, vrt.SameF64(gf, frun/float64(w))), "C11-movavg-float-drift")
				}
			}
		}
		m, err = g.EndBatch(edge.NewEndBatchMessage())
		v.Assert(err == nil, "EndBatch reports no error")
		_, ok = m.(edge.EndBatchMessage)
		v.Assert(ok, "end is forwarded")
		v.Assert(diag.errors == 0, "no error reported")
	}
	v.Reach("end")
}
