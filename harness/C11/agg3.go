package kapacitor

import (
	"time"

	"github.com/influxdata/kapacitor/edge"
	"github.com/influxdata/kapacitor/models"
	"github.com/influxdata/kapacitor/pipeline"
	vrt "github.com/influxdata/kapacitor/zz_vrt"
)

// C11, third table: the streaming transformations elapsed, difference, cumulativeSum,
// movingAverage. On a batch edge they turn every batch into a batch: begin and end are
// forwarded, every input point yields at most one output point stamped with that
// point's time, and the state starts afresh with every batch. On a stream edge every
// point of the group's series yields at most one output point.

const (
	verifAgg3Elapsed = iota
	verifAgg3Difference
	verifAgg3CumulativeSum
	verifAgg3MovingAverage
	verifAgg3Fns
)

var verifAgg3Names = []string{"elapsed", "difference", "cumulativeSum", "movingAverage"}

var verifC11Units = []time.Duration{1, 3, 7}
var verifC11Windows = []int64{1, 2, 4}

// verifC11FloatTable is the small float domain (a symbolic index selects the value).
var verifC11FloatTable = []float64{0, 1, -1, 2, 3, 0.5, 0.1, 1.5, 1e16, -1e16, 1 << 55, -(1 << 55), 1e308, -1e308, 5e-324, 1e-300}

// verifC11Chain3 is the chaining API of the transformations (batch and stream sources).
type verifC11Chain3 interface {
	Elapsed(field string, unit time.Duration) *pipeline.InfluxQLNode
	Difference(field string) *pipeline.InfluxQLNode
	CumulativeSum(field string) *pipeline.InfluxQLNode
	MovingAverage(field string, window int64) *pipeline.InfluxQLNode
}

// verifC11Transform is the configuration under test plus the oracle's running state for
// one series (one batch, or the group's stream).
type verifC11Transform struct {
	fn   int
	as   string
	unit int64
	w    int
	kn   *InfluxQLNode
	diag *verifNopDiag

	// one series
	isInt bool
	ts    []int64
	iv    []int64
	fv    []float64
	isum  int64   // running integer sum (wrap-around: exact modulo 2^64)
	fsum  float64 // running float sum, arrival order
	frun  float64 // float window sum as incremental updating computes it
}

func verifC11TransformSetup(v *vrt.T, src verifC11Chain3) *verifC11Transform {
	x := &verifC11Transform{unit: 1, w: 1}
	fnLo, fnHi := v.Bound("fn_lo", 0), v.Bound("fn_hi", verifAgg3Fns-1)
	x.fn = fnLo + v.Choose("fn", fnHi-fnLo+1)
	asKind := v.Choose("as", 2)
	var pn *pipeline.InfluxQLNode
	switch x.fn {
	case verifAgg3Elapsed:
		u := verifC11Units[v.Choose("unit", len(verifC11Units))]
		x.unit = int64(u)
		pn = src.Elapsed(verifAggField, u)
	case verifAgg3Difference:
		pn = src.Difference(verifAggField)
	case verifAgg3CumulativeSum:
		pn = src.CumulativeSum(verifAggField)
	case verifAgg3MovingAverage:
		x.w = int(verifC11Windows[v.Choose("window", len(verifC11Windows))])
		pn = src.MovingAverage(verifAggField, int64(x.w))
	}
	x.as = verifAgg3Names[x.fn]
	if asKind == 1 {
		x.as = "out"
		pn.As = x.as
	}
	v.Assert(pn.As == x.as, "as defaults to the method name")
	if v.Choose("usePointTimes", 2) == 1 {
		pn.UsePointTimes() // transformations always use the point times
	}
	x.diag = &verifNopDiag{}
	kn, err := newInfluxQLNode(nil, pn, x.diag)
	v.Assert(err == nil, "node created")
	x.kn = kn
	return x
}

// series makes a new symbolic series: kind and length structural, times increasing
// (difference skips points that do not advance the time: strictly increasing for it).
func (x *verifC11Transform) series(v *vrt.T, maxN, minN int) {
	x.isInt = v.Choose("kind", 2) == 0
	n := minN + v.Choose("n", maxN-minN+1)
	minGap := 0
	if x.fn == verifAgg3Difference {
		minGap = 1
	}
	// Float moving averages in which a value leaves the window (n > w) are decided on
	// a small domain only: every value is any of the 16 entries of verifC11FloatTable
	// (exact and inexact sums, cancellation, overflow, subnormal). IEEE addition chains
	// that differ in shape cannot be compared by the solvers over all of float64 in
	// useful time.
	small := x.fn == verifAgg3MovingAverage && !x.isInt && n > x.w
	t := v.Time("t0", verifT2020-16, verifT2020+16).UnixNano()
	x.ts, x.iv, x.fv = make([]int64, n), make([]int64, n), make([]float64, n)
	x.isum, x.fsum, x.frun = 0, 0, 0
	for i := 0; i < n; i++ {
		if i > 0 {
			t += int64(v.IntRange("dt", minGap, 9))
		}
		x.ts[i] = t
		if x.isInt {
			x.iv[i] = v.Int64("iv")
		} else if small {
			x.fv[i] = verifC11FloatTable[v.IntRange("fx", 0, len(verifC11FloatTable)-1)]
		} else {
			x.fv[i] = v.Float64("fv")
			verifC11Finite(v, x.fv[i])
		}
	}
}

func (x *verifC11Transform) fields(i int) models.Fields {
	var val interface{}
	if x.isInt {
		val = x.iv[i]
	} else {
		val = x.fv[i]
	}
	return models.Fields{verifAggField: val, "g": int64(i)}
}

// check is the oracle for what point i of the series produced (m == nil: nothing).
func (x *verifC11Transform) check(v *vrt.T, i int, m edge.FieldsTagsTimeGetter) {
	iv, fv, ts, w := x.iv, x.fv, x.ts, x.w
	v.Observe("emitted", m != nil)
	// does point i produce a result?
	expect := true
	switch x.fn {
	case verifAgg3Elapsed, verifAgg3Difference:
		expect = i >= 1
	case verifAgg3MovingAverage:
		expect = i >= w-1
	}
	if !expect {
		v.Assert(m == nil, "no result before enough points of the series were seen")
		if !x.isInt {
			x.frun += fv[i]
		}
		return
	}
	v.Assert(m != nil, "point yields a result")
	v.Assert(m.Tags()["host"] == "a", "result carries the group's tags")
	v.Assert(m.Time().UnixNano() == ts[i], "result is stamped with the point's time")
	v.Assert(len(m.Fields()) == 1, "result has one field")
	rv, has := m.Fields()[x.as]
	v.Assert(has, "result field is named by as()")
	gi, isI := rv.(int64)
	gf, isF := rv.(float64)
	if isI {
		v.Observe("ival", gi)
	}
	if isF {
		v.Observe("fval", gf)
	}
	switch x.fn {
	case verifAgg3Elapsed:
		v.Assert(isI, "elapsed is an integer")
		v.Assert(gi == (ts[i]-ts[i-1])/x.unit, "elapsed = time since the previous point in units")
	case verifAgg3Difference:
		if x.isInt {
			v.Assert(isI, "difference of integers is an integer")
			v.Assert(gi == iv[i]-iv[i-1], "difference to the previous value")
		} else {
			v.Assert(isF, "difference of floats is a float")
			v.Assert(vrt.SameF64(gf, fv[i]-fv[i-1]), "difference to the previous value")
		}
	case verifAgg3CumulativeSum:
		if x.isInt {
			x.isum += iv[i]
			v.Assert(isI, "cumulative sum of integers is an integer")
			v.Assert(gi == x.isum, "cumulative sum")
		} else {
			x.fsum += fv[i]
			v.Assert(isF, "cumulative sum of floats is a float")
			v.Assert(vrt.SameF64(gf, x.fsum), "cumulative sum")
		}
	case verifAgg3MovingAverage:
		v.Assert(isF, "moving average is a float")
		if x.isInt {
			// mean of the last w values; integer sums are exact modulo 2^64
			var s int64
			for j := i - w + 1; j <= i; j++ {
				s += iv[j]
			}
			v.Assert(vrt.SameF64(gf, float64(s)/float64(w)), "moving average = mean of the last w values")
		} else {
			// mean of the last w values, summed in arrival order
			var s float64
			for j := i - w + 1; j <= i; j++ {
				s += fv[j]
			}
			// Known finding C11-movavg-float-drift: InfluxDB keeps one running sum and
			// updates it by "- oldest + newest"; once a value has left the window
			// (i >= w) the rounding errors of values that are no longer in the window
			// stay in the sum. frun is that incremental sum; the class is "the result is
			// what incremental updating gives".
			if i >= w {
				x.frun -= fv[i-w]
			}
			x.frun += fv[i]
			v.AssertKnown(vrt.SameF64(gf, s/float64(w)), "moving average = mean of the last w values",
				vrt.And(i >= w, vrt.SameF64(gf, x.frun/float64(w))), "C11-movavg-float-drift")
		}
	}
}

// VerifC11BatchTransform: two consecutive batches through elapsed / difference /
// cumulativeSum / movingAverage.
func VerifC11BatchTransform(v *vrt.T) {
	x := verifC11TransformSetup(v, pipeline.VerifC11BatchSource())
	maxN := [2]int{v.Bound("points1", 2), v.Bound("points", 4)}
	var g edge.ForwardReceiver
	for k := 0; k < 2; k++ {
		x.series(v, maxN[k], 0)
		n := len(x.ts)
		tmax := int64(v.IntRange("dtmax", 0, 2))
		if n > 0 {
			tmax += x.ts[n-1]
		} else {
			tmax += verifT2020
		}
		begin := edge.NewBeginBatchMessage("m", verifC11GroupTags(), false, time.Unix(0, tmax).UTC(), n)
		if g == nil {
			g = x.kn.newGroup(begin)
		}
		m, err := g.BeginBatch(begin)
		v.Assert(err == nil, "BeginBatch reports no error")
		ob, ok := m.(edge.BeginBatchMessage)
		v.Assert(ok, "begin is forwarded")
		v.Assert(ob.Name() == "m" && ob.Tags()["host"] == "a" && len(ob.Tags()) == 1 && ob.Time().UnixNano() == tmax, "forwarded begin carries the batch name, the group's tags and the batch time")
		for i := 0; i < n; i++ {
			bp := edge.NewBatchPointMessage(x.fields(i), models.Tags{"host": "a", "x": "p"}, time.Unix(0, x.ts[i]).UTC())
			m, err := g.BatchPoint(bp)
			v.Assert(err == nil, "BatchPoint reports no error")
			if m == nil {
				x.check(v, i, nil)
			} else {
				op, ok := m.(edge.BatchPointMessage)
				v.Assert(ok, "result is a batch point")
				if ok {
					v.Assert(op.Tags()["host"] == "a" && len(op.Tags()) == 1, "a transformed batch point carries the group's tags (not the extra tags of the input point)")
				}
				x.check(v, i, op)
			}
		}
		m, err = g.EndBatch(edge.NewEndBatchMessage())
		v.Assert(err == nil, "EndBatch reports no error")
		_, ok = m.(edge.EndBatchMessage)
		v.Assert(ok, "end is forwarded")
		v.Assert(x.diag.errors == 0, "no error reported")
	}
	v.Reach("end")
}

// VerifC11StreamTransform: the points of one group's stream (one kind, increasing times)
// through elapsed / difference / cumulativeSum / movingAverage.
func VerifC11StreamTransform(v *vrt.T) {
	x := verifC11TransformSetup(v, pipeline.VerifC11StreamSource())
	x.series(v, v.Bound("points", 4), 1)
	dims := models.Dimensions{TagNames: []string{"host"}}
	var g edge.ForwardReceiver
	for i := range x.ts {
		p := edge.NewPointMessage("m", "db", "rp", dims, x.fields(i), models.Tags{"host": "a", "x": "p"}, time.Unix(0, x.ts[i]).UTC())
		if g == nil {
			g = x.kn.newGroup(p)
		}
		m, err := g.Point(p)
		v.Assert(err == nil, "Point reports no error")
		if m == nil {
			x.check(v, i, nil)
		} else {
			op, ok := m.(edge.PointMessage)
			v.Assert(ok, "result is a point")
			v.Assert(op.Name() == "m", "result carries the name")
			d := op.Dimensions()
			v.Assert(!d.ByName && len(d.TagNames) == 1 && d.TagNames[0] == "host", "result carries the group's dimensions")
			x.check(v, i, op)
		}
		v.Assert(x.diag.errors == 0, "no error reported")
	}
	v.Reach("end")
}
