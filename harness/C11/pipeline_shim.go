package pipeline

// Exported shims for the C11 harness (package kapacitor): source nodes linked into a
// Pipeline exactly as createPipelineAndVars does, so that the chaining methods
// (|query()/|from() and then |count(), |sum(), ...) can be used to build the real
// pipeline.InfluxQLNode configurations.

// VerifC11BatchSource is `batch|query('')`: a chain node that provides a batch edge.
func VerifC11BatchSource() *QueryNode {
	b := newBatchNode()
	CreatePipelineSources(b)
	return b.Query("")
}

// VerifC11StreamSource is `stream|from()`: a chain node that provides a stream edge.
func VerifC11StreamSource() *FromNode {
	s := newStreamNode()
	CreatePipelineSources(s)
	return s.From()
}
