package kapacitor

import (
	"math"

	"github.com/influxdata/kapacitor/edge"
	"github.com/influxdata/kapacitor/models"
	"github.com/influxdata/kapacitor/pipeline"
	vrt "github.com/influxdata/kapacitor/zz_vrt"
)

// C11, second table: functions that look at the whole sorted batch
// (median, mode, percentile, distinct, stddev).

const (
	verifAgg2Median = iota
	verifAgg2Mode
	verifAgg2Percentile
	verifAgg2Distinct
	verifAgg2Stddev
	verifAgg2Fns
)

var verifAgg2Names = []string{"median", "mode", "percentile", "distinct", "stddev"}

// percentile arguments (concrete table): nearest rank r = floor(n*p/100 + 0.5); p = 25
// gives r = 0 for n = 1 (no result), 50 the lower median, 100 the maximum.
var verifC11Percentiles = []float64{50, 100, 25, 90}

// verifC11Order returns the indices of the batch's points in ascending order of value: a
// reference insertion sort. Each comparison forks the path unless the path condition
// (the implementation's own sort) already decides it; ties keep arrival order.
func verifC11Order(b *verifAggBatch) []int {
	less := func(i, j int) bool {
		if b.isInt {
			return b.iv[i] < b.iv[j]
		}
		return b.fv[i] < b.fv[j]
	}
	var ord []int
	for i := 0; i < b.n(); i++ {
		pos := len(ord)
		for pos > 0 && less(i, ord[pos-1]) {
			pos--
		}
		ord = append(ord, 0)
		copy(ord[pos+1:], ord[pos:])
		ord[pos] = i
	}
	return ord
}

// VerifC11BatchSlice: two consecutive batches through median / mode / percentile /
// distinct / stddev.
func VerifC11BatchSlice(v *vrt.T) {
	fnLo, fnHi := v.Bound("fn_lo", 0), v.Bound("fn_hi", verifAgg2Fns-1)
	fn := fnLo + v.Choose("fn", fnHi-fnLo+1)
	pointTimes := v.Choose("usePointTimes", 2) == 1
	asKind := v.Choose("as", 2)
	maxN := [2]int{v.Bound("points1", 1), v.Bound("points", 3)}
	src := pipeline.VerifC11BatchSource()
	var pn *pipeline.InfluxQLNode
	pct := 0.0
	switch fn {
	case verifAgg2Median:
		pn = src.Median(verifAggField)
	case verifAgg2Mode:
		pn = src.Mode(verifAggField)
	case verifAgg2Percentile:
		pct = verifC11Percentiles[v.Choose("percentile", len(verifC11Percentiles))]
		pn = src.Percentile(verifAggField, pct)
	case verifAgg2Distinct:
		pn = src.Distinct(verifAggField)
	case verifAgg2Stddev:
		pn = src.Stddev(verifAggField)
	}
	as := verifAgg2Names[fn]
	if asKind == 1 {
		as = "out"
		pn.As = as
	}
	v.Assert(pn.As == as, "as defaults to the method name")
	if pointTimes {
		pn.UsePointTimes()
	}
	diag := &verifNopDiag{}
	kn, err := newInfluxQLNode(nil, pn, diag)
	v.Assert(err == nil, "node created")

	var g edge.ForwardReceiver
	for k := 0; k < 2; k++ {
		b := verifC11ReadBatch(v, maxN[k], verifT2020)
		msg := verifC11Feed(v, kn, &g, b)
		verifC11CheckSlice(v, fn, pct, b, msg, as, pointTimes)
		v.Assert(diag.errors == 0, "no error reported")
	}
	v.Reach("end")
}

func verifC11CheckSlice(v *vrt.T, fn int, pct float64, b *verifAggBatch, msg edge.Message, as string, pointTimes bool) {
	n := b.n()
	v.Observe("emitted", msg != nil)
	if n == 0 {
		v.Assert(msg == nil, "empty batch emits nothing")
		return
	}
	if fn == verifAgg2Distinct {
		verifC11CheckDistinct(v, b, msg, as, pointTimes)
		return
	}
	rank := 0
	if fn == verifAgg2Percentile {
		// nearest rank, 1-based, in the ascending order of the values
		rank = int(math.Floor(float64(n)*pct/100 + 0.5))
		if rank < 1 || rank > n {
			v.Assert(msg == nil, "percentile without a point of that rank emits nothing")
			return
		}
	}
	gi, isI, gf, isF, outT := verifC11ResultPoint(v, msg, as, fn != verifAgg2Stddev || n == 1)

	le := func(i, j int) bool {
		if b.isInt {
			return b.iv[i] <= b.iv[j]
		}
		return b.fv[i] <= b.fv[j]
	}
	is := func(i int) bool {
		if b.isInt {
			return b.iv[i] == gi
		}
		return b.fv[i] == gf
	}
	switch fn {
	case verifAgg2Median:
		// middle value of the sorted values, mean of the two middle values for even n;
		// always a float, not a selector (batch time)
		v.Assert(isF, "median is a float")
		ord := verifC11Order(b)
		if n%2 == 1 {
			m := ord[n/2]
			if b.isInt {
				v.Assert(vrt.SameF64(gf, float64(b.iv[m])), "median = middle of the sorted values")
			} else {
				v.Assert(vrt.SameF64(gf, b.fv[m]), "median = middle of the sorted values")
			}
		} else {
			// mean of the two middle values lo <= hi: any of the usual evaluations whose
			// intermediate results do not overflow.
			// Known finding C11-median-midpoint-overflow: InfluxDB computes
			// lo + (hi-lo)/2, and hi-lo overflows (wraps for integers, +Inf for floats)
			// when lo and hi are more than MaxInt64 / MaxFloat64 apart: ovf is that class.
			var ok, ovf bool
			if b.isInt {
				lo, hi := b.iv[ord[n/2-1]], b.iv[ord[n/2]]
				ovf = hi-lo < 0
				ok = vrt.Or(
					vrt.And(!ovf, vrt.SameF64(gf, float64(lo)+float64(hi-lo)/2)),
					vrt.SameF64(gf, (float64(lo)+float64(hi))/2),
				)
			} else {
				lo, hi := b.fv[ord[n/2-1]], b.fv[ord[n/2]]
				ovf = math.IsInf(hi-lo, 0)
				ok = vrt.Or(
					vrt.And(!ovf, vrt.SameF64(gf, lo+(hi-lo)/2)),
					vrt.And(!math.IsInf(lo+hi, 0), vrt.SameF64(gf, (lo+hi)/2)),
				)
			}
			v.AssertKnown(ok, "median = middle of the sorted values", ovf, "C11-median-midpoint-overflow")
		}
		v.Assert(outT == b.tmax, "aggregate is stamped with the batch time")

	case verifAgg2Mode:
		// a most frequent value; kind kept; not a selector
		if b.isInt {
			v.Assert(isI, "mode of integers is an integer")
		} else {
			v.Assert(isF, "mode of floats is a float")
		}
		cnt := make([]int, n)
		best := 0
		for i := 0; i < n; i++ {
			for k := 0; k < n; k++ {
				var eq bool
				if b.isInt {
					eq = b.iv[i] == b.iv[k]
				} else {
					eq = b.fv[i] == b.fv[k]
				}
				if eq {
					cnt[i]++
				}
			}
			if cnt[i] > best {
				best = cnt[i]
			}
		}
		var alts []bool
		for i := 0; i < n; i++ {
			if cnt[i] == best {
				alts = append(alts, is(i))
			}
		}
		v.Assert(vrt.Or(alts...), "mode is a most frequent value")
		// InfluxQL: on a tie, the value with the earliest timestamp. Decidable when the point
		// times are distinct: the tied value that occurs first in the batch.
		strict := true
		for i := 1; i < n; i++ {
			strict = strict && b.ts[i-1] < b.ts[i]
		}
		// Known finding C11-mode-tie-not-earliest: the InfluxDB reducer decides ties its own
		// way (for values that all occur once it returns the smallest value). Class: there
		// is a tie, i.e. two different values reach the maximum count.
		tie := false
		for i := 0; i < n; i++ {
			for k := 0; k < n; k++ {
				var differ bool
				if b.isInt {
					differ = b.iv[i] != b.iv[k]
				} else {
					differ = b.fv[i] != b.fv[k]
				}
				if cnt[i] == best && cnt[k] == best && differ {
					tie = true
				}
			}
		}
		for i := 0; i < n; i++ {
			if cnt[i] == best {
				v.AssertKnown(vrt.Or(!strict, is(i)), "mode: on a tie the value with the earliest timestamp", tie, "C11-mode-tie-not-earliest")
				break
			}
		}
		v.Assert(outT == b.tmax, "aggregate is stamped with the batch time")

	case verifAgg2Percentile:
		// selector: the point of the given rank in ascending value order
		if b.isInt {
			v.Assert(isI, "selector keeps the integer kind")
		} else {
			v.Assert(isF, "selector keeps the float kind")
		}
		sel := verifC11Order(b)[rank-1]
		var alts []bool
		for i := 0; i < n; i++ {
			// any point with the value of that rank (ties are not ordered)
			c := []bool{le(i, sel), le(sel, i), is(i)}
			if pointTimes {
				c = append(c, outT == b.ts[i])
			}
			alts = append(alts, vrt.And(c...))
		}
		v.Assert(vrt.Or(alts...), "percentile is the point of the nearest rank (value and, with usePointTimes, its time)")
		if !pointTimes {
			v.Assert(outT == b.tmax, "without usePointTimes the batch time is used")
		}

	case verifAgg2Stddev:
		// sample standard deviation: a float; undefined (NaN) for a single value; not a
		// selector. The VALUE for n >= 2 is outside this check: equally valid evaluation
		// orders round differently, a comparison up to a tolerance needs the solver to
		// reason about IEEE division and square root chains, and z3/cvc5 time out on
		// that even when every input ranges over a table of 16 floats.
		v.Assert(isF, "stddev is a float")
		if n == 1 {
			v.Assert(gf != gf, "stddev of one value is NaN")
		}
		v.Assert(outT == b.tmax, "aggregate is stamped with the batch time")
	}
}

// distinct emits a batch with one point per distinct value.
func verifC11CheckDistinct(v *vrt.T, b *verifAggBatch, msg edge.Message, as string, pointTimes bool) {
	n := b.n()
	v.Assert(msg != nil, "batch emits a result")
	out, ok := msg.(edge.BufferedBatchMessage)
	v.Assert(ok, "distinct emits a batch")
	v.Assert(out.Name() == "m", "result carries the batch name")
	v.Assert(out.Tags()["host"] == "a" && len(out.Tags()) == 1, "result carries the group's tags")
	v.Assert(out.GroupID() == models.ToGroupID("m", verifC11GroupTags(), models.Dimensions{TagNames: []string{"host"}}), "result belongs to the group")
	v.Assert(out.Time().UnixNano() == b.tmax, "result batch is stamped with the batch time")
	pts := out.Points()
	v.Observe("distinct", len(pts))
	v.Assert(len(pts) >= 1 && len(pts) <= n, "between 1 and n distinct values")
	gis := make([]int64, len(pts))
	gfs := make([]float64, len(pts))
	for j, p := range pts {
		val, has := p.Fields()[as]
		v.Assert(has && len(p.Fields()) == 1, "result field is named by as()")
		v.Assert(p.Tags()["host"] == "a", "result point carries the group's tags")
		var okKind bool
		if b.isInt {
			gis[j], okKind = val.(int64)
		} else {
			gfs[j], okKind = val.(float64)
		}
		v.Assert(okKind, "distinct keeps the kind")
		// the value occurs in the batch; time: batch time or, with usePointTimes, the
		// time of a point carrying that value
		var alts []bool
		for i := 0; i < n; i++ {
			var same bool
			if b.isInt {
				same = b.iv[i] == gis[j]
			} else {
				same = b.fv[i] == gfs[j]
			}
			if pointTimes {
				same = vrt.And(same, p.Time().UnixNano() == b.ts[i])
			}
			alts = append(alts, same)
		}
		v.Assert(vrt.Or(alts...), "every emitted value occurs in the batch")
		if !pointTimes {
			v.Assert(p.Time().UnixNano() == b.tmax, "without usePointTimes the batch time is used")
		}
	}
	// pairwise different, and every input value emitted
	var c []bool
	for j := range pts {
		for k := j + 1; k < len(pts); k++ {
			if b.isInt {
				c = append(c, gis[j] != gis[k])
			} else {
				c = append(c, gfs[j] != gfs[k])
			}
		}
	}
	v.Assert(vrt.And(c...), "emitted values are pairwise different")
	for i := 0; i < n; i++ {
		var alts []bool
		for j := range pts {
			if b.isInt {
				alts = append(alts, b.iv[i] == gis[j])
			} else {
				alts = append(alts, b.fv[i] == gfs[j])
			}
		}
		v.Assert(vrt.Or(alts...), "every value of the batch is emitted")
	}
}

// verifC11Pow replaces math.Pow under the engine (override in harness.json; the native
// replay runs the real math.Pow). The stddev reducers call math.Pow(d, 2) on symbolic d,
// which the engine cannot interpret; d*d is what Go's pow returns for y == 2 whenever the
// product is zero, normal, infinite or NaN (for a subnormal product Go rounds twice).
// Nothing asserted or observed by the harness depends on the value.
func verifC11Pow(x, y float64) float64 {
	if y != 2 {
		panic("verif: only math.Pow(x, 2) is modelled")
	}
	return x * x
}
