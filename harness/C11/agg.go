package kapacitor

import (
	"math"
	"time"

	"github.com/influxdata/kapacitor/edge"
	"github.com/influxdata/kapacitor/models"
	"github.com/influxdata/kapacitor/pipeline"
	vrt "github.com/influxdata/kapacitor/zz_vrt"
)

// C11: aggregations over a batch equal their InfluxQL definition.
//
// The harness drives the receiver of ONE group of a real InfluxQLNode (created from the
// real pipeline.InfluxQLNode configuration that `batch|query()|<fn>('f')` builds) with
// two consecutive batches and compares what EndBatch returns with reference folds
// written below from the InfluxQL definitions (DESIGN.md Appendix A).

const (
	verifAggCount = iota
	verifAggSum
	verifAggMin
	verifAggMax
	verifAggFirst
	verifAggLast
	verifAggMean
	verifAggSpread
	verifAggQuickFns // number of functions in the quick table
)

var verifAggNames = []string{"count", "sum", "min", "max", "first", "last", "mean", "spread"}

const verifAggField = "f"

// verifAggBatch is one input batch: n values of one kind with their point times.
type verifAggBatch struct {
	isInt bool
	iv    []int64
	fv    []float64
	ts    []int64 // point times, Unix ns
	tmax  int64   // batch end time
}

func (b *verifAggBatch) n() int { return len(b.ts) }

// verifC11Chain is the part of pipeline's chaining API used here; *pipeline.QueryNode
// (batch edge) and *pipeline.FromNode (stream edge) both provide it.
type verifC11Chain interface {
	Count(field string) *pipeline.InfluxQLNode
	Sum(field string) *pipeline.InfluxQLNode
	Min(field string) *pipeline.InfluxQLNode
	Max(field string) *pipeline.InfluxQLNode
	First(field string) *pipeline.InfluxQLNode
	Last(field string) *pipeline.InfluxQLNode
	Mean(field string) *pipeline.InfluxQLNode
	Spread(field string) *pipeline.InfluxQLNode
}

// verifC11Node builds the pipeline configuration through the real chaining methods.
func verifC11Node(src verifC11Chain, fn int) *pipeline.InfluxQLNode {
	switch fn {
	case verifAggCount:
		return src.Count(verifAggField)
	case verifAggSum:
		return src.Sum(verifAggField)
	case verifAggMin:
		return src.Min(verifAggField)
	case verifAggMax:
		return src.Max(verifAggField)
	case verifAggFirst:
		return src.First(verifAggField)
	case verifAggLast:
		return src.Last(verifAggField)
	case verifAggMean:
		return src.Mean(verifAggField)
	case verifAggSpread:
		return src.Spread(verifAggField)
	}
	panic("verif: unknown function")
}

func verifC11GroupTags() models.Tags { return models.Tags{"host": "a"} }

// verifC11Finite: line protocol cannot carry NaN or Inf.
func verifC11Finite(v *vrt.T, x float64) {
	v.Assume(!math.IsNaN(x))
	v.Assume(!math.IsInf(x, 0))
}

// verifC11ReadBatch makes the symbolic batch b (kind and size are structural choices).
func verifC11ReadBatch(v *vrt.T, maxN int, base int64) *verifAggBatch {
	b := &verifAggBatch{}
	b.isInt = v.Choose("kind", 2) == 0
	n := v.Choose("n", maxN+1)
	b.tmax = v.Time("tmax", base-16, base+16).UnixNano()
	for i := 0; i < n; i++ {
		t := v.Time("t", base-16, base+16).UnixNano()
		v.Assume(t <= b.tmax) // tmax is the maximum time of any point in the batch
		b.ts = append(b.ts, t)
		if b.isInt {
			b.iv = append(b.iv, v.Int64("iv"))
		} else {
			x := v.Float64("fv")
			verifC11Finite(v, x)
			b.fv = append(b.fv, x)
		}
	}
	return b
}

// verifC11Feed sends the batch through the group's receiver and returns what EndBatch gave.
func verifC11Feed(v *vrt.T, kn *InfluxQLNode, g *edge.ForwardReceiver, b *verifAggBatch) edge.Message {
	begin := edge.NewBeginBatchMessage("m", verifC11GroupTags(), false, time.Unix(0, b.tmax).UTC(), b.n())
	if *g == nil {
		*g = kn.newGroup(begin)
	}
	m, err := (*g).BeginBatch(begin)
	v.Assert(m == nil && err == nil, "BeginBatch forwards nothing")
	for i := 0; i < b.n(); i++ {
		var val interface{}
		if b.isInt {
			val = b.iv[i]
		} else {
			val = b.fv[i]
		}
		bp := edge.NewBatchPointMessage(
			models.Fields{verifAggField: val, "g": int64(i)},
			models.Tags{"host": "a", "x": "p"},
			time.Unix(0, b.ts[i]).UTC(),
		)
		m, err := (*g).BatchPoint(bp)
		v.Assert(m == nil && err == nil, "BatchPoint forwards nothing")
	}
	m, err = (*g).EndBatch(edge.NewEndBatchMessage())
	v.Assert(err == nil, "EndBatch reports no error")
	return m
}

// verifC11ResultPoint checks what every single-point result has in common (it exists, is
// a point carrying the batch name, the group's tags and dimensions, and a field named by
// as()) and returns the field value by kind and the result time.
func verifC11ResultPoint(v *vrt.T, msg edge.Message, as string, observeFloat bool) (gi int64, isI bool, gf float64, isF bool, outT int64) {
	v.Assert(msg != nil, "batch emits a result")
	p, ok := msg.(edge.PointMessage)
	v.Assert(ok, "result is a point")
	v.Assert(p.Name() == "m", "result carries the batch name")
	v.Assert(p.Tags()["host"] == "a", "result carries the group's tags")
	dims := p.Dimensions()
	v.Assert(!dims.ByName && len(dims.TagNames) == 1 && dims.TagNames[0] == "host", "result carries the group's dimensions")
	v.Assert(p.GroupID() == models.ToGroupID("m", verifC11GroupTags(), models.Dimensions{TagNames: []string{"host"}}), "result belongs to the group")
	val, has := p.Fields()[as]
	v.Assert(has, "result field is named by as()")
	outT = p.Time().UnixNano()
	v.Observe("time", outT)
	gi, isI = val.(int64)
	gf, isF = val.(float64)
	if isI {
		v.Observe("ival", gi)
	}
	if isF && observeFloat {
		v.Observe("fval", gf)
	}
	return
}

// verifC11CheckBatch is the oracle for one batch. Conditions over several points are
// built with vrt.And / vrt.Or (one solver query) instead of && / || (path forks).
func verifC11CheckBatch(v *vrt.T, fn int, b *verifAggBatch, msg edge.Message, as string, pointTimes bool) {
	n := b.n()
	v.Observe("emitted", msg != nil)
	if n == 0 && fn != verifAggCount && fn != verifAggSum {
		// only count and sum are defined on empty input
		v.Assert(msg == nil, "empty batch emits nothing")
		return
	}
	gi, isI, gf, isF, outT := verifC11ResultPoint(v, msg, as, true)

	// reference sums: Go wrap-around == InfluxQL int64 arithmetic; IEEE in arrival order
	var isum int64
	var fsum float64
	for i := 0; i < n; i++ {
		if b.isInt {
			isum += b.iv[i]
		} else {
			fsum += b.fv[i]
		}
	}
	// le(i,j): value i <= value j;  is(i): the result equals value i
	le := func(i, j int) bool {
		if b.isInt {
			return b.iv[i] <= b.iv[j]
		}
		return b.fv[i] <= b.fv[j]
	}
	is := func(i int) bool {
		if b.isInt {
			return b.iv[i] == gi
		}
		return b.fv[i] == gf
	}

	switch fn {
	case verifAggCount:
		v.Assert(isI, "count is an integer")
		v.Assert(gi == int64(n), "count = number of points")
		v.Assert(outT == b.tmax, "aggregate is stamped with the batch time")
	case verifAggSum:
		if n == 0 {
			// no value decides the kind: zero of either numeric kind
			v.Assert((isI && gi == 0) || (isF && gf == 0), "sum of nothing is 0")
		} else if b.isInt {
			v.Assert(isI, "sum of integers is an integer")
			v.Assert(gi == isum, "integer sum")
		} else {
			v.Assert(isF, "sum of floats is a float")
			v.Assert(vrt.SameF64(gf, fsum), "float sum")
		}
		v.Assert(outT == b.tmax, "aggregate is stamped with the batch time")
	case verifAggMean:
		v.Assert(isF, "mean is a float")
		if b.isInt {
			v.Assert(vrt.SameF64(gf, float64(isum)/float64(n)), "integer mean")
		} else {
			v.Assert(vrt.SameF64(gf, fsum/float64(n)), "float mean")
		}
		v.Assert(outT == b.tmax, "aggregate is stamped with the batch time")
	case verifAggSpread:
		if !b.isInt {
			// floats: max and min as folds of math.Max / math.Min from their identity
			// elements. (The declarative form used for integers below needs the solver
			// to prove two IEEE subtractor circuits equivalent, which z3 and cvc5 do not
			// manage within minutes even for two values.)
			v.Assert(isF, "spread of floats is a float")
			hi, lo := math.Inf(-1), math.Inf(1)
			for i := 0; i < n; i++ {
				hi = math.Max(hi, b.fv[i])
				lo = math.Min(lo, b.fv[i])
			}
			v.Assert(vrt.SameF64(gf, hi-lo), "float spread = max - min")
			v.Assert(outT == b.tmax, "aggregate is stamped with the batch time")
			break
		}
		// integers: for some i (a maximum) and j (a minimum) the result is v_i - v_j
		v.Assert(isI, "spread of integers is an integer")
		var alts []bool
		for i := 0; i < n; i++ {
			for j := 0; j < n; j++ {
				conds := []bool{gi == b.iv[i]-b.iv[j]}
				for k := 0; k < n; k++ {
					conds = append(conds, le(k, i), le(j, k))
				}
				alts = append(alts, vrt.And(conds...))
			}
		}
		v.Assert(vrt.Or(alts...), "integer spread = max - min")
		v.Assert(outT == b.tmax, "aggregate is stamped with the batch time")
	case verifAggMin, verifAggMax, verifAggFirst, verifAggLast:
		// selectors: the result is one of the batch's points that qualifies; which one
		// among equals is not prescribed.
		if b.isInt {
			v.Assert(isI, "selector keeps the integer kind")
		} else {
			v.Assert(isF, "selector keeps the float kind")
		}
		var alts []bool
		for i := 0; i < n; i++ {
			conds := []bool{is(i)}
			for k := 0; k < n; k++ {
				switch fn {
				case verifAggMin:
					conds = append(conds, le(i, k))
				case verifAggMax:
					conds = append(conds, le(k, i))
				case verifAggFirst:
					conds = append(conds, b.ts[i] <= b.ts[k])
				case verifAggLast:
					conds = append(conds, b.ts[i] >= b.ts[k])
				}
			}
			if pointTimes {
				conds = append(conds, outT == b.ts[i])
			}
			alts = append(alts, vrt.And(conds...))
		}
		v.Assert(vrt.Or(alts...), "selector result is the selected point (value and, with usePointTimes, its time)")
		if !pointTimes {
			v.Assert(outT == b.tmax, "without usePointTimes the batch time is used")
		}
	}
}

// verifC11Setup chooses function, usePointTimes and as() and creates the executing node.
func verifC11Setup(v *vrt.T, batch bool) (fn int, as string, pointTimes bool, kn *InfluxQLNode, diag *verifNopDiag) {
	fnLo, fnHi := v.Bound("fn_lo", 0), v.Bound("fn_hi", verifAggQuickFns-1)
	fn = fnLo + v.Choose("fn", fnHi-fnLo+1)
	pointTimes = v.Choose("usePointTimes", 2) == 1
	asKind := v.Choose("as", 3)
	var pn *pipeline.InfluxQLNode
	if batch {
		pn = verifC11Node(pipeline.VerifC11BatchSource(), fn)
	} else {
		pn = verifC11Node(pipeline.VerifC11StreamSource(), fn)
	}
	as = verifAggNames[fn] // default: the method name
	switch asKind {
	case 1:
		as = "out"
		pn.As = as
	case 2:
		as = verifAggField // as == field
		pn.As = as
	}
	v.Assert(pn.As == as, "as defaults to the method name")
	if pointTimes {
		pn.UsePointTimes()
	}
	diag = &verifNopDiag{}
	kn, err := newInfluxQLNode(nil, pn, diag)
	v.Assert(err == nil, "node created")
	return
}

// VerifC11BatchAgg: two consecutive batches of one group through count/sum/min/max/
// first/last/mean/spread.
func VerifC11BatchAgg(v *vrt.T) {
	fn, as, pointTimes, kn, diag := verifC11Setup(v, true)
	maxN := [2]int{v.Bound("points1", 1), v.Bound("points", 3)} // sizes of the first / second batch

	var g edge.ForwardReceiver
	for k := 0; k < 2; k++ {
		b := verifC11ReadBatch(v, maxN[k], verifT2020)
		msg := verifC11Feed(v, kn, &g, b)
		verifC11CheckBatch(v, fn, b, msg, as, pointTimes)
		v.Assert(diag.errors == 0, "no error reported")
	}
	v.Reach("end")
}

// VerifC11StreamAgg: stream form. The points of one group arrive as runs of equal-time
// points (run sizes and the field kind of each run are structural choices, times and
// values symbolic); a run's aggregate is emitted when the first point with a different
// time arrives, stamped with the run's time. Two runs and a terminating point.
func VerifC11StreamAgg(v *vrt.T) {
	fn, as, pointTimes, kn, diag := verifC11Setup(v, false)
	maxN := [2]int{v.Bound("points1", 1), v.Bound("points", 3)} // sizes of the first / second run
	dims := models.Dimensions{TagNames: []string{"host"}}
	mk := func(t int64, val interface{}, i int) edge.PointMessage {
		tm := time.Unix(0, t).UTC()
		// the same instant may arrive in another representation (the local zone instead of
		// UTC, e.g. from a UDF or a replay): it is still the same time
		if i == 1 && v.Choose("second point of the run in the local zone", 2) == 1 {
			tm = tm.Local()
		}
		return edge.NewPointMessage("m", "db", "rp", dims,
			models.Fields{verifAggField: val, "g": int64(i)},
			models.Tags{"host": "a", "x": "p"},
			tm)
	}
	var g edge.ForwardReceiver
	var prev *verifAggBatch // the run whose result is due
	for k := 0; k < 3; k++ {
		// run k: 1..maxN points at one symbolic time different from the previous run's
		// (the last "run" is a single terminating point)
		b := &verifAggBatch{}
		n := 1
		if k < 2 {
			b.isInt = v.Choose("kind", 2) == 0
			n = 1 + v.Choose("n", maxN[k])
		}
		b.tmax = v.Time("t", verifT2020-16, verifT2020+16).UnixNano()
		if prev != nil {
			v.Assume(b.tmax != prev.tmax)
		}
		for i := 0; i < n; i++ {
			b.ts = append(b.ts, b.tmax)
			var val interface{}
			if b.isInt {
				x := v.Int64("iv")
				b.iv = append(b.iv, x)
				val = x
			} else {
				x := v.Float64("fv")
				verifC11Finite(v, x)
				b.fv = append(b.fv, x)
				val = x
			}
			p := mk(b.tmax, val, i)
			if g == nil {
				g = kn.newGroup(p)
			}
			msg, err := g.Point(p)
			v.Assert(err == nil, "Point reports no error")
			if i == 0 && prev != nil {
				// time advanced: the previous run is emitted now
				verifC11CheckBatch(v, fn, prev, msg, as, pointTimes)
			} else {
				v.Assert(msg == nil, "nothing is emitted while the time does not advance")
			}
		}
		prev = b
		v.Assert(diag.errors == 0, "no error reported")
	}
	v.Reach("end")
}

// VerifC11StreamUnusableRun: a run of equal-time stream points none of which carries the
// aggregated field (nothing to aggregate) between two usable runs: the runs before and
// after it are still aggregated over exactly their own points and stamped with their own
// time.
func VerifC11StreamUnusableRun(v *vrt.T) {
	fn, as, pointTimes, kn, _ := verifC11Setup(v, false)
	dims := models.Dimensions{TagNames: []string{"host"}}
	mk := func(t int64, val interface{}, i int) edge.PointMessage {
		f := models.Fields{"g": int64(i)}
		if val != nil {
			f[verifAggField] = val
		}
		return edge.NewPointMessage("m", "db", "rp", dims, f, models.Tags{"host": "a", "x": "p"}, time.Unix(0, t).UTC())
	}
	var g edge.ForwardReceiver
	var prev *verifAggBatch
	lastT := int64(0)
	// runs: 0 usable (optional), 1 unusable, 2 usable, 3 terminating point
	first := v.Choose("leading usable run", 2)
	for k := 1 - first; k < 4; k++ {
		b := &verifAggBatch{isInt: true}
		n := 1
		if k == 1 || k == 2 {
			n = 1 + v.Choose("n", v.Bound("points", 2))
		}
		b.tmax = v.Time("t", verifT2020-16, verifT2020+16).UnixNano()
		if lastT != 0 {
			v.Assume(b.tmax != lastT)
		}
		lastT = b.tmax
		for i := 0; i < n; i++ {
			var val interface{}
			if k != 1 {
				x := v.Int64("iv")
				b.ts = append(b.ts, b.tmax)
				b.iv = append(b.iv, x)
				val = x
			}
			p := mk(b.tmax, val, i)
			if g == nil {
				g = kn.newGroup(p)
			}
			msg, _ := g.Point(p)
			switch {
			case i == 0 && prev != nil:
				// time advanced after a usable run: that run is emitted now, complete
				verifC11CheckBatch(v, fn, prev, msg, as, pointTimes)
			case i > 0:
				v.Assert(msg == nil, "nothing is emitted while the time does not advance")
			}
		}
		if k == 1 {
			prev = nil // nothing is due for a run without values (whether the definition on empty input is emitted is left open)
		} else {
			prev = b
		}
	}
	v.Reach("end")
}
