package kapacitor

import (
	"time"

	text "text/template"

	"github.com/influxdata/kapacitor/alert"
	"github.com/influxdata/kapacitor/edge"
	"github.com/influxdata/kapacitor/models"
	vrt "github.com/influxdata/kapacitor/zz_vrt"
)

// verifC08StateSvc is the alert service across a restart: it keeps, per (topic, id), what
// the real service persists (the last non-OK state; an OK event clears it).
type verifC08StateSvc struct {
	*verifC01AlertSvc
	states map[string]alert.EventState
}

func (s *verifC08StateSvc) Collect(e alert.Event) error {
	s.events = append(s.events, e)
	k := e.Topic + "|" + e.State.ID
	if e.State.Level == alert.OK {
		delete(s.states, k)
	} else {
		s.states[k] = e.State
	}
	return nil
}
func (s *verifC08StateSvc) EventState(topic, id string) (alert.EventState, bool, error) {
	st, ok := s.states[topic+"|"+id]
	return st, ok, nil
}

type verifC08Timer struct{}

func (verifC08Timer) Start()  {}
func (verifC08Timer) Pause()  {}
func (verifC08Timer) Resume() {}
func (verifC08Timer) Stop()   {}

// The ID template of this harness uses a tag that is NOT a groupBy dimension:
// .id('{{ .Name }}/{{ index .Tags "dc" }}/{{ index .Tags "host" }}') with groupBy('host').
// Natively the real template is parsed and executed; under the engine renderID is
// replaced by verifC08RenderIDTags (text/template is not encodable).
func verifC08SetIDTemplate(n *AlertNode) {
	n.idTmpl = text.Must(text.New("id").Parse(`{{ .Name }}/{{ index .Tags "dc" }}/{{ index .Tags "host" }}`))
}
func verifC08SetIDTemplateNop(n *AlertNode) {}
func verifC08RenderIDTags(n *AlertNode, name string, group models.GroupID, tags models.Tags) (string, error) {
	return name + "/" + tags["dc"] + "/" + tags["host"], nil
}

// VerifC08ResumeByID: an ID that was CRITICAL (or WARNING) when the task stopped resumes
// at that level after the restart also when the alert ID is built from a tag that is not
// a groupBy dimension: the first point after the restart that is OK produces the recovery
// event for exactly that ID, a point still at the level produces no duplicate change.
func VerifC08ResumeByID(v *vrt.T) {
	dc := v.String("dc", 1)
	dims := models.Dimensions{TagNames: []string{"host"}}
	tags := models.Tags{"host": "a", "dc": dc}
	group := edge.GroupInfo{ID: models.ToGroupID("m", tags, dims), Tags: models.Tags{"host": "a"}, Dimensions: dims}
	svc := &verifC08StateSvc{verifC01AlertSvc: &verifC01AlertSvc{}, states: map[string]alert.EventState{}}
	mkNode := func() *AlertNode {
		cfg := verifC01Cfg{topic: true, history: 2, sco: true}
		cfg.level[alert.Critical] = true
		cfg.level[alert.Warning] = true
		an := verifC01Node(cfg, svc.verifC01AlertSvc, &verifNopDiag{})
		an.et.tm.AlertService = svc
		verifC08SetIDTemplate(an)
		an.timer = verifC08Timer{}
		return an
	}
	point := func(warn, crit bool, t int64) edge.PointMessage {
		return edge.NewPointMessage("m", "db", "rp", dims, models.Fields{"warn": warn, "crit": crit}, tags, time.Unix(0, t).UTC())
	}
	wantID := "m/" + dc + "/a"
	t0 := int64(verifT2020)

	// before the restart: one point at WARNING or CRITICAL
	crit := v.Bool("critical before the restart")
	p1 := point(true, crit, t0)
	r1, err := mkNode().NewGroup(group, p1)
	v.Assert(err == nil, "group created")
	v.Assert(r1.Point(p1) == nil, "point handled")
	lvl := alert.Warning
	if crit {
		lvl = alert.Critical
	}
	v.Assert(len(svc.events) == 1 && svc.events[0].State.ID == wantID && svc.events[0].State.Level == lvl, "the event is published under the ID rendered from the point's tags")

	// restart: a fresh node on the same persisted states
	still := v.Bool("still at the level after the restart")
	p2 := point(still, still && crit, t0+5)
	r2, err := mkNode().NewGroup(group, p2)
	v.Assert(err == nil, "group created after the restart")
	v.Assert(r2.Point(p2) == nil, "point handled after the restart")
	v.Observe("events", len(svc.events))
	if still {
		v.Assert(len(svc.events) == 1, "same level after the restart: no change to report (stateChangesOnly)")
	} else {
		v.Assert(len(svc.events) == 2 && svc.events[1].State.ID == wantID && svc.events[1].State.Level == alert.OK, "the recovery of the ID that was firing before the restart is reported")
	}
	v.Reach("end")
}
