package alert

import (
	"errors"
	"runtime"
	"time"

	"github.com/influxdata/kapacitor/alert"
	kexpvar "github.com/influxdata/kapacitor/expvar"
	"github.com/influxdata/kapacitor/services/storage"
	vrt "github.com/influxdata/kapacitor/zz_vrt"
	"github.com/mailru/easyjson/jlexer"
	"go.etcd.io/bbolt"
)

// ---- engine-side replacements -----------------------------------------------------

func verifC08NewStatistic(name string, tags map[string]string) (string, *kexpvar.Map) {
	m := &kexpvar.Map{}
	m.Init()
	return "verif-" + name + "-" + tags["id"], m
}

func verifC08DeleteStatistic(key string) {}

// Stored form of an EventState under the engine (easyjson / encoding of time.Time are
// not encodable): level, time (Unix ns), duration, message, details, length-prefixed.
// The native replay runs the real easyjson code on the same inputs.
func verifC08Marshal(e EventState) ([]byte, error) {
	var b []byte
	b = append(b, byte(e.Level))
	b = verifC08PutInt(b, e.Time.UnixNano())
	b = verifC08PutInt(b, int64(e.Duration))
	b = append(b, byte(len(e.Message)))
	b = append(b, e.Message...)
	b = append(b, byte(len(e.Details)))
	b = append(b, e.Details...)
	return b, nil
}

func verifC08PutInt(b []byte, x int64) []byte {
	for i := 0; i < 8; i++ {
		b = append(b, byte(uint64(x)>>(8*uint(i))))
	}
	return b
}

func verifC08GetInt(b []byte) int64 {
	var x uint64
	for i := 0; i < 8; i++ {
		x |= uint64(b[i]) << (8 * uint(i))
	}
	return int64(x)
}

func verifC08Unmarshal(e *EventState, data []byte) error {
	if len(data) < 19 {
		return errors.New("short event state")
	}
	// like the JSON form: level and time are always present; duration, message and
	// details are omitted when zero/empty, and an omitted key leaves the field as it is
	e.Level = alert.Level(data[0])
	e.Time = time.Unix(0, verifC08GetInt(data[1:9])).UTC()
	if d := time.Duration(verifC08GetInt(data[9:17])); d != 0 {
		e.Duration = d
	}
	n := int(data[17])
	if n > 0 {
		e.Message = string(data[18 : 18+n])
	}
	m := int(data[18+n])
	if m > 0 {
		e.Details = string(data[19+n : 19+n+m])
	}
	return nil
}

func verifC08UnmarshalLex(e *EventState, l *jlexer.Lexer) {
	if err := verifC08Unmarshal(e, l.Data); err != nil {
		l.AddError(err)
	}
}

// ---- in-harness storage: nested buckets with Bolt's observable behaviour ----------
//
// Keys are kept in byte order; a bucket is an entry with a sub-node and a nil value;
// buckets are created on Put, never by Bucket(); List on a missing bucket is empty;
// Delete of a missing key/bucket is a no-op, Delete of a bucket key removes the bucket.
// Update runs on a private copy which replaces the database only when the function
// returns nil (atomic commit, trusted); every committed Update appends a snapshot.

type verifC08Ent struct {
	key string
	val []byte
	sub *verifC08Node
}

type verifC08Node struct {
	ents []*verifC08Ent
}

func (n *verifC08Node) clone() *verifC08Node {
	c := &verifC08Node{}
	for _, e := range n.ents {
		ne := &verifC08Ent{key: e.key, val: append([]byte(nil), e.val...)}
		if e.sub != nil {
			ne.sub = e.sub.clone()
			ne.val = nil
		}
		c.ents = append(c.ents, ne)
	}
	return c
}

func (n *verifC08Node) find(key string) (int, bool) {
	for i, e := range n.ents {
		if e.key == key {
			return i, true
		}
		if e.key > key {
			return i, false
		}
	}
	return len(n.ents), false
}

type verifC08DB struct {
	root  *verifC08Node
	snaps []*verifC08Node // snaps[i] = database after the i-th committed Update (snaps[0] = initial)
}

func verifC08NewDB(root *verifC08Node) *verifC08DB {
	return &verifC08DB{root: root, snaps: []*verifC08Node{root.clone()}}
}

type verifC08Store struct {
	db   *verifC08DB
	path [][]byte
}

func (s *verifC08Store) Store(buckets ...[]byte) storage.Interface {
	return &verifC08Store{db: s.db, path: buckets}
}

// A transaction is a scheduling point (a real store does I/O here): natively this widens
// the windows the stress replays of schedule-dependent counterexamples have to hit.
func (s *verifC08Store) View(f func(storage.ReadOnlyTx) error) error {
	runtime.Gosched()
	return f(&verifC08ROTx{verifC08Tx{root: s.db.root, path: s.path}})
}

func (s *verifC08Store) Update(f func(storage.Tx) error) error {
	runtime.Gosched()
	work := s.db.root.clone()
	if err := f(&verifC08Tx{root: work, path: s.path}); err != nil {
		return err
	}
	s.db.root = work
	s.db.snaps = append(s.db.snaps, work.clone())
	return nil
}

type verifC08Tx struct {
	root *verifC08Node
	path [][]byte
}

func (t *verifC08Tx) bucket() *verifC08Node {
	n := t.root
	for _, b := range t.path {
		i, ok := n.find(string(b))
		if !ok || n.ents[i].sub == nil {
			return nil
		}
		n = n.ents[i].sub
	}
	return n
}

func (t *verifC08Tx) sub(name []byte) verifC08Tx {
	if name == nil {
		return verifC08Tx{root: t.root}
	}
	p := append(append([][]byte(nil), t.path...), name)
	return verifC08Tx{root: t.root, path: p}
}

func (t *verifC08Tx) Get(key string) (*storage.KeyValue, error) {
	n := t.bucket()
	if n == nil {
		return nil, storage.ErrNoKeyExists
	}
	i, ok := n.find(key)
	if !ok || n.ents[i].sub != nil {
		return nil, storage.ErrNoKeyExists
	}
	return &storage.KeyValue{Key: key, Value: append([]byte(nil), n.ents[i].val...)}, nil
}

func (t *verifC08Tx) Exists(key string) (bool, error) {
	_, err := t.Get(key)
	return err == nil, nil
}

func (t *verifC08Tx) List(prefix string) ([]*storage.KeyValue, error) {
	n := t.bucket()
	if n == nil {
		return nil, nil
	}
	var kvs []*storage.KeyValue
	for _, e := range n.ents {
		if len(e.key) >= len(prefix) && e.key[:len(prefix)] == prefix {
			kvs = append(kvs, &storage.KeyValue{Key: e.key, Value: append([]byte(nil), e.val...)})
		}
	}
	return kvs, nil
}

func (t *verifC08Tx) Put(key string, value []byte) error {
	n := t.root
	_ = t.path[0] // Bolt's put needs at least one bucket
	for _, b := range t.path {
		i, ok := n.find(string(b))
		if !ok {
			e := &verifC08Ent{key: string(b), sub: &verifC08Node{}}
			n.ents = append(n.ents[:i:i], append([]*verifC08Ent{e}, n.ents[i:]...)...)
		} else if n.ents[i].sub == nil {
			return errors.New("incompatible value")
		}
		n = n.ents[i].sub
	}
	i, ok := n.find(key)
	if ok {
		if n.ents[i].sub != nil {
			return errors.New("incompatible value")
		}
		n.ents[i].val = append([]byte(nil), value...)
		return nil
	}
	e := &verifC08Ent{key: key, val: append([]byte(nil), value...)}
	n.ents = append(n.ents[:i:i], append([]*verifC08Ent{e}, n.ents[i:]...)...)
	return nil
}

func (t *verifC08Tx) Delete(key string) error {
	n := t.bucket()
	if n == nil {
		return nil
	}
	i, ok := n.find(key)
	if !ok {
		return nil
	}
	n.ents = append(n.ents[:i:i], n.ents[i+1:]...)
	return nil
}

func (t *verifC08Tx) Cursor() *bbolt.Cursor { return nil }
func (t *verifC08Tx) Commit() error         { return nil }
func (t *verifC08Tx) Rollback() error       { return nil }
func (t *verifC08Tx) Bucket(name []byte) storage.Tx {
	s := t.sub(name)
	return &s
}

type verifC08ROTx struct{ verifC08Tx }

func (t *verifC08ROTx) Bucket(name []byte) storage.ReadOnlyTx {
	return &verifC08ROTx{t.sub(name)}
}

// ---- harness ----------------------------------------------------------------------

type verifC08Rec struct{ got []alert.Event }

func (r *verifC08Rec) Handle(e alert.Event) { r.got = append(r.got, e) }

var verifC08IDs = []string{"a", "b"}
var verifC08TopicNames = []string{"t", "u"}

// verifC08Start is the part of Service.Open that concerns topic state: a fresh Service on
// the given database with topic persistence on, saved topic states loaded.
func verifC08Start(v *vrt.T, db *verifC08DB) *Service {
	s := NewService(nil, nil, 0)
	s.PersistTopics = true
	s.topicsStore = (&verifC08Store{db: db}).Store([]byte(TopicStatesNameSpace))
	v.Assert(s.loadSavedTopicStates() == nil, "saved topic states load without error")
	return s
}

type verifC08Seen struct {
	topic, id   string
	level, prev alert.Level
}

func verifC08Told(recs []*verifC08Rec) []verifC08Seen {
	var out []verifC08Seen
	for ti, r := range recs {
		for _, e := range r.got {
			out = append(out, verifC08Seen{verifC08TopicNames[ti], e.State.ID, e.State.Level, e.PreviousState().Level})
		}
	}
	return out
}

// VerifC08PersistRestart: see the claim in harness.json.
func VerifC08PersistRestart(v *vrt.T) {
	k := v.Bound("events", 3)
	ntopics := v.Bound("topics", 1)
	evs := make([]alert.Event, k)
	for i := range evs {
		ti := 0
		if ntopics > 1 {
			ti = v.Choose("topic", ntopics)
		}
		// "sparse" events have an empty message and zero duration: these fields are then
		// omitted from the stored form (omitempty), the case in which a decoder that
		// reuses a buffer could leak the previous record's values
		st := alert.EventState{
			ID:    verifC08IDs[v.Choose("id", 2)],
			Time:  v.Time("time", 1000+int64(i)*100, 1063+int64(i)*100),
			Level: alert.Level(v.IntRange("level", 0, 3)),
		}
		if v.Choose("sparse", 2) == 0 {
			st.Message = v.String("msg", 1)
			st.Duration = time.Duration(v.IntRange("dur", 1, 15))
		}
		evs[i] = alert.Event{Topic: verifC08TopicNames[ti], State: st}
	}
	c := v.Choose("crashAfterCommit", k+1)
	viaClose := v.Choose("closeTopicInsteadOfCrash", 2) == 1

	// ---- uninterrupted run
	dbU := verifC08NewDB(&verifC08Node{})
	sU := verifC08Start(v, dbU)
	recU := make([]*verifC08Rec, ntopics)
	for ti := range recU {
		recU[ti] = &verifC08Rec{}
	}
	for i, e := range evs {
		if i == c {
			// handlers are attached from the crash point on, to compare what they are told
			for ti := range recU {
				sU.RegisterAnonHandler(verifC08TopicNames[ti], recU[ti])
			}
		}
		v.Assert(sU.Collect(e) == nil, "collect succeeds")
		v.Assert(len(dbU.snaps) == i+2, "every collected event is exactly one storage transaction")
	}
	v.Goroutines()

	// ---- reference for the restart: per topic and ID the last recorded event among the first c
	type key struct{ topic, id string }
	last := map[key]alert.EventState{}
	for i := 0; i < c; i++ {
		last[key{evs[i].Topic, evs[i].State.ID}] = evs[i].State
	}

	// ---- interrupted run: storage as it stood after commit c
	var sR *Service
	if viaClose {
		// no crash: the running service closes its topics after event c (task disabled /
		// topic reused); the next Collect restores them from the store
		dbR := verifC08NewDB(&verifC08Node{})
		sR = verifC08Start(v, dbR)
		for i := 0; i < c; i++ {
			v.Assert(sR.Collect(evs[i]) == nil, "collect succeeds")
		}
		for ti := 0; ti < ntopics; ti++ {
			v.Assert(sR.CloseTopic(verifC08TopicNames[ti]) == nil, "close topic")
			v.Assert(sR.restoreClosedTopic(verifC08TopicNames[ti]) == nil, "restore closed topic")
		}
	} else {
		sR = verifC08Start(v, verifC08NewDB(dbU.snaps[c].clone()))
	}
	for ti := 0; ti < ntopics; ti++ {
		for _, id := range verifC08IDs {
			got, ok, err := sR.EventState(verifC08TopicNames[ti], id)
			v.Assert(err == nil, "event state readable")
			want, seen := last[key{verifC08TopicNames[ti], id}]
			v.Observe("resumed", ok, int(got.Level))
			if seen && want.Level != alert.OK {
				v.Assert(ok && got.Level == want.Level, "after restart the ID resumes at its last recorded non-OK level")
				v.Assert(got.ID == id && got.Message == want.Message && got.Time.Equal(want.Time) && got.Duration == want.Duration && got.Details == want.Details,
					"after restart the ID resumes with the recorded message, time and duration")
			} else {
				v.Assert(!ok || got.Level == alert.OK, "after restart an ID whose last recorded event was OK (or that was never seen) is OK")
			}
		}
	}
	recR := make([]*verifC08Rec, ntopics)
	for ti := range recR {
		recR[ti] = &verifC08Rec{}
		sR.RegisterAnonHandler(verifC08TopicNames[ti], recR[ti])
	}
	for i := c; i < k; i++ {
		v.Assert(sR.Collect(evs[i]) == nil, "collect succeeds after restart")
	}
	v.Goroutines()

	// ---- same final topic state
	for ti := 0; ti < ntopics; ti++ {
		name := verifC08TopicNames[ti]
		stU, okU, _ := sU.TopicState(name)
		stR, okR, _ := sR.TopicState(name)
		lu, lr := alert.OK, alert.OK // a topic that does not exist has no non-OK event
		if okU {
			lu = stU.Level
		}
		if okR {
			lr = stR.Level
		}
		v.Observe("final level", int(lu), int(lr))
		v.Assert(lu == lr, "final topic level equals that of the uninterrupted run")
		for _, id := range verifC08IDs {
			a, okA, _ := sU.EventState(name, id)
			b, okB, _ := sR.EventState(name, id)
			la, lb := alert.OK, alert.OK
			if okA {
				la = a.Level
			}
			if okB {
				lb = b.Level
			}
			v.Assert(la == lb, "final level of every ID equals that of the uninterrupted run")
			if la != alert.OK && lb != alert.OK {
				v.Assert(a.Message == b.Message && a.Time.Equal(b.Time) && a.Duration == b.Duration, "final non-OK event states are identical")
			}
		}
	}
	// ---- handlers: every remaining event is told with the same level and previous level
	toldU, toldR := verifC08Told(recU), verifC08Told(recR)
	v.Assert(len(toldU) == k-c && len(toldR) == k-c, "handlers are told every remaining event once")
	for i := range toldU {
		if i < len(toldR) {
			v.Assert(toldU[i] == toldR[i], "handlers are told the same level and previous level as in the uninterrupted run")
		}
	}
	// ---- and a further restart from either final store resumes the same levels
	sU2 := verifC08Start(v, verifC08NewDB(dbU.root.clone()))
	sR2 := verifC08Start(v, verifC08NewDB(sR.topicsStore.(*verifC08Store).db.root.clone()))
	for ti := 0; ti < ntopics; ti++ {
		for _, id := range verifC08IDs {
			a, okA, _ := sU2.EventState(verifC08TopicNames[ti], id)
			b, okB, _ := sR2.EventState(verifC08TopicNames[ti], id)
			la, lb := alert.OK, alert.OK
			if okA {
				la = a.Level
			}
			if okB {
				lb = b.Level
			}
			v.Assert(la == lb, "a later restart resumes the same levels as after the uninterrupted run")
		}
	}
	v.Reach("end")
}

// VerifC08ServiceUpdateEvent: Service.UpdateEvent (AlertNode.restoreEvent's reconciling
// call) on a topic that does not exist yet: no crash, the state is in memory and stored.
func VerifC08ServiceUpdateEvent(v *vrt.T) {
	db := verifC08NewDB(&verifC08Node{})
	s := verifC08Start(v, db)
	if v.Choose("topicExists", 2) == 1 {
		v.Assert(s.Collect(alert.Event{Topic: "t", State: alert.EventState{ID: "b", Level: alert.Warning, Time: time.Unix(0, 5).UTC()}}) == nil, "collect")
	}
	st := alert.EventState{ID: verifC08IDs[v.Choose("id", 2)], Message: v.String("msg", 1), Time: v.Time("time", 1000, 1063), Level: alert.Level(v.IntRange("level", 1, 3))}
	v.Assert(s.UpdateEvent("t", st) == nil, "UpdateEvent succeeds")
	got, ok, _ := s.EventState("t", st.ID)
	v.Assert(ok && got.Level == st.Level && got.Message == st.Message, "updated state is current")
	s2 := verifC08Start(v, verifC08NewDB(db.root.clone()))
	got2, ok2, _ := s2.EventState("t", st.ID)
	v.Observe("restored", ok2, int(got2.Level))
	v.Assert(ok2 && got2.Level == st.Level && got2.Message == st.Message && got2.Time.Equal(st.Time), "updated state survives a restart")
	v.Reach("end")
}

// VerifC08DeleteTopic: a deleted topic leaves no level behind. A topic with a firing ID is
// deleted while open, or after it was closed (a task is stopped - its anonymous topic
// closed - before the delete hook runs): after a restart, and for a task re-defined under
// the same name, the topic has no state.
func VerifC08DeleteTopic(v *vrt.T) {
	db := verifC08NewDB(&verifC08Node{})
	s := verifC08Start(v, db)
	lvl := alert.Level(v.IntRange("level", 1, 3))
	v.Assert(s.Collect(alert.Event{Topic: "t", State: alert.EventState{ID: "a", Level: lvl, Message: "m", Time: time.Unix(0, 5).UTC()}}) == nil, "collect")
	closedFirst := v.Choose("topic closed before the delete", 2) == 1
	if closedFirst {
		v.Assert(s.CloseTopic("t") == nil, "close")
	}
	v.Assert(s.DeleteTopic("t") == nil, "delete")
	// same process: a new event of the re-defined task starts from OK
	rec := &verifC08Rec{}
	s.RegisterAnonHandler("t", rec)
	v.Assert(s.Collect(alert.Event{Topic: "t", State: alert.EventState{ID: "a", Level: alert.Warning, Message: "n", Time: time.Unix(0, 9).UTC()}}) == nil, "collect after delete")
	v.Goroutines()
	v.Assert(len(rec.got) == 1 && rec.got[0].PreviousState().Level == alert.OK, "after the delete the ID starts from OK again")
	// restart from the store as it was right after the delete
	snap := db.snaps[len(db.snaps)-2]
	if len(db.snaps) < 2 {
		snap = db.root
	}
	s2 := verifC08Start(v, verifC08NewDB(snap.clone()))
	_, ok2, _ := s2.EventState("t", "a")
	v.Observe("restored", ok2)
	v.Assert(!ok2, "after a restart the deleted topic has no state")
	v.Reach("end")
}
