package alert

import (
	"time"

	kexpvar "github.com/influxdata/kapacitor/expvar"
	vrt "github.com/influxdata/kapacitor/zz_vrt"
)

// verifC08NewStatistic replaces server/vars.NewStatistic (uuid + global expvar
// registry, irrelevant to topic state) under the engine.
func verifC08NewStatistic(name string, tags map[string]string) (string, *kexpvar.Map) {
	m := &kexpvar.Map{}
	m.Init()
	return "verif-" + name + "-" + tags["id"], m
}

func verifC08DeleteStatistic(key string) {}

// verifC08Rec is a Handler recording what it is told.
type verifC08Rec struct {
	got []Event
}

func (r *verifC08Rec) Handle(e Event) { r.got = append(r.got, e) }

var verifC08IDs = []string{"a", "b"}

// VerifC08TopicsUpdateEvent: Topics.UpdateEvent (used by AlertNode.restoreEvent to
// reconcile the anonymous and the named topic after a restart) on a topic that does not
// exist yet or exists: it must not crash, and afterwards the topic exists and holds
// exactly the given state for the ID while other IDs keep theirs.
func VerifC08TopicsUpdateEvent(v *vrt.T) {
	s := NewTopics(0)
	exists := v.Choose("topicExists", 2) == 1
	other := EventState{ID: "b", Level: Level(v.IntRange("otherLevel", 0, 3)), Time: time.Unix(0, 5).UTC()}
	if exists {
		v.Assert(s.Collect(Event{Topic: "t", State: other}) == nil, "collect")
	}
	st := EventState{
		ID:       verifC08IDs[v.Choose("id", 2)],
		Message:  v.String("msg", 1),
		Time:     v.Time("time", 1000, 1064),
		Duration: time.Duration(v.IntRange("dur", 0, 15)),
		Level:    Level(v.IntRange("level", 0, 3)),
	}
	s.UpdateEvent("t", st)
	_, ok := s.Topic("t")
	v.Assert(ok, "the topic exists after UpdateEvent")
	got, ok := s.EventState("t", st.ID)
	v.Observe("state", ok, int(got.Level))
	v.Assert(ok && got.ID == st.ID && got.Message == st.Message && got.Time.Equal(st.Time) && got.Duration == st.Duration && got.Level == st.Level,
		"the topic holds the updated state for the ID")
	if exists && st.ID != "b" {
		o, ok := s.EventState("t", "b")
		v.Assert(ok && o.Level == other.Level, "other IDs keep their state")
	}
	want := st.Level
	if exists && st.ID != "b" && other.Level > want {
		want = other.Level
	}
	t, _ := s.Topic("t")
	v.Assert(t.MaxLevel() == want, "topic level is the maximum of its event levels")
	v.Reach("end")
}

// VerifC08TopicsRestoreContinue: a topic restored from a persisted map (what
// services/alert hands to RestoreTopicNoCopy after a restart or when a closed topic is
// reused) resumes every ID at its persisted level: the topic level is the maximum, each
// persisted ID reports its state, and the next collected event of an ID tells handlers
// the persisted level as previous level (no previous state for IDs that were not
// persisted). DeleteTopic forgets everything: a later event sees no previous state.
func VerifC08TopicsRestoreContinue(v *vrt.T) {
	s := NewTopics(0)
	saved := map[string]*EventState{}
	var lvl [2]Level
	var has [2]bool
	for i, id := range verifC08IDs {
		if v.Choose("persisted", 2) == 1 {
			has[i] = true
			lvl[i] = Level(v.IntRange("savedLevel", 1, 3)) // only non-OK states are ever persisted
			saved[id] = &EventState{ID: id, Level: lvl[i], Time: v.Time("savedTime", 1000, 1064), Message: "m" + id}
		}
	}
	if v.Choose("preexisting", 2) == 1 {
		// the topic already exists in memory with other content: restore replaces it
		v.Assert(s.Collect(Event{Topic: "t", State: EventState{ID: "a", Level: Critical}}) == nil, "collect")
	}
	s.RestoreTopicNoCopy("t", saved)
	rec := &verifC08Rec{}
	s.RegisterHandler("t", rec)

	t, ok := s.Topic("t")
	v.Assert(ok, "restored topic exists")
	max := OK
	for i, id := range verifC08IDs {
		st, ok := s.EventState("t", id)
		v.Assert(ok == has[i], "exactly the persisted IDs are present after restore")
		if has[i] {
			v.Assert(st.Level == lvl[i] && st.ID == id && st.Message == "m"+id, "a persisted ID resumes with its persisted state")
			if lvl[i] > max {
				max = lvl[i]
			}
		}
	}
	v.Observe("max", int(t.MaxLevel()))
	v.Assert(t.MaxLevel() == max, "restored topic level is the maximum persisted level")
	v.Assert(len(t.EventStates(OK)) == len(saved), "restored topic lists exactly the persisted events")

	del := v.Choose("deleteTopic", 2) == 1
	if del {
		s.DeleteTopic("t")
		_, ok := s.Topic("t")
		v.Assert(!ok, "deleted topic is gone")
		s.RegisterHandler("t", rec)
	}
	// next event
	k := v.Choose("id", 2)
	ev := Event{Topic: "t", State: EventState{ID: verifC08IDs[k], Level: Level(v.IntRange("level", 0, 3)), Time: v.Time("time", 2000, 2064)}}
	v.Assert(s.Collect(ev) == nil, "collect")
	v.Goroutines()
	v.Assert(len(rec.got) == 1, "the handler is told the event once")
	if len(rec.got) == 1 {
		wantPrev := OK
		if has[k] && !del {
			wantPrev = lvl[k]
		}
		v.Observe("prev", int(rec.got[0].PreviousState().Level))
		v.Assert(rec.got[0].State.Level == ev.State.Level && rec.got[0].PreviousState().Level == wantPrev,
			"the handler sees the persisted level as the previous level of the ID")
	}
	v.Reach("end")
}
