package kapacitor

import (
	"time"

	"github.com/influxdata/kapacitor/alert"
	"github.com/influxdata/kapacitor/models"
	vrt "github.com/influxdata/kapacitor/zz_vrt"
)

// verifC08Svc is the alert service as the node sees it after a restart: per (topic, id)
// the persisted event state, if any.
type verifC08Svc struct {
	states  map[string]alert.EventState // key: topic
	updates int
}

func (s *verifC08Svc) Collect(event alert.Event) error { return nil }
func (s *verifC08Svc) UpdateEvent(topic string, event alert.EventState) error {
	s.states[topic] = event
	s.updates++
	return nil
}
func (s *verifC08Svc) EventState(topic, event string) (alert.EventState, bool, error) {
	st, ok := s.states[topic]
	return st, ok, nil
}
func (s *verifC08Svc) RegisterAnonHandler(topic string, h alert.Handler)   {}
func (s *verifC08Svc) DeregisterAnonHandler(topic string, h alert.Handler) {}
func (s *verifC08Svc) CloseTopic(topic string) error                       { return nil }
func (s *verifC08Svc) DeleteTopic(topic string) error                      { return nil }
func (s *verifC08Svc) RestoreTopic(topic string) error                     { return nil }
func (s *verifC08Svc) IsInhibited(name string, tags models.Tags) bool      { return false }
func (s *verifC08Svc) AddInhibitor(*alert.Inhibitor)                       {}
func (s *verifC08Svc) RemoveInhibitor(*alert.Inhibitor)                    {}

type verifC08Handler struct{}

func (verifC08Handler) Handle(event alert.Event) {}

// VerifC08RestoreEvent: a task whose alert has an anonymous topic (handlers on the node)
// and/or a named topic restarts; the persisted state of the two topics may differ (a crash
// between the two commits of one event). The node must resume from ONE state — the
// anonymous topic's when it has one — and afterwards every topic of the alert must hold
// that level for the ID, so that handlers of both topics see the same history from
// then on (a stale copy would hide the next change from one of them).
func VerifC08RestoreEvent(v *vrt.T) {
	hasAnon := v.Choose("anon topic", 2) == 1
	hasTopic := v.Choose("named topic", 2) == 1
	if !hasAnon && !hasTopic {
		v.Reach("end")
		return
	}
	svc := &verifC08Svc{states: map[string]alert.EventState{}}
	mkState := func(name string) alert.EventState {
		return alert.EventState{ID: "id", Level: alert.Level(v.IntRange(name+" level", 1, 3)),
			Time: v.Time(name+" time", verifT2020-8, verifT2020+8), Message: name}
	}
	anonFound := hasAnon && v.Choose("anon state persisted", 2) == 1
	topicFound := hasTopic && v.Choose("named state persisted", 2) == 1
	var anonSt, topicSt alert.EventState
	if anonFound {
		anonSt = mkState("anon")
		svc.states["anon"] = anonSt
	}
	if topicFound {
		topicSt = mkState("named")
		svc.states["named"] = topicSt
	}
	n := &AlertNode{node: node{et: &ExecutingTask{tm: &TaskMaster{AlertService: svc}, Task: &Task{ID: "task"}}, diag: &verifNopDiag{}}, anonTopic: "anon"}
	if hasAnon {
		n.handlers = []alert.Handler{verifC08Handler{}}
	}
	if hasTopic {
		n.topic = "named"
	}
	level, trig := n.restoreEvent("id")

	want, wantT := alert.OK, time.Time{}
	switch {
	case anonFound:
		want, wantT = anonSt.Level, anonSt.Time
	case topicFound:
		want, wantT = topicSt.Level, topicSt.Time
	}
	v.Observe("level", int(level))
	v.Assert(level == want, "the node resumes at the anonymous topic's level, else the named topic's, else OK")
	v.Assert(want == alert.OK || trig.Equal(wantT), "with the time recorded for that state")
	if want != alert.OK {
		for _, tp := range []struct {
			name string
			on   bool
		}{{"anon", hasAnon}, {"named", hasTopic}} {
			if !tp.on {
				continue
			}
			st, ok := svc.states[tp.name]
			v.Assert(ok && st.Level == want, "every topic of the alert holds the level the node resumes from")
		}
	}
	v.Reach("end")
}
