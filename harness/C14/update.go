package task_store

import (
	vrt "github.com/influxdata/kapacitor/zz_vrt"
)

// Concrete template definitions: with and without dbrp statements, stream and batch.
const (
	verifS0  = "stream\n    |from()\n        .measurement('m')\n"
	verifS0b = "stream\n    |from()\n        .measurement('n')\n"
	verifS1  = "dbrp \"db\".\"rp\"\n\nstream\n    |from()\n        .measurement('m')\n"
	verifS2  = "dbrp \"db2\".\"rp2\"\n\ndbrp \"db3\".\"rp3\"\n\nstream\n    |from()\n        .measurement('m')\n"
	verifB0  = "batch\n    |query('SELECT x FROM \"db\".\"rp\".\"m\"')\n        .period(1s)\n        .every(1s)\n"
)

type verifTpl struct {
	script string
	typ    TaskType
	dbrps  []DBRP // the dbrp statements of the script (written down by hand, not derived by the code under test)
}

var (
	verifTplS0  = verifTpl{verifS0, StreamTask, nil}
	verifTplS0b = verifTpl{verifS0b, StreamTask, nil}
	verifTplS1  = verifTpl{verifS1, StreamTask, []DBRP{{"db", "rp"}}}
	verifTplS2  = verifTpl{verifS2, StreamTask, []DBRP{{"db2", "rp2"}, {"db3", "rp3"}}}
	verifTplB0  = verifTpl{verifB0, BatchTask, nil}
)

// (old, new) template pairs
var verifPairs = [][2]verifTpl{
	{verifTplS0, verifTplS0b}, // neither declares dbrps
	{verifTplS0, verifTplS1},  // only the new one declares
	{verifTplS1, verifTplS0},  // only the old one declares
	{verifTplS1, verifTplS2},  // both declare, different ones
	{verifTplS0, verifTplB0},  // type change stream -> batch
	{verifTplB0, verifTplS1},  // type change batch -> stream
}

var verifTaskIDs = []string{"t0", "t1", "t2", "t3"}

func verifSameDBRPs(a, b []DBRP) bool {
	if len(a) != len(b) {
		return false
	}
	for i := range a {
		if a[i].Database != b[i].Database || a[i].RetentionPolicy != b[i].RetentionPolicy {
			return false
		}
	}
	return true
}

// VerifC14TemplateUpdate: Service.updateAllAssociatedTasks over in-harness DAOs.
// Pre-state: n tasks associated with the old template, each either deleted meanwhile
// (association left over) or present with the template's ID/script/type (what
// handleCreateTask/handleUpdateTask establish), status symbolic, DBRPs = the template's
// dbrp statements if it has any, otherwise the task's own list (0..1 entries of symbolic
// bytes); enabled tasks have been started. One DAO call (symbolic position) may fail.
// Afterwards: all existing tasks carry the new template ID/script/type(/dbrps) or all carry
// exactly their previous definition, and a task executes iff it is enabled and startable.
func VerifC14TemplateUpdate(v *vrt.T) {
	verifRunning = map[string]bool{}
	faults := &verifFaults{}
	tasks := &verifTaskDAO{f: faults, tasks: map[string]Task{}}
	templates := &verifTemplateDAO{f: faults, assoc: map[string]bool{}}
	ts := &Service{tasks: tasks, templates: templates, diag: verifDiag{}, TaskMasterLookup: &verifLookup{}}

	pair := verifPairs[v.Choose("pair", len(verifPairs))]
	oldT, newT := pair[0], pair[1]
	batchInvolved := oldT.typ == BatchTask || newT.typ == BatchTask
	old := Template{ID: "tpl", Type: oldT.typ, TICKscript: oldT.script}
	upd := Template{ID: "tpl", Type: newT.typ, TICKscript: newT.script}
	if v.Choose("rename", 2) == 1 {
		upd.ID = "tpl2"
	}

	n := 1 + v.Choose("ntasks", v.Bound("tasks", 2))
	ids := verifTaskIDs[:n]
	for _, id := range ids {
		templates.assoc[old.ID+"/"+id] = true
		if v.Choose("exists", 2) == 0 {
			continue
		}
		t := Task{ID: id, Type: old.Type, TICKscript: old.TICKscript, TemplateID: old.ID}
		if len(oldT.dbrps) > 0 {
			t.DBRPs = append([]DBRP{}, oldT.dbrps...)
		} else {
			t.DBRPs = []DBRP{}
			if v.Choose("owndbrps", 2) == 1 {
				t.DBRPs = append(t.DBRPs, DBRP{Database: v.String("db", 1), RetentionPolicy: v.String("rp", 1)})
			}
		}
		enabled := v.Bool("enabled")
		if batchInvolved {
			// batch tasks would need an InfluxDB service to start: kept disabled (outside)
			v.Assume(!enabled)
		}
		if enabled {
			t.Status = Enabled
		}
		tasks.tasks[id] = t
		if enabled {
			ts.startTask(t) // fails (and records the error) for a task without DBRPs
		}
	}
	before := map[string]Task{}
	for id, t := range tasks.tasks {
		before[id] = verifCopyTask(t)
	}

	// one injected DAO failure at a symbolic position (0 = none)
	faults.calls, faults.firedAt, faults.startFailAt = 0, 0, 0
	faults.failAt = v.IntRange("failAt", 0, v.Bound("maxfail", 24))

	err := ts.updateAllAssociatedTasks(old, upd, ids)

	faults.failAt = 0
	if faults.firedAt != 0 && faults.startFailAt != 0 && faults.startFailAt < faults.firedAt {
		// two independent failures (a task that cannot start AND a later storage failure,
		// i.e. one during the rollback): outside the claim
		v.Reach("double-failure")
		return
	}

	updated := 0
	for _, id := range ids {
		prev, ok := before[id]
		now, ok2 := tasks.tasks[id]
		v.Assert(ok == ok2, "no task appears or disappears")
		if !ok || !ok2 {
			continue
		}
		v.Assert(now.ID == id && now.Status == prev.Status, "identity and status are untouched")
		if err == nil {
			v.Assert(now.TemplateID == upd.ID && now.TICKscript == upd.TICKscript && now.Type == upd.Type,
				"after a successful update every task carries the new template id, script and type")
			if len(newT.dbrps) > 0 {
				v.Assert(verifSameDBRPs(now.DBRPs, newT.dbrps), "after a successful update every task carries the new template's dbrps")
			}
			updated++
		} else {
			v.Assert(now.TemplateID == prev.TemplateID && now.TICKscript == prev.TICKscript && now.Type == prev.Type,
				"after a failed update every task carries its previous template id, script and type")
			v.Assert(verifSameDBRPs(now.DBRPs, prev.DBRPs), "after a failed update every task carries its previous dbrps")
		}
		v.Assert(verifExecuting(ts, id) == (now.Status == Enabled && len(now.DBRPs) > 0),
			"a task executes iff it is enabled and its start succeeded")
	}
	v.Observe("outcome", err == nil, updated, faults.firedAt, faults.startFailAt, faults.calls)
	v.Reach("end")
}
