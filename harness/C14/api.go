package task_store

import (
	"bytes"
	"encoding/json"
	"errors"
	"io"
	"net/http"
	"net/url"

	"github.com/influxdata/kapacitor"
	"github.com/influxdata/kapacitor/client/v1"
	"github.com/influxdata/kapacitor/services/storage"
	vrt "github.com/influxdata/kapacitor/zz_vrt"
)

// ---------------------------------------------------------------------------------
// The task API through the REAL handlers (handleCreateTask, handleUpdateTask,
// handleDeleteTask) over the in-harness DAOs of env.go.
//
// Not encodable and therefore replaced under the engine (real in the native replays):
//   * encoding/json for the request bodies: json.Marshal remembers the options value in a
//     side table and returns a one-byte reference, json.NewDecoder/Decode hand it back;
//   * httpd.HttpError / httpd.MarshalJSON (JSON responses): only the status code is kept;
//   * Service.newKapacitorTask (tick.Evaluate, reflection): fails exactly for the one
//     script of this harness that does not evaluate;
//   * Service.convertTask (formatting, dot, stats of the response body);
//   * the task master: startTask/stopTask/executing/DeleteTask models of env.go.
// ---------------------------------------------------------------------------------

type verifC14RW struct {
	status int
	header http.Header
}

func (w *verifC14RW) Header() http.Header         { return w.header }
func (w *verifC14RW) Write(b []byte) (int, error) { return len(b), nil }
func (w *verifC14RW) WriteHeader(code int) {
	if w.status == 0 {
		w.status = code
	}
}

type verifC14Snapshots struct{}

func (verifC14Snapshots) Get(id string) (*Snapshot, error)        { return nil, ErrNoSnapshotExists }
func (verifC14Snapshots) Put(id string, snapshot *Snapshot) error { return nil }
func (verifC14Snapshots) Delete(id string) error                  { return nil }
func (verifC14Snapshots) Exists(id string) (bool, error)          { return false, nil }

var verifC14Bodies []interface{}
var verifC14Decoders = map[*json.Decoder]int{}

func verifC14Marshal(x interface{}) ([]byte, error) {
	verifC14Bodies = append(verifC14Bodies, x)
	return []byte{byte(len(verifC14Bodies) - 1)}, nil
}

func verifC14NewDecoder(r io.Reader) *json.Decoder {
	var b [1]byte
	d := new(json.Decoder)
	if n, _ := r.Read(b[:]); n == 1 {
		verifC14Decoders[d] = int(b[0])
	} else {
		verifC14Decoders[d] = -1
	}
	return d
}

func verifC14Decode(d *json.Decoder, into interface{}) error {
	i, ok := verifC14Decoders[d]
	if !ok || i < 0 || i >= len(verifC14Bodies) {
		return errors.New("verif: no body")
	}
	switch p := into.(type) {
	case *client.CreateTaskOptions:
		*p = verifC14Bodies[i].(client.CreateTaskOptions)
		p.DBRPs = append([]client.DBRP(nil), p.DBRPs...)
		return nil
	case *client.UpdateTaskOptions:
		*p = verifC14Bodies[i].(client.UpdateTaskOptions)
		p.DBRPs = append([]client.DBRP(nil), p.DBRPs...)
		return nil
	case *client.UpdateTemplateOptions:
		*p = verifC14Bodies[i].(client.UpdateTemplateOptions)
		return nil
	}
	return errors.New("verif: body type not modelled")
}

func verifC14HttpError(w http.ResponseWriter, err string, pretty bool, code int) { w.WriteHeader(code) }
func verifC14MarshalJSON(v interface{}, pretty bool) []byte                      { return nil }

const (
	verifC14S1  = "stream\n    |from()\n        .measurement('m')\n"
	verifC14S2  = "stream\n    |from()\n        .measurement('n')\n    |log()\n"
	verifC14Bad = "stream\n    |bogus()\n" // parses, does not evaluate: no such node
)

func verifC14NewKTask(ts *Service, task Task) (*kapacitor.Task, error) {
	if task.TICKscript == verifC14Bad {
		return nil, errors.New("no method or property \"bogus\"")
	}
	return nil, nil
}

func verifC14ConvertTask(ts *Service, t Task, scriptFormat, dotView string, tm *kapacitor.TaskMaster) (client.Task, error) {
	return client.Task{ID: t.ID}, nil
}

func verifC14MainModel(l *verifLookup) *kapacitor.TaskMaster { return nil }

func verifC14DeleteTaskModel(tm *kapacitor.TaskMaster, id string) error {
	delete(verifRunning, id)
	return nil
}

func verifC14Request(method, id string, body interface{}) *http.Request {
	r := &http.Request{Method: method, URL: &url.URL{Path: tasksBasePathAnchored + id}, Header: http.Header{}}
	if body != nil {
		data, err := json.Marshal(body)
		if err != nil {
			panic(err)
		}
		r.Body = io.NopCloser(bytes.NewReader(data))
	}
	return r
}

type verifC14Def struct {
	script  string
	enabled bool
	dbrps   []DBRP
}

func verifC14SameDBRPs(a []DBRP, b []DBRP) bool {
	if len(a) != len(b) {
		return false
	}
	for i := range a {
		if a[i] != b[i] {
			return false
		}
	}
	return true
}

// VerifC14TaskAPI: inductive step of the task API. From ANY consistent state (tasks a, b
// each absent or defined with one of two scripts, enabled or not, one of two dbrps; a task
// executing iff enabled) one create / update (PATCH: any combination of new ID, status,
// script, dbrps) / delete request through the real handler: afterwards the store holds
// exactly the tasks with their last accepted definition - a request answered with an error
// status leaves no trace, an accepted one is applied completely - and a task is executing
// if and only if it is defined and enabled.
func VerifC14TaskAPI(v *vrt.T) {
	verifRunning = map[string]bool{}
	verifC14Bodies = nil
	verifC14Decoders = map[*json.Decoder]int{}
	faults := &verifFaults{}
	tasks := &verifTaskDAO{f: faults, tasks: map[string]Task{}}
	templates := &verifTemplateDAO{f: faults, assoc: map[string]bool{}}
	ts := &Service{tasks: tasks, templates: templates, snapshots: verifC14Snapshots{}, diag: verifDiag{}, TaskMasterLookup: &verifLookup{}}

	ids := []string{"a", "b"}
	scripts := []string{verifC14S1, verifC14S2}
	dbrpSets := [][]DBRP{{{Database: "db", RetentionPolicy: "rp"}}, {{Database: "db2", RetentionPolicy: "rp"}}}
	model := map[string]verifC14Def{}
	for _, id := range ids {
		if v.Choose("defined "+id, 2) == 0 {
			continue
		}
		d := verifC14Def{script: scripts[0], dbrps: dbrpSets[0]}
		if id == "a" || v.Bound("bfull", 1) == 1 { // bfull=0 (two-step tier): task b, if defined, has one fixed definition
			d = verifC14Def{script: scripts[v.Choose("script "+id, 2)], enabled: v.Choose("enabled "+id, 2) == 1, dbrps: dbrpSets[v.Choose("dbrps "+id, 2)]}
		}
		t := Task{ID: id, Type: StreamTask, TICKscript: d.script, DBRPs: append([]DBRP{}, d.dbrps...)}
		if d.enabled {
			t.Status = Enabled
		}
		tasks.tasks[id] = t
		if d.enabled {
			if err := ts.startTask(t); err != nil {
				panic(err)
			}
		}
		model[id] = d
	}

	clientDBRPs := func(i int) []client.DBRP {
		if i == 0 {
			return nil
		}
		s := dbrpSets[i-1]
		out := make([]client.DBRP, len(s))
		for j := range s {
			out[j] = client.DBRP{Database: s[j].Database, RetentionPolicy: s[j].RetentionPolicy}
		}
		return out
	}
	steps := v.Bound("steps", 1)
	accepted := 0
	for step := 0; step < steps; step++ {
		w := &verifC14RW{header: http.Header{}}
		switch v.Choose("request", 3) {
		case 0: // POST /tasks
			id := ids[v.Choose("id", 2)]
			enabled := v.Choose("status", 2) == 1
			script := []string{verifC14S1, verifC14Bad, ""}[v.Choose("script", 3)]
			di := v.Choose("dbrps", 2)
			opts := client.CreateTaskOptions{ID: id, Type: client.StreamTask, TICKscript: script, DBRPs: clientDBRPs(di), Status: client.Disabled}
			if enabled {
				opts.Status = client.Enabled
			}
			ts.handleCreateTask(w, verifC14Request("POST", "", opts))
			if w.status >= 200 && w.status < 300 {
				_, exists := model[id]
				v.Assert(!exists && script == verifC14S1 && di > 0, "a create is accepted only for a new ID, a script that evaluates and declared dbrps")
				model[id] = verifC14Def{script: script, enabled: enabled, dbrps: dbrpSets[di-1]}
				accepted++
			}
		case 1: // PATCH /tasks/<id>
			id := ids[v.Choose("id", 2)]
			newID := []string{"", "a", "b"}[v.Choose("new id", 3)]
			status := []client.TaskStatus{0, client.Enabled, client.Disabled}[v.Choose("status", 3)]
			script := []string{"", verifC14S2, verifC14Bad}[v.Choose("script", 3)]
			di := v.Choose("dbrps", 3)
			opts := client.UpdateTaskOptions{ID: newID, TICKscript: script, DBRPs: clientDBRPs(di), Status: status}
			ts.handleUpdateTask(w, verifC14Request("PATCH", id, opts))
			if w.status >= 200 && w.status < 300 {
				cur, exists := model[id]
				v.Assert(exists && script != verifC14Bad, "an update is accepted only for an existing task and a script that evaluates")
				if script != "" {
					cur.script = script
				}
				if di > 0 {
					cur.dbrps = dbrpSets[di-1]
				}
				switch status {
				case client.Enabled:
					cur.enabled = true
				case client.Disabled:
					cur.enabled = false
				}
				if newID != "" && newID != id {
					_, taken := model[newID]
					v.Assert(!taken, "a rename onto an existing task is not accepted")
					delete(model, id)
					id = newID
				}
				model[id] = cur
				accepted++
			}
		default: // DELETE /tasks/<id>
			id := ids[v.Choose("id", 2)]
			ts.handleDeleteTask(w, verifC14Request("DELETE", id, nil))
			v.Assert(w.status == http.StatusNoContent, "delete succeeds (also for an unknown task)")
			delete(model, id)
			accepted++
		}
		v.Observe("status", w.status)
		// the state after the request
		for _, id := range ids {
			t, ok := tasks.tasks[id]
			m, mok := model[id]
			v.Assert(ok == mok, "the store holds exactly the successfully defined tasks")
			if ok && mok {
				v.Assert(t.TICKscript == m.script && (t.Status == Enabled) == m.enabled && verifC14SameDBRPs(t.DBRPs, m.dbrps), "each task has its last accepted definition")
			}
			v.Assert(verifExecuting(ts, id) == (mok && m.enabled), "a task is executing if and only if it is defined and enabled")
		}
	}
	if accepted > 0 {
		v.Reach("accepted")
	}
	v.Reach("end")
}

// VerifC14TaskAPITemplates: inductive step of the task API for templated tasks. From any
// consistent state (tasks a, b each absent, plain or created from template tpl and then
// associated with it) one create (plain or from the template) / PATCH (new ID and/or
// template on/unchanged) / delete request: at EVERY point at which the process could stop
// (after each committed DAO write) every task that carries a template ID is known to that
// template (so that an update of the template reaches it - the reverse, a dangling
// association, is harmless), and after the request the associations are exactly the
// templated tasks.
func VerifC14TaskAPITemplates(v *vrt.T) {
	verifRunning = map[string]bool{}
	verifC14Bodies = nil
	verifC14Decoders = map[*json.Decoder]int{}
	faults := &verifFaults{}
	tasks := &verifTaskDAO{f: faults, tasks: map[string]Task{}}
	templates := &verifTemplateDAO{f: faults, assoc: map[string]bool{}, tpls: map[string]Template{"tpl": {ID: "tpl", Type: StreamTask, TICKscript: verifC14S1}}}
	ts := &Service{tasks: tasks, templates: templates, snapshots: verifC14Snapshots{}, diag: verifDiag{}, TaskMasterLookup: &verifLookup{}}
	ids := []string{"a", "b"}
	dbrps := []DBRP{{Database: "db", RetentionPolicy: "rp"}}
	for _, id := range ids {
		switch v.Choose("state of "+id, 3) {
		case 1:
			tasks.tasks[id] = Task{ID: id, Type: StreamTask, TICKscript: verifC14S2, DBRPs: append([]DBRP{}, dbrps...)}
		case 2:
			tasks.tasks[id] = Task{ID: id, Type: StreamTask, TICKscript: verifC14S1, TemplateID: "tpl", DBRPs: append([]DBRP{}, dbrps...)}
			templates.assoc["tpl/"+id] = true
		}
	}
	known := func() bool {
		ok := true
		for _, t := range tasks.tasks {
			if t.TemplateID != "" && !templates.assoc[t.TemplateID+"/"+t.ID] {
				ok = false
			}
		}
		return ok
	}
	crash := func() {
		v.Assert(known(), "at every possible stop: a task carrying a template ID is associated with that template")
	}
	tasks.onWrite, templates.onWrite = crash, crash

	w := &verifC14RW{header: http.Header{}}
	cd := []client.DBRP{{Database: "db", RetentionPolicy: "rp"}}
	switch v.Choose("request", 3) {
	case 0:
		id := ids[v.Choose("id", 2)]
		opts := client.CreateTaskOptions{ID: id, Type: client.StreamTask, DBRPs: cd, Status: client.Disabled}
		if v.Choose("from template", 2) == 1 {
			opts.TemplateID = "tpl"
		} else {
			opts.TICKscript = verifC14S2
		}
		ts.handleCreateTask(w, verifC14Request("POST", "", opts))
	case 1:
		id := ids[v.Choose("id", 2)]
		opts := client.UpdateTaskOptions{ID: []string{"", "a", "b"}[v.Choose("new id", 3)]}
		if v.Choose("set template", 2) == 1 {
			opts.TemplateID = "tpl"
		}
		ts.handleUpdateTask(w, verifC14Request("PATCH", id, opts))
	default:
		ts.handleDeleteTask(w, verifC14Request("DELETE", ids[v.Choose("id", 2)], nil))
	}
	v.Observe("status", w.status)
	v.Assert(known(), "after the request every templated task is associated")
	if w.status >= 200 && w.status < 300 {
		for key := range templates.assoc {
			id := key[len("tpl/"):]
			t, ok := tasks.tasks[id]
			v.Assert(ok && t.TemplateID == "tpl", "after an accepted request no association is left behind for a task that is not (any more) from the template")
		}
		v.Reach("accepted")
	}
	v.Reach("end")
}

// ---- template API ----

func verifC14TemplateTaskModel(ts *Service, t Template) (*kapacitor.Template, error) {
	if t.TICKscript == verifC14Bad {
		return nil, errors.New("no method or property \"bogus\"")
	}
	return nil, nil
}

func verifC14ConvertTemplateModel(ts *Service, t Template, scriptFormat string) (client.Template, error) {
	return client.Template{ID: t.ID}, nil
}

// VerifC14TemplateAPI: PATCH of a template through the REAL handleUpdateTemplate, with
// the real templateKV (associations) over the ordered in-harness store and the real
// updateAllAssociatedTasks: template tpl with 1..2 tasks created from it (one may be
// enabled); the request changes the script (to one that evaluates or one that does not),
// the ID, both or nothing: "updating a template changes all tasks created from it or none of
// them" - after an accepted request every such task has the new script and carries the
// template's (new) ID and is listed by the template; after a rejected one nothing changed.
func VerifC14TemplateAPI(v *vrt.T) {
	verifRunning = map[string]bool{}
	verifC14Bodies = nil
	verifC14Decoders = map[*json.Decoder]int{}
	faults := &verifFaults{}
	tasks := &verifTaskDAO{f: faults, tasks: map[string]Task{}}
	templates := newTemplateKV(storage.VerifNewMem())
	ts := &Service{tasks: tasks, templates: templates, snapshots: verifC14Snapshots{}, diag: verifDiag{}, TaskMasterLookup: &verifLookup{}}
	v.Assert(templates.Create(Template{ID: "tpl", Type: StreamTask, TICKscript: verifC14S1}) == nil, "template created")
	ids := []string{"a", "b"}[:1+v.Choose("tasks", 2)]
	dbrps := []DBRP{{Database: "db", RetentionPolicy: "rp"}}
	for i, id := range ids {
		t := Task{ID: id, Type: StreamTask, TICKscript: verifC14S1, TemplateID: "tpl", DBRPs: append([]DBRP{}, dbrps...)}
		if i == 0 && v.Choose("first task enabled", 2) == 1 {
			t.Status = Enabled
			if err := ts.startTask(t); err != nil {
				panic(err)
			}
		}
		tasks.tasks[id] = t
		v.Assert(templates.AssociateTask("tpl", id) == nil, "task associated")
	}
	newID := []string{"", "tpl2"}[v.Choose("new id", 2)]
	script := []string{"", verifC14S2, verifC14Bad}[v.Choose("script", 3)]
	w := &verifC14RW{header: http.Header{}}
	r := verifC14Request("PATCH", "", client.UpdateTemplateOptions{ID: newID, TICKscript: script})
	r.URL.Path = templatesBasePathAnchored + "tpl"
	ts.handleUpdateTemplate(w, r)
	v.Observe("status", w.status)
	accepted := w.status >= 200 && w.status < 300
	v.Assert(accepted == (script != verifC14Bad), "the update is accepted exactly when the script evaluates")
	wantScript, wantTpl := verifC14S1, "tpl"
	if accepted {
		if script != "" {
			wantScript = script
		}
		if newID != "" {
			wantTpl = newID
		}
	}
	for _, id := range ids {
		t, ok := tasks.tasks[id]
		v.Assert(ok && t.TICKscript == wantScript && t.TemplateID == wantTpl, "every task created from the template has the template's script and ID (all updated, or none)")
	}
	listed, err := templates.ListAssociatedTasks(wantTpl)
	v.Assert(err == nil && len(listed) == len(ids), "the template lists all tasks created from it")
	if _, err := templates.Get(wantTpl); err != nil {
		v.Assert(false, "the template exists under its ID")
	}
	v.Reach("end")
}
