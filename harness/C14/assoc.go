package task_store

import (
	"errors"

	"github.com/influxdata/kapacitor/services/storage"
	vrt "github.com/influxdata/kapacitor/zz_vrt"
)

// VerifC14TemplateAssoc: the template/task associations of the real templateKV over an
// ordered transactional key/value store: after any sequence of associate / disassociate /
// delete-template operations over template IDs of which one is a byte prefix of another
// ("a", "ab", "a.b": all valid IDs) and task IDs {t, u}, ListAssociatedTasks(T) returns
// exactly the tasks associated with T, in order, and nothing of another template.
func VerifC14TemplateAssoc(v *vrt.T) {
	kv := newTemplateKV(storage.VerifNewMem())
	// the second template ID extends the first by one arbitrary valid ID byte
	c := v.Byte("id byte")
	v.Assume(c >= 'a' && c <= 'z' || c >= '0' && c <= '9' || c == '-' || c == '.' || c == '_')
	tmpls := []string{"a", "a" + string([]byte{c}), "b"}
	tasks := []string{"t", "u"}
	var model [3][2]bool
	for _, id := range tmpls {
		v.Assert(kv.Create(Template{ID: id}) == nil, "template created")
	}
	k := v.Bound("ops", 3)
	for i := 0; i < k; i++ {
		ti := v.Choose("template", 3)
		switch v.Choose("op", 3) {
		case 0:
			ta := v.Choose("task", 2)
			v.Assert(kv.AssociateTask(tmpls[ti], tasks[ta]) == nil, "associate succeeds")
			model[ti][ta] = true
		case 1:
			ta := v.Choose("task", 2)
			v.Assert(kv.DisassociateTask(tmpls[ti], tasks[ta]) == nil, "disassociate succeeds")
			model[ti][ta] = false
		default:
			v.Assert(kv.Delete(tmpls[ti]) == nil, "delete succeeds")
			model[ti] = [2]bool{}
		}
	}
	for ti, id := range tmpls {
		got, err := kv.ListAssociatedTasks(id)
		v.Assert(err == nil, "listing succeeds")
		var want []string
		for ta, on := range model[ti] {
			if on {
				want = append(want, tasks[ta])
			}
		}
		v.Assert(len(got) == len(want), "a template lists exactly its own associated tasks")
		if len(got) == len(want) {
			for j := range want {
				v.Assert(got[j] == want[j], "associated tasks in ID order")
			}
		}
	}
	v.Observe("done", k)
	v.Reach("end")
}

// Engine-side replacements of the gob encoding of the template body (reflection driven):
// the template is remembered in a side table and a one-byte reference is stored. The
// native replays run the real encoding.
var verifC14Templates []Template

func verifC14EncodeTemplate(d *templateKV, t Template) ([]byte, error) {
	verifC14Templates = append(verifC14Templates, t)
	return []byte{byte(len(verifC14Templates) - 1)}, nil
}
func verifC14DecodeTemplate(d *templateKV, data []byte) (Template, error) {
	if len(data) != 1 || int(data[0]) >= len(verifC14Templates) {
		return Template{}, errors.New("verif: unknown template encoding")
	}
	return verifC14Templates[int(data[0])], nil
}
