package task_store

import (
	"errors"
	"time"

	"github.com/influxdata/kapacitor"
	"github.com/influxdata/kapacitor/alert"
	"github.com/influxdata/kapacitor/edge"
	"github.com/influxdata/kapacitor/keyvalue"
	"github.com/influxdata/kapacitor/models"
)

// ---------------------------------------------------------------------------------
// Environment of the C14 kernel (Service.updateAllAssociatedTasks):
//   * in-harness TaskDAO / TemplateDAO (maps, deep copies like the gob round trip of the
//     real DAOs) sharing one call counter with a one-shot injected failure at the
//     failAt-th DAO call,
//   * nop diagnostics,
//   * the task master: natively a REAL, opened kapacitor.TaskMaster (tasks are really
//     started/stopped); under the engine startTask/stopTask/verifExecuting are replaced by
//     the models below (overrides in harness.json), which reproduce what the real ones do
//     for the scripts used here: a start fails iff the task has no DBRPs
//     (TaskMaster.StartTask: "task does contain any dbrps"), the last error is saved
//     through the DAO exactly as the real startTask does.
// ---------------------------------------------------------------------------------

var verifErrInjected = errors.New("verif: injected DAO failure")

type verifFaults struct {
	calls       int // DAO calls so far
	failAt      int // 1-based DAO call that fails; 0 = none
	firedAt     int // call number at which the injected failure was delivered
	startFailAt int // call number of the first Replace that newly stores a non-empty Error (= a failed start)
}

func (f *verifFaults) call() error {
	f.calls++
	if f.calls == f.failAt {
		f.firedAt = f.calls
		return verifErrInjected
	}
	return nil
}

func verifCopyTask(t Task) Task {
	if t.DBRPs != nil {
		t.DBRPs = append([]DBRP{}, t.DBRPs...)
	}
	return t
}

type verifTaskDAO struct {
	f       *verifFaults
	tasks   map[string]Task
	onWrite func() // called after every committed write (a possible crash point)
}

func (d *verifTaskDAO) Get(id string) (Task, error) {
	if err := d.f.call(); err != nil {
		return Task{}, err
	}
	t, ok := d.tasks[id]
	if !ok {
		return Task{}, ErrNoTaskExists
	}
	return verifCopyTask(t), nil
}

func (d *verifTaskDAO) Create(t Task) error {
	if err := d.f.call(); err != nil {
		return err
	}
	if _, ok := d.tasks[t.ID]; ok {
		return ErrTaskExists
	}
	d.tasks[t.ID] = verifCopyTask(t)
	if d.onWrite != nil {
		d.onWrite()
	}
	return nil
}

func (d *verifTaskDAO) Replace(t Task) error {
	if err := d.f.call(); err != nil {
		return err
	}
	cur, ok := d.tasks[t.ID]
	if !ok {
		return ErrNoTaskExists
	}
	if t.Error != "" && cur.Error == "" && d.f.startFailAt == 0 {
		// a newly recorded error: startTask clears the error, then stores the failure
		d.f.startFailAt = d.f.calls
	}
	d.tasks[t.ID] = verifCopyTask(t)
	if d.onWrite != nil {
		d.onWrite()
	}
	return nil
}

func (d *verifTaskDAO) Delete(id string) error {
	if err := d.f.call(); err != nil {
		return err
	}
	delete(d.tasks, id)
	if d.onWrite != nil {
		d.onWrite()
	}
	return nil
}

func (d *verifTaskDAO) List(pattern string, offset, limit int) ([]Task, error) {
	return nil, errors.New("verif: not used")
}
func (d *verifTaskDAO) Rebuild() error { return nil }

type verifTemplateDAO struct {
	f       *verifFaults
	assoc   map[string]bool // templateId + "/" + taskId
	tpls    map[string]Template
	onWrite func() // called after every committed write of either DAO (a possible crash point)
}

func (d *verifTemplateDAO) Get(id string) (Template, error) {
	if t, ok := d.tpls[id]; ok {
		return t, nil
	}
	return Template{}, ErrNoTemplateExists
}
func (d *verifTemplateDAO) Create(t Template) error  { return nil }
func (d *verifTemplateDAO) Replace(t Template) error { return nil }
func (d *verifTemplateDAO) Delete(id string) error   { return nil }
func (d *verifTemplateDAO) List(pattern string, offset, limit int) ([]Template, error) {
	return nil, errors.New("verif: not used")
}
func (d *verifTemplateDAO) AssociateTask(templateId, taskId string) error {
	if err := d.f.call(); err != nil {
		return err
	}
	d.assoc[templateId+"/"+taskId] = true
	if d.onWrite != nil {
		d.onWrite()
	}
	return nil
}
func (d *verifTemplateDAO) DisassociateTask(templateId, taskId string) error {
	if err := d.f.call(); err != nil {
		return err
	}
	delete(d.assoc, templateId+"/"+taskId)
	if d.onWrite != nil {
		d.onWrite()
	}
	return nil
}
func (d *verifTemplateDAO) ListAssociatedTasks(templateId string) ([]string, error) {
	return nil, errors.New("verif: not used")
}

// ---- diagnostics (task_store.Diagnostic and, natively, kapacitor.Diagnostic) ----

type verifDiag struct{}

func (verifDiag) StartingTask(taskID string)                     {}
func (verifDiag) StartedTask(taskID string)                      {}
func (verifDiag) FinishedTask(taskID string)                     {}
func (verifDiag) Error(msg string, err error, ctx ...keyvalue.T) {}
func (verifDiag) Debug(msg string)                               {}
func (verifDiag) AlreadyMigrated(entity, id string)              {}
func (verifDiag) Migrated(entity, id string)                     {}

type verifKDiag struct{}

func (verifKDiag) WithTaskContext(task string) kapacitor.TaskDiagnostic { return verifKDiag{} }
func (verifKDiag) WithTaskMasterContext(tm string) kapacitor.Diagnostic { return verifKDiag{} }
func (verifKDiag) WithNodeContext(node string) kapacitor.NodeDiagnostic { return verifKDiag{} }
func (verifKDiag) WithEdgeContext(task, parent, child string) kapacitor.EdgeDiagnostic {
	return verifKDiag{}
}
func (verifKDiag) TaskMasterOpened()                                       {}
func (verifKDiag) TaskMasterClosed()                                       {}
func (verifKDiag) StartingTask(id string)                                  {}
func (verifKDiag) StartedTask(id string)                                   {}
func (verifKDiag) StoppedTask(id string)                                   {}
func (verifKDiag) StoppedTaskWithError(id string, err error)               {}
func (verifKDiag) TaskMasterDot(d string)                                  {}
func (verifKDiag) Error(msg string, err error, ctx ...keyvalue.T)          {}
func (verifKDiag) ClosingEdge(collected, emitted int64)                    {}
func (verifKDiag) SettingReplicas(new int, old int, id string)             {}
func (verifKDiag) StartingBatchQuery(q string)                             {}
func (verifKDiag) UDFLog(s string)                                         {}
func (verifKDiag) LogPointData(key, prefix string, data edge.PointMessage) {}
func (verifKDiag) LogBatchData(key, prefix string, data edge.BufferedBatchMessage) {
}
func (verifKDiag) AlertTriggered(level alert.Level, id string, message string, rows *models.Row) {
}

// ---- task master (native side only) ----

type verifDeadman struct{}

func (verifDeadman) Interval() time.Duration { return 0 }
func (verifDeadman) Threshold() float64      { return 0 }
func (verifDeadman) Id() string              { return "" }
func (verifDeadman) Message() string         { return "" }
func (verifDeadman) Global() bool            { return false }

type verifSnapshots struct{}

func (verifSnapshots) SaveSnapshot(id string, snapshot *kapacitor.TaskSnapshot) error { return nil }
func (verifSnapshots) HasSnapshot(id string) bool                                     { return false }
func (verifSnapshots) LoadSnapshot(id string) (*kapacitor.TaskSnapshot, error) {
	return nil, errors.New("no snapshot")
}

// verifLookup creates the real task master lazily: Main() is only reached by the real
// startTask/stopTask/verifExecuting, i.e. natively.
type verifLookup struct{ tm *kapacitor.TaskMaster }

func (l *verifLookup) Main() *kapacitor.TaskMaster {
	if l.tm == nil {
		tm := kapacitor.NewTaskMaster(kapacitor.MainTaskMaster, nil, verifKDiag{})
		tm.DeadmanService = verifDeadman{}
		tm.TaskStore = verifSnapshots{}
		if err := tm.Open(); err != nil {
			panic(err)
		}
		l.tm = tm
	}
	return l.tm
}
func (l *verifLookup) Get(string) *kapacitor.TaskMaster { return l.Main() }
func (l *verifLookup) Set(*kapacitor.TaskMaster)        {}
func (l *verifLookup) Delete(*kapacitor.TaskMaster)     {}

// verifExecuting: is the task executing in the task master? (native body; the engine uses
// verifExecutingModel)
func verifExecuting(ts *Service, id string) bool {
	return ts.TaskMasterLookup.Main().IsExecuting(id)
}

// ---- engine-side models of the task master interaction (overrides) ----

var verifRunning = map[string]bool{}

const verifNoDBRPsMsg = "task does contain any dbrps"

// verifStartTaskModel models Service.startTask for the valid stream scripts of this
// harness: newKapacitorTask succeeds, the last error is cleared, TaskMaster.StartTask
// refuses a task without DBRPs (error saved, returned) and otherwise runs it.
func verifStartTaskModel(ts *Service, task Task) error {
	ts.saveLastError(task.ID, "")
	if len(task.DBRPs) == 0 {
		ts.saveLastError(task.ID, verifNoDBRPsMsg)
		return errors.New(verifNoDBRPsMsg)
	}
	verifRunning[task.ID] = true
	return nil
}

func verifStopTaskModel(ts *Service, id string) { delete(verifRunning, id) }

func verifExecutingModel(ts *Service, id string) bool { return verifRunning[id] }
