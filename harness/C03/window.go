package kapacitor

import (
	"time"

	"github.com/influxdata/kapacitor/edge"
	"github.com/influxdata/kapacitor/models"
	vrt "github.com/influxdata/kapacitor/zz_vrt"
)

type verifWinCfg struct {
	period, every time.Duration
	align, fill   bool
}

// period/every pairs: overlapping, tumbling, gaps, every=0, co-prime values so that
// Truncate phases differ; each with align / fillPeriod on and off.
var verifWinPairs = [][2]time.Duration{{10, 4}, {6, 6}, {4, 10}, {7, 0}, {9, 7}}

type verifPt struct {
	t int64 // unix ns
	i int64
}

func verifWinGroup() (edge.GroupInfo, models.Dimensions, models.Tags) {
	dims := models.Dimensions{TagNames: []string{"host"}}
	tags := models.Tags{"host": "a"}
	return edge.GroupInfo{ID: models.ToGroupID("m", tags, dims), Tags: models.Tags{"host": "a"}, Dimensions: dims}, dims, tags
}

// VerifC03TimeWindowSeq drives one group's time window with a symbolic non-decreasing
// timestamp sequence and compares every emission with the reference schedule/content.
func VerifC03TimeWindowSeq(v *vrt.T) {
	pair := verifWinPairs[v.Choose("pair", len(verifWinPairs))]
	cfg := verifWinCfg{period: pair[0], every: pair[1], align: v.Choose("align", 2) == 1, fill: v.Choose("fill", 2) == 1}
	base := []int64{verifT2020, verifT1960, 0}[v.Choose("base", v.Bound("bases", 3))]
	k := v.Bound("points", 4)
	barriers := v.Bound("barriers", 0) == 1
	group, dims, tags := verifWinGroup()
	period, every := int64(cfg.period), int64(cfg.every)

	t0 := v.Time("t0", base-64, base+64)
	w := newWindowByTime("m", t0, group, cfg.period, cfg.every, cfg.align, cfg.fill, &verifNopDiag{})

	// reference schedule
	var next int64
	if cfg.fill {
		next = t0.UnixNano() + period
		if cfg.align && every > 0 {
			first := next
			next = verifTruncRef(next, every)
			if next <= first {
				next += every
			}
		}
	} else {
		next = t0.UnixNano() + every
		if cfg.align {
			next = verifTruncRef(next, every)
		}
	}
	var seen []verifPt
	type emittedWin struct {
		pts  []edge.BatchPointMessage
		want []verifPt
	}
	var sent []emittedWin // edges are buffered: a consumer may read a window after later points arrived
	t := t0.UnixNano()
	for i := 0; i < k; i++ {
		if i > 0 {
			t += int64(v.IntRange("dt", 0, 24))
		}
		// a step is a point or (barriers=1) a barrier: data time advances without a point, which
		// is how a silence reaches the window
		isBarrier := barriers && v.Choose("barrier", 2) == 1
		var msg edge.Message
		var err error
		if isBarrier {
			msg, err = w.Barrier(edge.NewBarrierMessage(group, time.Unix(0, t).UTC()))
		} else {
			msg, err = w.Point(edge.NewPointMessage("m", "db", "rp", dims, models.Fields{"i": int64(i)}, tags, time.Unix(0, t).UTC()))
		}
		v.Assert(err == nil, "no error")
		var want []verifPt
		emit := false
		var tmax int64
		if every == 0 {
			// right-aligned window emitted on every point once the schedule has started
			// (with fillPeriod the first emission waits for a full period)
			if !isBarrier {
				seen = append(seen, verifPt{t, int64(i)})
			}
			if t >= next {
				emit = true
				tmax = t
				next = t
				for _, s := range seen {
					if s.t > t-period && s.t <= t {
						want = append(want, s)
					}
				}
			}
		} else {
			if t >= next {
				emit = true
				tmax = next
				for _, s := range seen {
					if s.t >= next-period && s.t < next {
						want = append(want, s)
					}
				}
				next = t + every
				if cfg.align {
					next = verifTruncRef(next, every)
				}
			}
			if !isBarrier {
				seen = append(seen, verifPt{t, int64(i)})
			}
		}
		v.Observe("emit", msg != nil)
		v.Assert((msg != nil) == emit, "emission happens exactly on the reference schedule")
		if msg != nil && emit {
			b, ok := msg.(edge.BufferedBatchMessage)
			v.Assert(ok, "emission is a buffered batch")
			v.Observe("tmax", b.Time().UnixNano())
			v.Assert(b.Time().UnixNano() == tmax, "batch end time T")
			pts := b.Points()
			v.Assert(len(pts) == len(want), "window holds exactly the points in [T-period, T)")
			if len(pts) == len(want) {
				for j := range pts {
					v.Assert(pts[j].Time().UnixNano() == want[j].t && pts[j].Fields()["i"] == interface{}(want[j].i), "points in arrival order")
					v.Assert(pts[j].Tags()["host"] == "a", "point tags kept")
				}
			}
			v.Assert(b.Name() == "m" && b.Tags()["host"] == "a" && len(b.Tags()) == 1 && !b.Dimensions().ByName && b.Begin().SizeHint() == len(pts), "batch carries the group's name/tags/size")
			v.Assert(b.GroupID() == group.ID, "batch group id")
			sent = append(sent, emittedWin{pts, want})
		}
	}
	for _, e := range sent {
		for j := range e.pts {
			if j < len(e.want) {
				v.Assert(e.pts[j].Time().UnixNano() == e.want[j].t && e.pts[j].Fields()["i"] == interface{}(e.want[j].i), "an emitted window is not changed by later points")
			}
		}
	}
	v.Reach("end")
}

// VerifC03TimeBufferStep: inductive step of the window ring buffer from an arbitrary
// state satisfying the representation invariant.
func VerifC03TimeBufferStep(v *vrt.T) {
	capChoices := []int{1, 2, 3, 4}
	C := capChoices[v.Choose("cap", len(capChoices))]
	L := 1 + v.Choose("len", C) // 1..C
	inclusive := v.Choose("inclusive", 2) == 1
	base := verifT2020
	lastOldest := v.Time("lastOldest", base-16, base+16).UnixNano()
	include := func(t, oldest int64) bool {
		if inclusive {
			return t >= oldest
		}
		return t > oldest
	}
	_, dims, tags := verifWinGroup()
	mk := func(t int64, i int64) edge.PointMessage {
		return edge.NewPointMessage("m", "db", "rp", dims, models.Fields{"i": i}, tags, time.Unix(0, t).UTC())
	}
	// shape: wrapped regions only exist when L == C
	var start, stop, size int
	if L < C {
		stop = L
		start = v.Choose("start", L+1)
		size = stop - start
	} else {
		stop = 1 + v.Choose("stop", L) // 1..L
		start = v.Choose("start", L+1)  // 0..L
		switch {
		case start < stop:
			size = stop - start
		case start == stop:
			if v.Choose("full", 2) == 1 {
				size = L
			} else {
				size = 0
			}
		default:
			size = L - start + stop
		}
	}
	b := &windowTimeBuffer{window: make([]edge.PointMessage, L, C), start: start, stop: stop, size: size, diag: &verifNopDiag{}}
	live := make([]bool, L)
	for j := 0; j < size; j++ {
		live[(start+j)%L] = true
	}
	ts := make([]int64, L)
	for j := 0; j < L; j++ {
		ts[j] = v.Time("slot", base-32, base+32).UnixNano()
		b.window[j] = mk(ts[j], int64(j))
		if live[j] {
			v.Assume(include(ts[j], lastOldest))
		} else {
			v.Assume(!include(ts[j], lastOldest))
		}
	}
	var model []verifPt
	for j := 0; j < size; j++ {
		idx := (start + j) % L
		if j > 0 {
			v.Assume(ts[idx] >= ts[(start+j-1)%L])
		}
		model = append(model, verifPt{ts[idx], int64(idx)})
	}

	if v.Choose("op", 2) == 0 {
		tn := v.Time("new", base-32, base+32).UnixNano()
		if len(model) > 0 {
			v.Assume(tn >= model[len(model)-1].t)
		}
		v.Assume(include(tn, lastOldest))
		b.insert(mk(tn, 100))
		model = append(model, verifPt{tn, 100})
	} else {
		oldest := v.Time("oldest", base-32, base+32).UnixNano()
		v.Assume(oldest >= lastOldest)
		b.purge(time.Unix(0, oldest).UTC(), inclusive)
		for len(model) > 0 && !include(model[0].t, oldest) {
			model = model[1:]
		}
		lastOldest = oldest
	}
	// abstract content
	pts := b.points()
	v.Observe("n", len(pts))
	v.Assert(b.size == len(model) && len(pts) == len(model), "buffer holds exactly the surviving points")
	if len(pts) == len(model) {
		for j := range pts {
			v.Assert(pts[j].Time().UnixNano() == model[j].t && pts[j].Fields()["i"] == interface{}(model[j].i), "surviving points in arrival order")
		}
	}
	// the representation invariant is re-established
	L2 := len(b.window)
	v.Assert(L2 >= 1 && L2 <= cap(b.window) && b.start >= 0 && b.start <= L2 && b.stop >= 1 && b.stop <= L2, "index invariant")
	switch {
	case b.size == 0:
		v.Assert(b.start == b.stop, "empty: start == stop")
	case b.start < b.stop:
		v.Assert(b.size == b.stop-b.start, "unwrapped: size == stop-start")
	default:
		v.Assert(b.size == L2-b.start+b.stop && L2 == cap(b.window), "wrapped: size == len-start+stop, buffer full-length")
	}
	if L2 < cap(b.window) {
		v.Assert(b.stop == L2, "growing phase: stop == len")
	}
	live2 := make([]bool, L2)
	for j := 0; j < b.size; j++ {
		live2[(b.start+j)%L2] = true
	}
	for j := 0; j < L2; j++ {
		tj := b.window[j].Time().UnixNano()
		v.Assert(live2[j] == include(tj, lastOldest), "live slots are exactly the slots not yet expired")
	}
	v.Reach("end")
}

// VerifC03CountWindow: count window against "last min(k, period) points, every everyCount points".
func VerifC03CountWindow(v *vrt.T) {
	period := 1 + v.Choose("period", 4)
	every := 1 + v.Choose("every", 4)
	fill := v.Choose("fill", 2) == 1
	k := v.Bound("points", 9)
	group, dims, tags := verifWinGroup()
	w := newWindowByCount("m", group, period, every, fill, &verifNopDiag{})
	nextEmit := every
	if fill {
		nextEmit = period
	}
	t := v.Time("t0", verifT2020-64, verifT2020+64).UnixNano()
	var seen []verifPt
	type emitted struct {
		pts  []edge.BatchPointMessage
		want []verifPt
	}
	var sent []emitted // edges are buffered: a consumer may read a window after later points arrived
	for i := 1; i <= k; i++ {
		t += int64(v.IntRange("dt", 0, 5))
		msg, err := w.Point(edge.NewPointMessage("m", "db", "rp", dims, models.Fields{"i": int64(i)}, tags, time.Unix(0, t).UTC()))
		v.Assert(err == nil, "no error")
		seen = append(seen, verifPt{t, int64(i)})
		emit := i == nextEmit
		if emit {
			nextEmit += every
		}
		v.Assert((msg != nil) == emit, "emitted every everyCount points")
		if msg != nil && emit {
			b := msg.(edge.BufferedBatchMessage)
			n := i
			if n > period {
				n = period
			}
			want := seen[len(seen)-n:]
			pts := b.Points()
			v.Observe("n", len(pts))
			v.Assert(len(pts) == n, "contains the last min(k, period) points")
			if len(pts) == n {
				for j := range pts {
					v.Assert(pts[j].Time().UnixNano() == want[j].t && pts[j].Fields()["i"] == interface{}(want[j].i), "count window points in order")
				}
			}
			v.Assert(b.Time().UnixNano() == t && b.Name() == "m" && b.Tags()["host"] == "a" && b.GroupID() == group.ID, "count window batch metadata")
			sent = append(sent, emitted{pts, want})
		}
	}
	for _, e := range sent {
		for j := range e.pts {
			if j < len(e.want) {
				v.Assert(e.pts[j].Time().UnixNano() == e.want[j].t && e.pts[j].Fields()["i"] == interface{}(e.want[j].i), "an emitted count window is not changed by later points")
			}
		}
	}
	v.Reach("end")
}
