package kapacitor

import (
	"github.com/influxdata/kapacitor/alert"
	"github.com/influxdata/kapacitor/edge"
	"github.com/influxdata/kapacitor/tick/ast"
	"github.com/influxdata/kapacitor/tick/stateful"
	vrt "github.com/influxdata/kapacitor/zz_vrt"
)

// VerifC06IsoAlert: alert levels of one group do not depend on the points of another group,
// also when the level condition uses a stateful function (count(), sigma(), ...): the
// per-group state of a level expression must not be shared between groups.
func VerifC06IsoAlert(v *vrt.T) {
	li := v.Choose("lambda", 4)
	// 3: the stateful function sits in the reset condition: .crit(lambda: "v" > 0).critReset(lambda: count() > 1)
	lam := []func() *ast.LambdaNode{verifC06LambdaPositive, verifC06LambdaCount, verifC06LambdaPositiveAndCount, verifC06LambdaPositive}[li]
	mk := func(out *verifC06Out) edge.GroupedReceiver {
		cfg := verifC01Cfg{anon: true, history: 2, augment: 2}
		cfg.level[alert.Critical] = true
		cfg.reset[alert.Critical] = li == 3
		an := verifC01Node(cfg, &verifC01AlertSvc{}, &verifNopDiag{})
		l := lam()
		expr, err := stateful.NewExpression(l.Expression)
		v.Assert(err == nil, "level expression compiles")
		an.levels[alert.Critical] = expr
		an.scopePools[alert.Critical] = stateful.NewScopePool(ast.FindReferenceVariables(l.Expression))
		if li == 3 {
			r := verifC06LambdaCount()
			rexpr, err := stateful.NewExpression(r.Expression)
			v.Assert(err == nil, "reset expression compiles")
			an.levelResets[alert.Critical] = rexpr
			an.lrScopePools[alert.Critical] = stateful.NewScopePool(ast.FindReferenceVariables(r.Expression))
		}
		verifC06Wire(&an.node, out)
		return an
	}
	verifC06Isolation(v, mk, verifC06Points(v, v.Bound("points", 4), []int{0}, 6))
}
