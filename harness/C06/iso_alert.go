package kapacitor

import (
	"github.com/influxdata/kapacitor/alert"
	"github.com/influxdata/kapacitor/edge"
	"github.com/influxdata/kapacitor/tick/ast"
	"github.com/influxdata/kapacitor/tick/stateful"
	vrt "github.com/influxdata/kapacitor/zz_vrt"
)

// VerifC06IsoAlert: alert levels of one group do not depend on the points of another group,
// also when the level condition uses a stateful function (count(), sigma(), ...): the
// per-group state of a level expression must not be shared between groups.
func VerifC06IsoAlert(v *vrt.T) {
	lam := []func() *ast.LambdaNode{verifC06LambdaPositive, verifC06LambdaCount, verifC06LambdaPositiveAndCount}[v.Choose("lambda", 3)]
	mk := func(out *verifC06Out) edge.GroupedReceiver {
		cfg := verifC01Cfg{anon: true, history: 2, augment: 2}
		cfg.level[alert.Critical] = true
		an := verifC01Node(cfg, &verifC01AlertSvc{}, &verifNopDiag{})
		l := lam()
		expr, err := stateful.NewExpression(l.Expression)
		v.Assert(err == nil, "level expression compiles")
		an.levels[alert.Critical] = expr
		an.scopePools[alert.Critical] = stateful.NewScopePool(ast.FindReferenceVariables(l.Expression))
		verifC06Wire(&an.node, out)
		return an
	}
	verifC06Isolation(v, mk, verifC06Points(v, v.Bound("points", 4), []int{0}, 6))
}
