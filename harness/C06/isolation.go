package kapacitor

import (
	"time"

	"github.com/influxdata/kapacitor/edge"
	kexpvar "github.com/influxdata/kapacitor/expvar"
	"github.com/influxdata/kapacitor/models"
	"github.com/influxdata/kapacitor/pipeline"
	"github.com/influxdata/kapacitor/tick/ast"
	vrt "github.com/influxdata/kapacitor/zz_vrt"
)

// ---- stubs: in-edge with prepared messages, recording out-edge, no-op timer ----------

type verifC06In struct {
	msgs []edge.Message
	pos  int
}

func (e *verifC06In) Collect(edge.Message) error { return nil }
func (e *verifC06In) Emit() (edge.Message, bool) {
	if e.pos >= len(e.msgs) {
		return nil, false
	}
	m := e.msgs[e.pos]
	e.pos++
	return m, true
}
func (e *verifC06In) Close() error            { return nil }
func (e *verifC06In) Abort()                  {}
func (e *verifC06In) Type() pipeline.EdgeType { return pipeline.StreamEdge }

type verifC06Out struct {
	verifC06In
	got []edge.Message
}

func (e *verifC06Out) Collect(m edge.Message) error          { e.got = append(e.got, m); return nil }
func (e *verifC06Out) Collected() int64                      { return int64(len(e.got)) }
func (e *verifC06Out) Emitted() int64                        { return 0 }
func (e *verifC06Out) CollectedVar() kexpvar.IntVar          { return new(kexpvar.Int) }
func (e *verifC06Out) EmittedVar() kexpvar.IntVar            { return new(kexpvar.Int) }
func (e *verifC06Out) ReadGroupStats(func(*edge.GroupStats)) {}

type verifC06Timer struct{}

func (verifC06Timer) Start()  {}
func (verifC06Timer) Pause()  {}
func (verifC06Timer) Resume() {}
func (verifC06Timer) Stop()   {}

// ---- input model ---------------------------------------------------------------------

// One input point: group 0 or 1 (tag host = "A" / "B"), a timestamp and the field "v"
// holding an int64, a float64 or a string (wrong type for the numeric nodes).
type verifC06Pt struct {
	g    int
	t    int64
	kind int // 0 int64, 1 float64, 2 string
	i    int64
	f    float64
}

var verifC06Hosts = []string{"A", "B"}
var verifC06Dims = models.Dimensions{TagNames: []string{"host"}}

func (p verifC06Pt) msg(seq int) edge.PointMessage {
	var val interface{}
	switch p.kind {
	case 0:
		val = p.i
	case 1:
		val = p.f
	default:
		val = "s"
	}
	return edge.NewPointMessage("m", "db", "rp", verifC06Dims,
		models.Fields{"v": val, "seq": int64(seq)},
		models.Tags{"host": verifC06Hosts[p.g], "dc": "x"}, time.Unix(0, p.t).UTC())
}

// verifC06Points: k points, each assigned to one of the two groups (Choose: every
// interleaving), with globally non-decreasing symbolic timestamps and symbolic values;
// kinds = admissible value kinds (0 int64 in [-4,4], 1 any float64, 2 a string).
func verifC06Points(v *vrt.T, k int, kinds []int, maxGap int) []verifC06Pt {
	pts := make([]verifC06Pt, k)
	t := v.Time("t0", verifT2020-8, verifT2020+8).UnixNano()
	for i := range pts {
		if i > 0 {
			t += int64(v.IntRange("dt", 0, maxGap))
		}
		p := verifC06Pt{g: v.Choose("group", 2), t: t}
		p.kind = kinds[0]
		if len(kinds) > 1 {
			p.kind = kinds[v.Choose("kind", len(kinds))]
		}
		switch p.kind {
		case 0:
			p.i = int64(v.IntRange("i", -4, 4))
		case 1:
			p.f = v.Float64("f")
		}
		pts[i] = p
	}
	return pts
}

// verifC06Run drives a fresh node (its real NewGroup behind a real groupedConsumer and
// consumer loop) with the given points and returns what the node sent to its out-edge.
func verifC06Run(v *vrt.T, mk func(out *verifC06Out) edge.GroupedReceiver, pts []verifC06Pt, only int) []edge.Message {
	out := &verifC06Out{}
	in := &verifC06In{}
	for seq, p := range pts {
		if only < 0 || p.g == only {
			in.msgs = append(in.msgs, p.msg(seq))
		}
	}
	c := edge.NewGroupedConsumer(in, mk(out))
	err := c.Consume()
	v.Assert(err == nil, "node does not fail")
	return out.got
}

// verifC06AssertSameValue: equal field values; two float64 are the same when they compare
// equal or are both NaN (stated as two XOR facts so that no path fork and no bit-level
// NaN payload is involved; +0 and -0 are not told apart).
func verifC06AssertSameValue(v *vrt.T, a, b interface{}) {
	fa, oka := a.(float64)
	fb, okb := b.(float64)
	if oka || okb {
		v.Assert(oka && okb, "same field types")
		v.Assert((fa == fb) != (fa != fa), "same field values")
		v.Assert((fa == fb) != (fb != fb), "same field values")
		return
	}
	v.Assert(a == b, "same field values")
}

func verifC06SameFields(v *vrt.T, a, b models.Fields) {
	v.Assert(len(a) == len(b), "same field set")
	for k, x := range a {
		y, ok := b[k]
		v.Assert(ok, "same field set")
		verifC06AssertSameValue(v, x, y)
	}
}

func verifC06SameTags(v *vrt.T, a, b models.Tags) {
	v.Assert(len(a) == len(b), "same tag set")
	for k, x := range a {
		y, ok := b[k]
		v.Assert(ok && x == y, "same tags")
	}
}

// verifC06SameMsg asserts that two output messages carry the same data.
func verifC06SameMsg(v *vrt.T, a, b edge.Message) {
	v.Assert(a.Type() == b.Type(), "same kind of output message")
	switch x := a.(type) {
	case edge.PointMessage:
		y := b.(edge.PointMessage)
		v.Assert(x.Name() == y.Name() && x.GroupID() == y.GroupID() && x.Time().Equal(y.Time()), "same name, group and time")
		verifC06SameTags(v, x.Tags(), y.Tags())
		verifC06SameFields(v, x.Fields(), y.Fields())
	case edge.BufferedBatchMessage:
		y := b.(edge.BufferedBatchMessage)
		v.Assert(x.Name() == y.Name() && x.GroupID() == y.GroupID() && x.Time().Equal(y.Time()), "same name, group and time")
		verifC06SameTags(v, x.Tags(), y.Tags())
		v.Assert(len(x.Points()) == len(y.Points()), "same number of points in the emitted batch")
		for i := range x.Points() {
			p, q := x.Points()[i], y.Points()[i]
			v.Assert(p.Time().Equal(q.Time()), "same batch point time")
			verifC06SameTags(v, p.Tags(), q.Tags())
			verifC06SameFields(v, p.Fields(), q.Fields())
		}
	default:
		v.Fail("unexpected output message kind")
	}
}

// verifC06Isolation: the output restricted to group g of the run with both groups
// interleaved equals the output of a fresh node fed group g's points alone.
func verifC06Isolation(v *vrt.T, mk func(out *verifC06Out) edge.GroupedReceiver, pts []verifC06Pt) {
	full := verifC06Run(v, mk, pts, -1)
	v.Observe("outputs", len(full))
	for g := 0; g < 2; g++ {
		id := models.ToGroupID("m", models.Tags{"host": verifC06Hosts[g]}, verifC06Dims)
		var mine []edge.Message
		for _, m := range full {
			gi, ok := m.(edge.GroupIDGetter)
			v.Assert(ok, "output carries a group")
			if gi.GroupID() == id {
				mine = append(mine, m)
			}
		}
		solo := verifC06Run(v, mk, pts, g)
		v.Assert(len(mine) == len(solo), "same number of outputs for the group with and without the other group")
		for i := range solo {
			verifC06SameMsg(v, mine[i], solo[i])
		}
	}
	v.Reach("end")
}

func verifC06Wire(n *node, out *verifC06Out) {
	n.outs = []edge.StatsEdge{out}
	n.timer = verifC06Timer{}
}

// lambda: "v" > 0
func verifC06LambdaPositive() *ast.LambdaNode {
	return &ast.LambdaNode{Expression: &ast.BinaryNode{
		Operator: ast.TokenGreater,
		Left:     &ast.ReferenceNode{Reference: "v"},
		Right:    &ast.NumberNode{IsInt: true, Int64: 0},
	}}
}

// lambda: count() > 1   (count() is a stateful function: per-expression state)
func verifC06LambdaCount() *ast.LambdaNode {
	return &ast.LambdaNode{Expression: &ast.BinaryNode{
		Operator: ast.TokenGreater,
		Left:     &ast.FunctionNode{Type: ast.GlobalFunc, Func: "count"},
		Right:    &ast.NumberNode{IsInt: true, Int64: 1},
	}}
}

// lambda: "v" > 0 AND count() > 1   (count() only advances on points with v > 0)
func verifC06LambdaPositiveAndCount() *ast.LambdaNode {
	return &ast.LambdaNode{Expression: &ast.BinaryNode{
		Operator: ast.TokenAnd,
		Left:     verifC06LambdaPositive().Expression,
		Right:    verifC06LambdaCount().Expression,
	}}
}

func VerifC06IsoStateCount(v *vrt.T) {
	lam := []func() *ast.LambdaNode{verifC06LambdaPositive, verifC06LambdaCount}[v.Choose("lambda", 2)]
	mk := func(out *verifC06Out) edge.GroupedReceiver {
		n, err := newStateCountNode(nil, &pipeline.StateCountNode{Lambda: lam(), As: "state_count"}, &verifNopDiag{})
		v.Assert(err == nil, "node constructed")
		verifC06Wire(&n.node, out)
		return n
	}
	verifC06Isolation(v, mk, verifC06Points(v, v.Bound("points", 4), []int{0, 1}, 6))
}

func VerifC06IsoStateDuration(v *vrt.T) {
	mk := func(out *verifC06Out) edge.GroupedReceiver {
		n, err := newStateDurationNode(nil, &pipeline.StateDurationNode{Lambda: verifC06LambdaPositive(), As: "state_duration", Unit: time.Nanosecond}, &verifNopDiag{})
		v.Assert(err == nil, "node constructed")
		verifC06Wire(&n.node, out)
		return n
	}
	verifC06Isolation(v, mk, verifC06Points(v, v.Bound("points", 4), []int{0, 1}, 6))
}

func VerifC06IsoDerivative(v *vrt.T) {
	nonNeg := v.Choose("nonNegative", 2) == 1
	mk := func(out *verifC06Out) edge.GroupedReceiver {
		n, err := newDerivativeNode(nil, &pipeline.DerivativeNode{Field: "v", As: "d", Unit: time.Nanosecond, NonNegativeFlag: nonNeg}, &verifNopDiag{})
		v.Assert(err == nil, "node constructed")
		verifC06Wire(&n.node, out)
		return n
	}
	verifC06Isolation(v, mk, verifC06Points(v, v.Bound("points", 4), []int{0, 2}, 6))
}

func VerifC06IsoChangeDetect(v *vrt.T) {
	mk := func(out *verifC06Out) edge.GroupedReceiver {
		n, err := newChangeDetectNode(nil, &pipeline.ChangeDetectNode{Fields: []string{"v"}}, &verifNopDiag{})
		v.Assert(err == nil, "node constructed")
		verifC06Wire(&n.node, out)
		return n
	}
	verifC06Isolation(v, mk, verifC06Points(v, v.Bound("points", 4), []int{0, 1, 2}, 6))
}

func VerifC06IsoSample(v *vrt.T) {
	cfg := []pipeline.SampleNode{{N: 2}, {N: 3}, {Duration: 4}}[v.Choose("rate", 3)]
	mk := func(out *verifC06Out) edge.GroupedReceiver {
		c := cfg
		n, err := newSampleNode(nil, &c, &verifNopDiag{})
		v.Assert(err == nil, "node constructed")
		verifC06Wire(&n.node, out)
		return n
	}
	verifC06Isolation(v, mk, verifC06Points(v, v.Bound("points", 4), []int{0}, 6))
}

func VerifC06IsoWindow(v *vrt.T) {
	cfg := []pipeline.WindowNode{
		{Period: 10, Every: 4}, {Period: 6, Every: 6, AlignFlag: true}, {Period: 5, Every: 3, FillPeriodFlag: true},
		{PeriodCount: 2, EveryCount: 1}, {PeriodCount: 2, EveryCount: 2, FillPeriodFlag: true},
	}[v.Choose("window", 5)]
	mk := func(out *verifC06Out) edge.GroupedReceiver {
		c := cfg
		n, err := newWindowNode(nil, &c, &verifNopDiag{})
		v.Assert(err == nil, "node constructed")
		verifC06Wire(&n.node, out)
		return n
	}
	verifC06Isolation(v, mk, verifC06Points(v, v.Bound("points", 4), []int{0}, 6))
}

func VerifC06IsoWhere(v *vrt.T) {
	mk := func(out *verifC06Out) edge.GroupedReceiver {
		n, err := newWhereNode(nil, &pipeline.WhereNode{Lambda: verifC06LambdaPositiveAndCount()}, &verifNopDiag{})
		v.Assert(err == nil, "node constructed")
		verifC06Wire(&n.node, out)
		return n
	}
	verifC06Isolation(v, mk, verifC06Points(v, v.Bound("points", 4), []int{0, 1, 2}, 6))
}
