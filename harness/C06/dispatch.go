package edge

import (
	"time"

	"github.com/influxdata/kapacitor/models"
	"github.com/influxdata/kapacitor/pipeline"
	vrt "github.com/influxdata/kapacitor/zz_vrt"
)

// ---- recording stubs -------------------------------------------------------------

// verifC06Ev is one call observed by the stubs: NewGroup on the grouped receiver
// (kind "new") or a Receiver method on the receiver with index recv.
type verifC06Ev struct {
	recv int
	kind string
	msg  interface{} // the message passed (nil for Done)
	id   models.GroupID
}

type verifC06GR struct {
	log      []verifC06Ev
	n        int
	buffered bool
}

func (g *verifC06GR) NewGroup(group GroupInfo, first PointMeta) (Receiver, error) {
	idx := g.n
	g.n++
	g.log = append(g.log, verifC06Ev{recv: idx, kind: "new", msg: first, id: group.ID})
	r := &verifC06Recv{g: g, idx: idx}
	if g.buffered {
		return &verifC06BufRecv{r}, nil
	}
	return r, nil
}

type verifC06Recv struct {
	g   *verifC06GR
	idx int
}

func (r *verifC06Recv) rec(kind string, msg interface{}) error {
	r.g.log = append(r.g.log, verifC06Ev{recv: r.idx, kind: kind, msg: msg})
	return nil
}
func (r *verifC06Recv) BeginBatch(m BeginBatchMessage) error   { return r.rec("begin", m) }
func (r *verifC06Recv) BatchPoint(m BatchPointMessage) error   { return r.rec("bp", m) }
func (r *verifC06Recv) EndBatch(m EndBatchMessage) error       { return r.rec("end", nil) }
func (r *verifC06Recv) Point(m PointMessage) error             { return r.rec("point", m) }
func (r *verifC06Recv) Barrier(m BarrierMessage) error         { return r.rec("barrier", m) }
func (r *verifC06Recv) DeleteGroup(m DeleteGroupMessage) error { return r.rec("delete", m) }
func (r *verifC06Recv) Done()                                  { r.rec("done", nil) }

type verifC06BufRecv struct{ *verifC06Recv }

func (r *verifC06BufRecv) BufferedBatch(m BufferedBatchMessage) error { return r.rec("buffered", m) }

// verifC06Edge emits a prepared message list and then reports the edge as closed.
type verifC06Edge struct {
	msgs []Message
	pos  int
}

func (e *verifC06Edge) Collect(Message) error { return nil }
func (e *verifC06Edge) Emit() (Message, bool) {
	if e.pos >= len(e.msgs) {
		return nil, false
	}
	m := e.msgs[e.pos]
	e.pos++
	return m, true
}
func (e *verifC06Edge) Close() error            { return nil }
func (e *verifC06Edge) Abort()                  {}
func (e *verifC06Edge) Type() pipeline.EdgeType { return pipeline.StreamEdge }

// ---- harness ---------------------------------------------------------------------

type verifC06Live struct {
	val  string
	recv int
}

// VerifC06Dispatch: a real groupedConsumer (driven by the real consumer loop over a stub
// edge) receives k units, each a point, a barrier, an unbuffered batch (begin, one
// point, end), a buffered batch or a delete-group message, each for the group of a
// symbolic 1-byte tag value, so the solver decides which units share a group. The calls
// observed by a recording GroupedReceiver and its receivers must be exactly those of
// the reference: a group not currently live gets NewGroup (with the unit's group ID and
// first message) immediately before its first message, every message is delivered to
// the receiver of its own group and to no other, DeleteGroup goes to the live receiver
// and makes the group not live (a later message creates a fresh receiver; deleting an
// unknown group does nothing), and at the end Done reaches exactly the live receivers.
func VerifC06Dispatch(v *vrt.T) {
	k := v.Bound("units", 4)
	gr := &verifC06GR{buffered: v.Choose("bufferedReceiver", 2) == 1}
	dims := models.Dimensions{TagNames: []string{"host"}}

	var msgs []Message
	var want []verifC06Ev
	var live []verifC06Live
	nrecv := 0
	for i := 0; i < k; i++ {
		val := v.String("host", 1)
		kind := v.Choose("kind", 5)
		tm := time.Unix(int64(i), 0).UTC()
		p := NewPointMessage("m", "db", "rp", dims, models.Fields{"i": int64(i)}, models.Tags{"host": val, "other": "o"}, tm)
		id := p.GroupID()
		// reference: which receiver serves this group now
		at := -1
		for j := range live {
			if live[j].val == val {
				at = j
			}
		}
		if kind == 4 {
			d := NewDeleteGroupMessage(p.GroupInfo())
			msgs = append(msgs, d)
			if at >= 0 {
				want = append(want, verifC06Ev{recv: live[at].recv, kind: "delete", msg: d})
				live = append(live[:at:at], live[at+1:]...)
			}
			continue
		}
		var first interface{}
		var deliver []verifC06Ev
		switch kind {
		case 0:
			msgs = append(msgs, p)
			first = p
			deliver = []verifC06Ev{{kind: "point", msg: p}}
		case 1:
			b := NewBarrierMessage(p.GroupInfo(), tm)
			msgs = append(msgs, b)
			first = b
			deliver = []verifC06Ev{{kind: "barrier", msg: b}}
		case 2, 3:
			begin := NewBeginBatchMessage("m", models.Tags{"host": val}, false, tm, 1)
			bp := NewBatchPointMessage(models.Fields{"i": int64(i)}, models.Tags{"host": val, "other": "o"}, tm)
			end := NewEndBatchMessage()
			v.Assert(begin.GroupID() == id, "a batch and a point with the same group-by tag value have the same group ID")
			first = begin
			if kind == 2 {
				msgs = append(msgs, begin, bp, end)
				deliver = []verifC06Ev{{kind: "begin", msg: begin}, {kind: "bp", msg: bp}, {kind: "end"}}
			} else {
				bb := NewBufferedBatchMessage(begin, []BatchPointMessage{bp}, end)
				msgs = append(msgs, bb)
				if gr.buffered {
					deliver = []verifC06Ev{{kind: "buffered", msg: bb}}
				} else {
					deliver = []verifC06Ev{{kind: "begin", msg: begin}, {kind: "bp", msg: bp}, {kind: "end"}}
				}
			}
		}
		recv := 0
		if at >= 0 {
			recv = live[at].recv
		} else {
			recv = nrecv
			nrecv++
			live = append(live, verifC06Live{val: val, recv: recv})
			want = append(want, verifC06Ev{recv: recv, kind: "new", msg: first, id: id})
		}
		for _, e := range deliver {
			e.recv = recv
			want = append(want, e)
		}
	}

	e := &verifC06Edge{msgs: msgs}
	c := NewGroupedConsumer(e, gr)
	err := c.Consume()
	v.Assert(err == nil, "no error")

	got := gr.log
	v.Observe("calls", len(got), gr.n, c.CardinalityVar().IntValue())
	v.Assert(gr.n == nrecv, "NewGroup is called once per group that becomes live")
	v.Assert(len(got) == len(want)+len(live), "no call beyond the expected deliveries and one Done per live group")
	for i := range want {
		g, w := got[i], want[i]
		v.Assert(g.kind == w.kind && g.recv == w.recv, "every message is delivered, in order, to the receiver of its own group only")
		if w.kind != "end" {
			v.Assert(g.msg == w.msg, "the delivered message is the one that was sent")
		}
		if w.kind == "new" {
			v.Assert(g.id == w.id, "NewGroup is told the group ID of the triggering message")
		}
	}
	// Done: after everything else, exactly once for each receiver that is still live
	doneCount := make([]int, nrecv)
	for i := len(want); i < len(got); i++ {
		v.Assert(got[i].kind == "done", "only Done calls follow the last message")
		doneCount[got[i].recv]++
	}
	for r := 0; r < nrecv; r++ {
		isLive := 0
		for _, l := range live {
			if l.recv == r {
				isLive = 1
			}
		}
		v.Assert(doneCount[r] == isLive, "Done reaches exactly the receivers of live groups")
	}
	v.Assert(c.CardinalityVar().IntValue() == int64(len(live)), "cardinality gauge equals the number of live groups")
	v.Reach("end")
}
