package models

import (
	vrt "github.com/influxdata/kapacitor/zz_vrt"
)

// One point as far as grouping is concerned: measurement name and, per candidate tag
// key (verifC06Keys, sorted), whether the tag is present and its value.
type verifC06Point struct {
	name    string
	present []bool
	val     []string
}

var verifC06Keys = []string{"a", "b", "c"}

func verifC06NoNewline(s string) bool {
	for i := 0; i < len(s); i++ {
		if s[i] == '\n' {
			return false
		}
	}
	return true
}

// verifC06ReadPoint: name of 0..2 arbitrary bytes except '\n' (ToGroupID documents that
// the name cannot contain it; when not grouping by measurement the name takes no part
// and is one arbitrary byte); for each of the first nkeys candidate keys the tag is
// absent or present with a value of 0..maxv arbitrary bytes.
func verifC06ReadPoint(v *vrt.T, byName bool, nkeys, maxv int) verifC06Point {
	p := verifC06Point{}
	if byName {
		p.name = v.String("name", v.Choose("namelen", 3))
	} else {
		p.name = v.String("name", 1)
	}
	v.Assume(verifC06NoNewline(p.name))
	for k := 0; k < nkeys; k++ {
		n := v.Choose("vlen", maxv+2) // maxv+1 = absent
		if n == maxv+1 {
			p.present = append(p.present, false)
			p.val = append(p.val, "")
			continue
		}
		p.present = append(p.present, true)
		p.val = append(p.val, v.String("val", n))
	}
	return p
}

func (p verifC06Point) tags() map[string]string {
	t := map[string]string{}
	for k := range p.val {
		if p.present[k] {
			t[verifC06Keys[k]] = p.val[k]
		}
	}
	return t
}

// verifC06Same is the reference group identity written from the property text: same
// measurement (when grouping by measurement) and the same value for every group-by tag.
// dims1/dims2 are the indices (into verifC06Keys) of the group-by tags of each point.
// A tag that is absent and a tag that is present but empty are told apart by `strict`
// and identified by `lax`; the harness only asserts where both readings agree.
func verifC06Same(p, q verifC06Point, byName bool, dims1, dims2 []int, strict bool) bool {
	if byName && p.name != q.name {
		return false
	}
	if len(dims1) != len(dims2) {
		return false
	}
	for i := range dims1 {
		if dims1[i] != dims2[i] {
			return false
		}
		k := dims1[i]
		if strict && p.present[k] != q.present[k] {
			return false
		}
		if p.val[k] != q.val[k] {
			return false
		}
	}
	return true
}

// verifC06ExtendsBySeparator is one half of the class predicate of the recorded finding
// C06-groupid-separator-in-value: the serialisations of p and q agree on every
// group-by tag before position i, the i-th group-by tag is the same key, and p's value
// there is q's value followed by ",<q's next group-by key>=" (and anything). These are
// exactly the inputs on which the unescaped "k=v,k=v" form can be re-split differently.
func verifC06ExtendsBySeparator(p, q verifC06Point, dp, dq []int) bool {
	in := false
	for i := 0; i < len(dp) && i+1 < len(dq); i++ {
		if dp[i] != dq[i] {
			break
		}
		k := dp[i]
		sep := q.val[k] + "," + verifC06Keys[dq[i+1]] + "="
		if len(p.val[k]) >= len(sep) && p.val[k][:len(sep)] == sep {
			in = true
		}
		if len(p.val[k]) != len(q.val[k]) || p.val[k] != q.val[k] {
			break
		}
	}
	return in
}

func verifC06Check(v *vrt.T, p, q verifC06Point, byName bool, dp, dq []int) {
	dimsP := Dimensions{ByName: byName}
	for _, k := range dp {
		dimsP.TagNames = append(dimsP.TagNames, verifC06Keys[k])
	}
	dimsQ := Dimensions{ByName: byName}
	for _, k := range dq {
		dimsQ.TagNames = append(dimsQ.TagNames, verifC06Keys[k])
	}
	idP := ToGroupID(p.name, p.tags(), dimsP)
	idQ := ToGroupID(q.name, q.tags(), dimsQ)
	strict := verifC06Same(p, q, byName, dp, dq, true)
	lax := verifC06Same(p, q, byName, dp, dq, false)
	v.Observe("ids equal", idP == idQ, len(idP), len(idQ))
	if strict {
		v.Assert(idP == idQ, "points agreeing on measurement and every group-by tag value get the same group ID")
	}
	if !lax {
		inClass := verifC06ExtendsBySeparator(p, q, dp, dq) || verifC06ExtendsBySeparator(q, p, dq, dp)
		v.AssertKnown(idP != idQ, "points differing in measurement or a group-by tag value get different group IDs", inClass, "C06-groupid-separator-in-value")
	}
}

// VerifC06GroupIDFixedDims: groupBy('a','b',...) with a fixed dimension list; two points
// with arbitrary names and tag values.
func VerifC06GroupIDFixedDims(v *vrt.T) {
	nd := v.Choose("ndims", v.Bound("dims", 2)+1)
	maxv := v.Bound("vbytes", 3)
	byName := v.Choose("byName", 2) == 1
	p := verifC06ReadPoint(v, byName, nd, maxv)
	q := verifC06ReadPoint(v, byName, nd, maxv)
	var dims []int
	for k := 0; k < nd; k++ {
		dims = append(dims, k)
	}
	verifC06Check(v, p, q, byName, dims, dims)
	v.Reach("end")
}

// VerifC06GroupIDAllDims: groupBy(*): the dimensions of each point are its own sorted
// tag keys (computed by the real SortedKeys, as group_by.go and NewBeginBatchMessage do).
func VerifC06GroupIDAllDims(v *vrt.T) {
	nk := v.Bound("keys", 2)
	maxv := v.Bound("vbytes", 3)
	byName := v.Choose("byName", 2) == 1
	p := verifC06ReadPoint(v, byName, nk, maxv)
	q := verifC06ReadPoint(v, byName, nk, maxv)
	idx := func(keys []string) []int {
		var out []int
		for _, s := range keys {
			for k, c := range verifC06Keys {
				if c == s {
					out = append(out, k)
				}
			}
		}
		return out
	}
	dp, dq := idx(SortedKeys(p.tags())), idx(SortedKeys(q.tags()))
	verifC06Check(v, p, q, byName, dp, dq)
	v.Reach("end")
}
