package edge

import (
	"time"

	"github.com/influxdata/kapacitor/models"
	vrt "github.com/influxdata/kapacitor/zz_vrt"
)

// VerifC06BatchBuffer: one BatchBuffer serves all groups of an edge (multiConsumer keeps
// one per parent edge, LogNode one per node). A buffered batch message it handed out for
// one group is still held downstream (union and join hold batches until the other parents
// catch up) when the next batches - of other groups - are buffered: the held message keeps
// exactly its own points and group.
func VerifC06BatchBuffer(v *vrt.T) {
	var buf BatchBuffer
	k := v.Bound("batches", 3)
	type held struct {
		msg  BufferedBatchMessage
		host string
		vals []int64
	}
	var out []held
	for b := 0; b < k; b++ {
		host := []string{"a", "b"}[v.Choose("group", 2)]
		n := v.Choose("points", v.Bound("points", 2)+1)
		hint := n
		if v.Choose("size hint 0", 2) == 1 {
			hint = 0 // where, eval, ... forward batches with an unknown size
		}
		begin := NewBeginBatchMessage("m", models.Tags{"host": host}, false, time.Unix(0, 1000).UTC(), hint)
		v.Assert(buf.BeginBatch(begin) == nil, "begin buffered")
		var vals []int64
		for i := 0; i < n; i++ {
			x := v.Int64("value")
			vals = append(vals, x)
			v.Assert(buf.BatchPoint(NewBatchPointMessage(models.Fields{"v": x}, models.Tags{"host": host}, time.Unix(0, int64(100*b+i)).UTC())) == nil, "point buffered")
		}
		out = append(out, held{buf.BufferedBatchMessage(NewEndBatchMessage()), host, vals})
	}
	for _, h := range out {
		pts := h.msg.Points()
		v.Assert(h.msg.Tags()["host"] == h.host, "a held batch keeps its group")
		v.Assert(len(pts) == len(h.vals) && h.msg.Begin().SizeHint() == len(h.vals), "a held batch keeps its number of points")
		if len(pts) == len(h.vals) {
			for i := range pts {
				v.Assert(pts[i].Fields()["v"] == interface{}(h.vals[i]) && pts[i].Tags()["host"] == h.host, "a held batch keeps exactly its own points")
			}
		}
	}
	v.Observe("batches", len(out))
	v.Reach("end")
}
