package kapacitor

import (
	"github.com/influxdata/kapacitor/edge"
	"github.com/influxdata/kapacitor/pipeline"
	vrt "github.com/influxdata/kapacitor/zz_vrt"
)

// VerifC06IsoInfluxQL: an aggregate (max / sum / count / first) of one group does not
// depend on the points of another group, also when the groups carry the aggregated field
// with different kinds (host a: int64, host b: float64): whatever the node caches per
// field kind must not leak from one group to the other.
func VerifC06IsoInfluxQL(v *vrt.T) {
	fn := v.Choose("fn", 4)
	mk := func(out *verifC06Out) edge.GroupedReceiver {
		src := pipeline.VerifC11StreamSource()
		var pn *pipeline.InfluxQLNode
		switch fn {
		case 0:
			pn = src.Max("v")
		case 1:
			pn = src.Sum("v")
		case 2:
			pn = src.Count("v")
		default:
			pn = src.First("v")
		}
		kn, err := newInfluxQLNode(nil, pn, &verifNopDiag{})
		v.Assert(err == nil, "node created")
		verifC06Wire(&kn.node, out)
		return kn
	}
	pts := verifC06Points(v, v.Bound("points", 4), []int{0}, 6)
	if v.Choose("second group carries floats", 2) == 1 {
		for i := range pts {
			if pts[i].g == 1 {
				pts[i].kind = 1
				pts[i].f = float64(pts[i].i)
			}
		}
	}
	verifC06Isolation(v, mk, pts)
}
