package kapacitor

import (
	"time"

	"github.com/influxdata/kapacitor/edge"
	"github.com/influxdata/kapacitor/models"
	vrt "github.com/influxdata/kapacitor/zz_vrt"
)

// VerifC06HTTPOutGroups: the httpOut node keeps one result row per group (per-group state:
// the group's slot in the result). From a node with 0..3 groups (each with or without a
// first point) one operation - a new group, a point for a live group, the deletion of a
// live group - and then one more point for every live group: every live group's row is
// its own last point, the result has exactly one row per live group in creation order,
// and no group ever writes another group's row.
func VerifC06HTTPOutGroups(v *vrt.T) {
	n := &HTTPOutNode{node: node{diag: &verifNopDiag{}}, result: new(models.Result)}
	type grp struct {
		g    *httpOutGroup
		tag  string
		last int64 // value of the group's last point, -1: none yet
	}
	var live []*grp
	names := []string{"a", "b", "c", "d", "e"}
	next := 0
	dims := models.Dimensions{TagNames: []string{"host"}}
	newGroup := func() {
		tag := names[next]
		next++
		live = append(live, &grp{g: n.newGroup(models.ToGroupID("m", models.Tags{"host": tag}, dims)), tag: tag, last: -1})
	}
	seq := int64(0)
	point := func(x *grp, val int64) {
		seq++
		p := edge.NewPointMessage("m", "db", "rp", dims, models.Fields{"v": val}, models.Tags{"host": x.tag}, time.Unix(0, seq).UTC())
		_, err := x.g.Point(p)
		v.Assert(err == nil, "no error")
		x.last = val
	}
	check := func(label string) {
		v.Assert(len(n.result.Series) == len(live), label+": one result row per live group")
		if len(n.result.Series) != len(live) {
			return
		}
		for i, x := range live {
			row := n.result.Series[i]
			if x.last < 0 {
				v.Assert(row == nil, label+": a group without points has an empty row")
				continue
			}
			v.Assert(row != nil, label+": a group with points has a row")
			if row != nil {
				ok := row.Tags["host"] == x.tag && len(row.Values) == 1 && len(row.Values[0]) == 2 && row.Values[0][1] == interface{}(x.last)
				v.Assert(ok, label+": the row of a group is that group's own last point")
			}
		}
	}

	groups := v.Choose("groups", v.Bound("groups", 3)+1)
	for i := 0; i < groups; i++ {
		newGroup()
		if v.Choose("has point", 2) == 1 {
			point(live[i], int64(v.IntRange("val", 0, 100)))
		}
	}
	check("initial state")

	switch v.Choose("op", 3) {
	case 0:
		newGroup()
	case 1:
		if len(live) > 0 {
			point(live[v.Choose("group", len(live))], int64(v.IntRange("val", 0, 100)))
		}
	default:
		if len(live) > 0 {
			k := v.Choose("group", len(live))
			_, err := live[k].g.DeleteGroup(edge.NewDeleteGroupMessage(edge.GroupInfo{ID: models.ToGroupID("m", models.Tags{"host": live[k].tag}, dims), Tags: models.Tags{"host": live[k].tag}, Dimensions: dims}))
			v.Assert(err == nil, "no error")
			live = append(live[:k], live[k+1:]...)
		}
	}
	check("after the operation")
	// every live group receives one more point, one after the other
	for _, x := range live {
		point(x, int64(v.IntRange("val", 101, 200)))
		check("after a further point")
	}
	v.Observe("rows", len(n.result.Series))
	v.Reach("end")
}
