package ast

import (
	"errors"
	"math"
	"time"

	vrt "github.com/influxdata/kapacitor/zz_vrt"
)

// ---- engine-side model of encoding/json for the JSONNode documents ----------------
//
// encoding/json is reflection driven and not interpreted. Under the engine
// json.Marshal(*JSONNode) and json.Unmarshal(data, *JSONNode) are replaced by the two
// functions below: Marshal converts the property map into the generic document of the
// JSON text - numbers exact, nodes are marshalled through their own
// MarshalJSON (the real code), node and string lists become []interface{} - remembers it
// in a side table and returns a one-byte reference; Unmarshal hands a copy back.
// Natively the real encoding/json runs; every native replay compares the observations.
// Strings are restricted to ASCII by the harness (JSON text is UTF-8; json.Marshal
// replaces other bytes).

var verifJSONDocs []interface{}

func verifJSONGeneric(x interface{}) (interface{}, error) {
	switch x := x.(type) {
	case nil:
		return nil, nil
	case string:
		return x, nil
	case bool:
		return x, nil
	case int:
		return int64(x), nil // the exact number, as the JSON text carries it
	case int64:
		return x, nil
	case float64:
		if math.IsNaN(x) || math.IsInf(x, 0) {
			return nil, errors.New("json: unsupported value")
		}
		return x, nil
	case []string:
		out := make([]interface{}, len(x))
		for i := range x {
			out[i] = x[i]
		}
		return out, nil
	case []Node:
		out := make([]interface{}, len(x))
		for i := range x {
			g, err := verifJSONGeneric(x[i])
			if err != nil {
				return nil, err
			}
			out[i] = g
		}
		return out, nil
	case JSONNode:
		out := map[string]interface{}{}
		for k, val := range x {
			g, err := verifJSONGeneric(val)
			if err != nil {
				return nil, err
			}
			out[k] = g
		}
		return out, nil
	case *JSONNode:
		return verifJSONGeneric(*x)
	case interface{ MarshalJSON() ([]byte, error) }:
		// a node: through its own MarshalJSON (nil pointers marshal as null)
		data, err := x.MarshalJSON()
		if err != nil {
			return nil, err
		}
		return verifJSONDocs[int(data[0])], nil
	}
	return nil, errors.New("verif: value kind not modelled")
}

func verifJSONMarshal(x interface{}) ([]byte, error) {
	g, err := verifJSONGeneric(x)
	if err != nil {
		return nil, err
	}
	verifJSONDocs = append(verifJSONDocs, g)
	return []byte{byte(len(verifJSONDocs) - 1)}, nil
}

// verifJSONCopy hands a decoded copy of the document out. Decoding into interface{} with
// json.Unmarshal turns every number into a float64; a Decoder with UseNumber keeps the
// exact number (json.Number natively; the exact int64 in this model).
func verifJSONCopy(x interface{}, useNumber bool) interface{} {
	switch x := x.(type) {
	case int64:
		if !useNumber {
			return float64(x)
		}
	case map[string]interface{}:
		out := map[string]interface{}{}
		for k, val := range x {
			out[k] = verifJSONCopy(val, useNumber)
		}
		return out
	case []interface{}:
		out := make([]interface{}, len(x))
		for i := range x {
			out[i] = verifJSONCopy(x[i], useNumber)
		}
		return out
	}
	return x
}

func verifJSONDecode(data []byte, useNumber bool) (JSONNode, error) {
	if len(data) != 1 || int(data[0]) >= len(verifJSONDocs) {
		return nil, errors.New("verif: unexpected JSON data")
	}
	m, ok := verifJSONCopy(verifJSONDocs[int(data[0])], useNumber).(map[string]interface{})
	if !ok {
		return nil, errors.New("json: cannot unmarshal into JSONNode")
	}
	return JSONNode(m), nil
}

// verifJSONUnmarshal replaces json.Unmarshal(data, *JSONNode).
func verifJSONUnmarshal(data []byte, into interface{}) error {
	p, ok := into.(*JSONNode)
	if !ok {
		return errors.New("verif: unexpected use of json.Unmarshal")
	}
	m, err := verifJSONDecode(data, false)
	if err != nil {
		return err
	}
	*p = m
	return nil
}

// verifUnmarshalJSONNode replaces ast.unmarshalJSONNode (json.Decoder with UseNumber).
func verifUnmarshalJSONNode(data []byte) (JSONNode, error) {
	return verifJSONDecode(data, true)
}

// ---- the expressions ------------------------------------------------------------------

func verifASCII(v *vrt.T, name string, n int) string {
	s := v.String(name, n)
	for i := 0; i < len(s); i++ {
		v.Assume(s[i] < 0x80)
	}
	return s
}

var verifJSONDurations = []time.Duration{time.Hour, 24 * time.Hour, 7 * 24 * time.Hour, 36 * time.Hour, 750 * time.Microsecond, 90 * time.Second, 0, -3 * time.Minute, 1500 * time.Millisecond}

func verifJSONLeafNode(v *vrt.T) Node {
	switch v.Choose("leaf", 7) {
	case 0:
		return &NumberNode{IsInt: true, Int64: v.Int64("int"), Base: 10}
	case 1:
		f := v.Float64("float")
		v.Assume(!math.IsNaN(f))
		v.Assume(!math.IsInf(f, 0))
		return &NumberNode{IsFloat: true, Float64: f}
	case 2:
		return &StringNode{Literal: verifASCII(v, "string", v.Choose("len", 3))}
	case 3:
		return &ReferenceNode{Reference: verifASCII(v, "reference", 1+v.Choose("len", 2))}
	case 4:
		return &BoolNode{Bool: v.Bool("bool")}
	case 5:
		return &DurationNode{Dur: verifJSONDurations[v.Choose("duration", len(verifJSONDurations))]}
	}
	return &StarNode{}
}

var verifJSONOps = []TokenType{TokenPlus, TokenMinus, TokenMult, TokenDiv, TokenMod, TokenEqual, TokenNotEqual, TokenLess, TokenGreater, TokenLessEqual, TokenGreaterEqual, TokenAnd, TokenOr, TokenRegexEqual, TokenRegexNotEqual}

// VerifC13LambdaJSON: a lambda written to JSON (MarshalJSON) and read back (UnmarshalJSON)
// denotes the same expression: same functions, literals, operators and structure.
func VerifC13LambdaJSON(v *vrt.T) {
	verifJSONDocs = nil
	var expr Node
	switch v.Choose("shape", 7) {
	case 6:
		// lambdas as the parser builds them (raw literal forms kept in the nodes)
		texts := []string{
			`"path" =~ /^\/var\/log\//`,
			`"path" !~ /a\\/b/ AND "x" > 0755`,
			`"msg" == 'it\'s' OR "d" > 36h`,
			`sigma("value") > 3.5 AND "host" =~ /a+/`,
		}
		ln, err := ParseLambda(texts[v.Choose("text", len(texts))])
		v.Assert(err == nil, "the lambda parses")
		if err != nil {
			return
		}
		expr = ln.Expression
	case 0:
		expr = verifJSONLeafNode(v)
	case 1:
		expr = &UnaryNode{Operator: []TokenType{TokenMinus, TokenNot}[v.Choose("unary", 2)], Node: verifJSONLeafNode(v)}
	case 2:
		expr = &BinaryNode{Operator: verifJSONOps[v.Choose("op", len(verifJSONOps))], Left: verifJSONLeafNode(v), Right: &ReferenceNode{Reference: "b"}}
	case 3:
		expr = &FunctionNode{Type: GlobalFunc, Func: []string{"abs", "if", "count"}[v.Choose("func", 3)], Args: []Node{verifJSONLeafNode(v)}}
	case 4:
		expr = &BinaryNode{Operator: TokenGreater,
			Left:  &FunctionNode{Type: GlobalFunc, Func: "sigma", Args: []Node{&ReferenceNode{Reference: "x"}}},
			Right: verifJSONLeafNode(v)}
	default:
		expr = &ListNode{Nodes: []Node{verifJSONLeafNode(v), &StringNode{Literal: "x"}}}
	}
	ln := &LambdaNode{Expression: expr}
	data, err := ln.MarshalJSON()
	v.Assert(err == nil, "the lambda is written to JSON")
	if err != nil {
		return
	}
	back := &LambdaNode{}
	err = back.UnmarshalJSON(data)
	v.Observe("read back", err == nil)
	v.Assert(err == nil, "the JSON is read back")
	if err != nil {
		return
	}
	v.Assert(back.Expression != nil && back.Equal(ln), "the lambda read back is the same expression")
	v.Reach("end")
}
