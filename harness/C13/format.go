package ast

import (
	"time"

	vrt "github.com/influxdata/kapacitor/zz_vrt"
)

type verifFmtCtx struct {
	prefix, suffix string
	noFloat        bool // exclude '.' from the symbolic bytes (number contexts)
}

// Literal contexts: the symbolic bytes form (part of) a literal or token sequence.
var verifFmtCtxs = []verifFmtCtx{
	{"var x = '", "'", false},                  // single-quoted string
	{"var x = '''", "'''", false},              // triple-quoted string
	{"var x = lambda: \"", "\" > 1", false},    // reference
	{"var x = a|b('", "')", false},             // string argument
	{"var x = ", "", true},                     // any primary: number, duration, bool, ident, ...
	{"var x = 1", "", true},                    // number / duration continuation
	{"var x = lambda: \"a\" ", " \"b\"", true}, // operator between references
	{"var x = lambda: 1 ", " 2.0", true},       // operator between numbers
	{"var x = a", "\n", true},                  // chain / property continuation
	{"// ", "\nvar x = 1", false},              // comment text
	{"var x = [", "]", true},                   // list
	{"var x = lambda: f(", ")", true},          // lambda function argument
	{"var x = f(\n// c\n\n", "\n)", true},      // argument after a comment and an empty line
	{"var x = f(\n// c\n\n/", "/\n)", false},   // regex argument after a comment and an empty line
}

// verifRoundTrip asserts the C13 obligations for one script text that parses.
func verifRoundTrip(v *vrt.T, text string) {
	n1, err := Parse(text)
	v.Observe("parses", err == nil)
	if err != nil {
		v.Reach("rejected")
		return // not a task script: nothing to preserve
	}
	f1 := Format(n1)
	n2, err := Parse(f1)
	v.Assert(err == nil, "formatted script parses")
	if err != nil {
		return
	}
	v.Assert(n2.Equal(n1), "formatted script defines the same AST")
	f2 := Format(n2)
	if f2 != f1 {
		// not yet a fixed point: one further pass must be
		n3, err := Parse(f2)
		v.Assert(err == nil, "twice formatted script parses")
		if err != nil {
			return
		}
		v.Assert(Format(n3) == f2, "formatting is stable after one further pass")
	}
	v.Reach("end")
}

// VerifC13Literal: parse(format(parse(x))) == parse(x) and formatting is stable, for x =
// context ++ N arbitrary bytes.
func VerifC13Literal(v *vrt.T) {
	ci := v.Choose("ctx", len(verifFmtCtxs))
	c := verifFmtCtxs[ci]
	maxN := v.Bound("bytes", 2)
	if ci >= v.Bound("deep_ctxs", len(verifFmtCtxs)) && maxN > 2 {
		maxN = 2 // only the first deep_ctxs contexts get more than two arbitrary bytes
	}
	n := v.Choose("n", maxN+1)
	s := v.String("s", n)
	if c.noFloat {
		// float literals with symbolic digits would need strconv's shortest-float formatting
		// of a symbolic value (Ryu: 128-bit multiplications) — outside the claim: no '.'
		// next to a digit (the digit may be symbolic or the end of the prefix / start of the suffix)
		for i := 0; i < len(s); i++ {
			prevDigit := (i > 0 && s[i-1] >= '0' && s[i-1] <= '9') || (i == 0 && len(c.prefix) > 0 && c.prefix[len(c.prefix)-1] >= '0' && c.prefix[len(c.prefix)-1] <= '9')
			nextDigit := (i+1 < len(s) && s[i+1] >= '0' && s[i+1] <= '9') || (i+1 == len(s) && len(c.suffix) > 0 && c.suffix[0] >= '0' && c.suffix[0] <= '9')
			v.Assume(!(s[i] == '.' && (prevDigit || nextDigit)))
		}
	}
	verifRoundTrip(v, c.prefix+s+c.suffix)
}

// VerifC13Precedence: two binary operators, the first given as arbitrary bytes over the
// operator alphabet (white space allowed), with every parenthesisation: the re-parsed
// formatted expression is the same tree.
func VerifC13Precedence(v *vrt.T) {
	shape := v.Choose("parens", 4)
	nb := v.Bound("opbytes", 2)
	op1 := v.String("op1", nb)
	alphabet := v.Bound("opalphabet", 1) == 1
	for i := 0; alphabet && i < len(op1); i++ {
		// operator characters, the letters of AND/OR and white space (identifiers, numbers and
		// strings in operator position are mostly parse errors, also explored by Literal)
		v.Assume(verifIsOpByte(op1[i]))
	}
	var op2 string
	if v.Bound("op2sym", 0) == 1 {
		op2 = v.String("op2", nb)
		for i := 0; i < len(op2); i++ {
			v.Assume(verifIsOpByte(op2[i]))
		}
	} else {
		// one representative per precedence class
		reps := []string{"OR", "==", "+", "*", "AND", "<", "-", "%"}
		op2 = reps[v.Choose("op2", v.Bound("op2reps", 4))]
	}
	a, b, c := "\"a\"", "\"b\"", "\"c\""
	if v.Bound("unary", 0) == 1 && v.Choose("unary", 2) == 1 {
		a = "-\"a\""
	}
	var text string
	switch shape {
	case 0:
		text = a + " " + op1 + " " + b + " " + op2 + " " + c
	case 1:
		text = "(" + a + " " + op1 + " " + b + ") " + op2 + " " + c
	case 2:
		text = a + " " + op1 + " (" + b + " " + op2 + " " + c + ")"
	default:
		text = "(" + a + " " + op1 + " (" + b + " " + op2 + " " + c + "))"
	}
	verifRoundTrip(v, "var x = lambda: "+text)
}

func verifIsOpByte(b byte) bool {
	switch b {
	case '+', '-', '*', '/', '%', '=', '!', '<', '>', '~', 'A', 'N', 'D', 'O', 'R', ' ', '\t', '\n':
		return true
	}
	return false
}

// VerifC13Duration: a duration node without source literal (built by code: JSON ASTs,
// pipeline -> TICKscript) formats to a literal that parses back to the same duration.
func VerifC13Duration(v *vrt.T) {
	units := []time.Duration{time.Nanosecond, time.Microsecond, time.Millisecond, time.Second, time.Minute, time.Hour, 24 * time.Hour, 7 * 24 * time.Hour}
	u := units[v.Choose("unit", len(units))]
	k := v.IntRange("k", 0, 999)
	d := time.Duration(k) * u
	prog := &ProgramNode{Nodes: []Node{&DeclarationNode{Left: &IdentifierNode{Ident: "x"}, Right: &DurationNode{Dur: d}}}}
	text := Format(prog)
	n2, err := Parse(text)
	v.Observe("parses", err == nil)
	// recorded known finding: durations that are not a whole number of microseconds have no TICKscript literal
	inClass := d%time.Microsecond != 0
	v.AssertKnown(err == nil, "formatted duration parses", inClass, "C13-duration-ns-literal")
	if err != nil {
		return
	}
	p2, ok := n2.(*ProgramNode)
	v.AssertKnown(ok && len(p2.Nodes) == 1, "one statement", inClass, "C13-duration-ns-literal")
	if ok && len(p2.Nodes) == 1 {
		decl, ok := p2.Nodes[0].(*DeclarationNode)
		v.AssertKnown(ok, "a declaration", inClass, "C13-duration-ns-literal")
		if ok {
			dn, ok := decl.Right.(*DurationNode)
			v.AssertKnown(ok && dn.Dur == d, "same duration after the round trip", inClass, "C13-duration-ns-literal")
		}
	}
	v.Reach("end")
}

// verifFloatTexts: float literals at the boundaries of Go's formatting modes (the symbolic
// contexts above exclude floats: formatting a symbolic float64 is outside the solver's
// reach, so these are concrete).
var verifFloatTexts = []string{
	"0.00001", "0.0001", "0.000099999", "100000000000000000000.0", "1000000000000000000000.0", "999999999999999999999.9",
	"123456789.125", "0.1", "1.0", "0.30000000000000004", "179769313486231570000000000000000000000000000000000000000000000000000000000000000000000000000000000000000000000000000000000000000000000000000000000000000000000000000000000000000000000000000000000000000000000000000000000000000000000000000000000000000000000000000000000000000000000000.0",
	"0.000000000000000000000000000000000000000000001",
}

// VerifC13FloatLiterals: the round trip obligations for scripts with float literals in
// plain and in lambda context.
func VerifC13FloatLiterals(v *vrt.T) {
	f := verifFloatTexts[v.Choose("float", len(verifFloatTexts))]
	ctx := []verifFmtCtx{{"var x = ", "", false}, {"var x = lambda: \"a\" > ", "", false}, {"var x = lambda: -", " + \"a\"", false}}[v.Choose("ctx", 3)]
	n1, err := Parse(ctx.prefix + f + ctx.suffix)
	v.Assert(err == nil, "the script parses")
	if err != nil {
		return
	}
	_ = n1
	verifRoundTrip(v, ctx.prefix+f+ctx.suffix)
}
