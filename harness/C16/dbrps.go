package kapacitor

import (
	"github.com/influxdata/kapacitor/pipeline"
	vrt "github.com/influxdata/kapacitor/zz_vrt"
)

type verifC16Src struct{ db, rp string }

// queries of a batch task with their sources (database, retention policy)
var verifC16SourceQueries = []struct {
	text string
	srcs []verifC16Src
}{
	{"SELECT v FROM a.b.m", []verifC16Src{{"a", "b"}}},
	{"SELECT v FROM \"a\".\"b\".m, \"c\".\"d\".n", []verifC16Src{{"a", "b"}, {"c", "d"}}},
	{"SELECT v FROM a..m", []verifC16Src{{"a", ""}}},
	{"SELECT v FROM m", []verifC16Src{{"", ""}}},
	// two sources in the same database with different retention policies
	{"SELECT v FROM \"a\".\"b\".m, \"a\".\"d\".n", []verifC16Src{{"a", "b"}, {"a", "d"}}},
	// the same pair twice
	{"SELECT v FROM \"a\".\"b\".m, \"a\".\"b\".n", []verifC16Src{{"a", "b"}, {"a", "b"}}},
}

// VerifC16CheckDBRPs: a batch task with 1..2 query nodes and 1..2 declared dbrps
// (symbolic names): checkDBRPs (the gate of BatchQueries) passes iff every source of
// every query names a declared (database, retention policy) pair.
func VerifC16CheckDBRPs(v *vrt.T) {
	nq := 1 + v.Choose("queries", 2)
	bn := &BatchNode{}
	var srcs []verifC16Src
	for i := 0; i < nq; i++ {
		sq := verifC16SourceQueries[v.Choose("query", len(verifC16SourceQueries))]
		qn, err := newQueryNode(nil, &pipeline.QueryNode{QueryStr: sq.text, Period: 10, Every: 10}, &verifNopDiag{})
		v.Assert(err == nil && qn != nil, "query node created")
		bn.children = append(bn.children, qn)
		srcs = append(srcs, sq.srcs...)
	}
	nd := 1 + v.Choose("dbrps", 2)
	task := &Task{ID: "t", Type: BatchTask}
	for i := 0; i < nd; i++ {
		task.DBRPs = append(task.DBRPs, DBRP{
			Database:        v.String("db", v.Choose("dblen", 2)),
			RetentionPolicy: v.String("rp", v.Choose("rplen", 2)),
		})
	}
	et := &ExecutingTask{Task: task}
	err := et.checkDBRPs(bn)

	allowed := true
	for _, s := range srcs {
		found := false
		for _, d := range task.DBRPs {
			if d.Database == s.db && d.RetentionPolicy == s.rp {
				found = true
			}
		}
		if !found {
			allowed = false
		}
	}
	v.Observe("allowed", err == nil)
	v.Assert((err == nil) == allowed, "queries allowed iff every source is a declared (db, rp)")
	v.Reach("end")
}
