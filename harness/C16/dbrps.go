package kapacitor

import (
	"github.com/influxdata/kapacitor/pipeline"
	vrt "github.com/influxdata/kapacitor/zz_vrt"
)

type verifC16Src struct{ db, rp string }

// queries of a batch task with their sources (database, retention policy)
var verifC16SourceQueries = []struct {
	text string
	srcs []verifC16Src
	sub  bool // has a sub query: refusing the query altogether is acceptable
}{
	{"SELECT v FROM a.b.m", []verifC16Src{{"a", "b"}}, false},
	{"SELECT v FROM \"a\".\"b\".m, \"c\".\"d\".n", []verifC16Src{{"a", "b"}, {"c", "d"}}, false},
	{"SELECT v FROM a..m", []verifC16Src{{"a", ""}}, false},
	{"SELECT v FROM m", []verifC16Src{{"", ""}}, false},
	// two sources in the same database with different retention policies
	{"SELECT v FROM \"a\".\"b\".m, \"a\".\"d\".n", []verifC16Src{{"a", "b"}, {"a", "d"}}, false},
	// the same pair twice
	{"SELECT v FROM \"a\".\"b\".m, \"a\".\"b\".n", []verifC16Src{{"a", "b"}, {"a", "b"}}, false},
	// sources inside a sub query count as well
	{"SELECT v FROM (SELECT v FROM \"c\".\"d\".n)", []verifC16Src{{"c", "d"}}, true},
	{"SELECT v FROM \"a\".\"b\".m, (SELECT v FROM \"c\".\"d\".n)", []verifC16Src{{"a", "b"}, {"c", "d"}}, true},
}

// VerifC16CheckDBRPs: a batch task with 1..2 query nodes and 0..2 declared dbrps
// (symbolic names): checkDBRPs (the gate of BatchQueries) passes iff every source of
// every query names a declared (database, retention policy) pair.
func VerifC16CheckDBRPs(v *vrt.T) {
	nq := 1 + v.Choose("queries", 2)
	bn := &BatchNode{}
	var srcs []verifC16Src
	sub := false
	for i := 0; i < nq; i++ {
		sq := verifC16SourceQueries[v.Choose("query", len(verifC16SourceQueries))]
		sub = sub || sq.sub
		qn, err := newQueryNode(nil, &pipeline.QueryNode{QueryStr: sq.text, Period: 10, Every: 10}, &verifNopDiag{})
		v.Assert(err == nil && qn != nil, "query node created")
		bn.children = append(bn.children, qn)
		srcs = append(srcs, sq.srcs...)
	}
	nd := v.Choose("dbrps", 3) // 0: a task that declares nothing (nil list) may query nothing
	task := &Task{ID: "t", Type: BatchTask}
	for i := 0; i < nd; i++ {
		task.DBRPs = append(task.DBRPs, DBRP{
			Database:        v.String("db", v.Choose("dblen", 2)),
			RetentionPolicy: v.String("rp", v.Choose("rplen", 2)),
		})
	}
	et := &ExecutingTask{Task: task}
	err := et.checkDBRPs(bn)

	allowed := true
	for _, s := range srcs {
		found := false
		for _, d := range task.DBRPs {
			if d.Database == s.db && d.RetentionPolicy == s.rp {
				found = true
			}
		}
		if !found {
			allowed = false
		}
	}
	v.Observe("allowed", err == nil)
	if sub {
		v.Assert(!(err == nil && !allowed), "queries with a sub query are never allowed when a source (also inside the sub query) is undeclared")
	} else {
		v.Assert((err == nil) == allowed, "queries allowed iff every source is a declared (db, rp)")
	}
	v.Reach("end")
}
