package kapacitor

import (
	"context"
	"time"

	"github.com/influxdata/flux"
	imodels "github.com/influxdata/influxdb/models"
	"github.com/influxdata/kapacitor/edge"
	kexpvar "github.com/influxdata/kapacitor/expvar"
	"github.com/influxdata/kapacitor/influxdb"
	"github.com/influxdata/kapacitor/pipeline"
	vrt "github.com/influxdata/kapacitor/zz_vrt"
)

// verifC16Ticker is a `ticker` whose tick instants are chosen by the harness.
type verifC16Ticker struct{ c chan time.Time }

func (t *verifC16Ticker) Start() <-chan time.Time      { return t.c }
func (t *verifC16Ticker) Stop()                        {}
func (t *verifC16Ticker) Next(now time.Time) time.Time { return time.Time{} }

type verifC16Timer struct{}

func (verifC16Timer) Start()  {}
func (verifC16Timer) Pause()  {}
func (verifC16Timer) Resume() {}
func (verifC16Timer) Stop()   {}

// verifC16Client is the fake InfluxDB: it records the time bounds the query carries
// when it is issued and answers with one series holding one point.
type verifC16Client struct {
	n             *QueryNode
	starts, stops []time.Time
	cmds          []string
	points        []time.Time // the point returned to the i-th query
}

func (c *verifC16Client) Ping(ctx context.Context) (time.Duration, string, error) { return 0, "", nil }
func (c *verifC16Client) Write(bp influxdb.BatchPoints) error                    { return nil }
func (c *verifC16Client) WriteV2(w influxdb.FluxWrite) error                     { return nil }
func (c *verifC16Client) Query(q influxdb.Query) (*influxdb.Response, error) {
	point := c.points[len(c.starts)]
	c.starts = append(c.starts, c.n.query.StartTime())
	c.stops = append(c.stops, c.n.query.StopTime())
	c.cmds = append(c.cmds, q.Command)
	return &influxdb.Response{Results: []influxdb.Result{{Series: []imodels.Row{{
		Name:    "cpu",
		Tags:    map[string]string{"host": "a"},
		Columns: []string{"time", "mean"},
		Values:  [][]interface{}{{point, 1.5}},
	}}}}}, nil
}
func (c *verifC16Client) QueryFlux(q influxdb.FluxQuery) (flux.ResultIterator, error) {
	return nil, nil
}
func (c *verifC16Client) QueryFluxResponse(q influxdb.FluxQuery) (*influxdb.Response, error) {
	return nil, nil
}
func (c *verifC16Client) CreateBucketV2(bucket string, org string, orgID string) error { return nil }

type verifC16Influx struct{ c influxdb.Client }

func (s verifC16Influx) NewNamedClient(name string) (influxdb.Client, error) { return s.c, nil }

// VerifC16LiveTick: the real doQuery loop (as a goroutine) driven by two ticks at
// symbolic instants: each tick issues exactly one query whose bounds are
// [tick-offset-period, tick-offset); the resulting batch is stamped with the query stop
// (or, when grouped by time, with the time of its last point).
func VerifC16LiveTick(v *vrt.T) {
	cfg := verifC16Cfgs[v.Choose("cfg", len(verifC16Cfgs))]
	grouped := v.Choose("groupByTime", 2) == 1
	base := []int64{verifT2020, verifT1960}[v.Choose("base", 2)]
	period, offset := int64(cfg.period), int64(cfg.offset)

	pn := &pipeline.QueryNode{
		QueryStr: "SELECT mean(value) FROM mydb.myrp.cpu WHERE host = 'a'",
		Period:   cfg.period, Every: cfg.every, Offset: cfg.offset,
	}
	if grouped {
		pn.Dimensions = []interface{}{time.Duration(2)}
	}
	qn, err := newQueryNode(nil, pn, &verifNopDiag{})
	v.Assert(err == nil && qn != nil, "query node created")
	v.Assert(qn.query.IsGroupedByTime() == grouped, "group by time recorded")

	client := &verifC16Client{n: qn}
	tk := &verifC16Ticker{c: make(chan time.Time)}
	qn.ticker = tk
	qn.timer = verifC16Timer{}
	qn.statMap = &kexpvar.Map{}
	qn.statMap.Init()
	qn.et = &ExecutingTask{tm: &TaskMaster{InfluxDBService: verifC16Influx{client}}}

	in := edge.NewStatsEdge(edge.NewChannelEdge(pipeline.BatchEdge, 8))
	done := make(chan error, 1)
	go func() { done <- qn.doQuery(in) }()

	nt := v.Bound("liveticks", 2)
	ticks := make([]time.Time, nt)
	pts := make([]time.Time, nt)
	for i := range ticks {
		ticks[i] = v.Time("tick", base-1000, base+1000)
		// the series' point lies anywhere around the queried range
		pts[i] = v.Time("point", base-3000, base+1000)
	}
	client.points = pts
	for i := range ticks {
		tk.c <- ticks[i]
	}
	v.Goroutines()
	close(qn.closing)
	v.Assert(<-done == nil, "doQuery ends without error when the node is stopped")
	v.Assert(v.Goroutines() == 0, "query goroutine ended")

	v.Assert(len(client.starts) == len(ticks), "one query per tick")
	for i := range ticks {
		if i >= len(client.starts) {
			break
		}
		stop := ticks[i].UnixNano() - offset
		v.Assert(client.stops[i].UnixNano() == stop, "query stop = tick - offset")
		v.Assert(client.starts[i].UnixNano() == stop-period, "query start = stop - period")
		m, ok := in.Emit()
		v.Assert(ok, "one batch per returned series")
		if !ok {
			break
		}
		b, isBatch := m.(edge.BufferedBatchMessage)
		v.Assert(isBatch, "buffered batch emitted")
		want := stop
		if grouped {
			want = pts[i].UnixNano()
		}
		v.Assert(b.Time().UnixNano() == want, "batch time = query stop (grouped by time: time of its last point)")
		v.Assert(len(b.Points()) == 1 && b.Points()[0].Time().Equal(pts[i]) && b.Name() == "cpu", "batch carries the series")
		v.Observe("bounds", client.starts[i].UnixNano(), client.stops[i].UnixNano(), b.Time().UnixNano())
	}
	_, more := in.Emit()
	v.Assert(!more, "edge closed after the last batch")
	v.Reach("end")
}
