package kapacitor

import (
	"time"

	"github.com/influxdata/influxql"
	"github.com/influxdata/kapacitor/pipeline"
	vrt "github.com/influxdata/kapacitor/zz_vrt"
)

// every / period / offset settings: period <, =, > every; offset 0, < every, > every;
// small co-prime values so that all phases of a start instant inside an interval and
// all Truncate/Round residues (relative to Go's zero time) occur within a narrow
// symbolic range, plus second-sized values.
type verifC16Cfg struct{ every, period, offset time.Duration }

var verifC16Cfgs = []verifC16Cfg{
	{10, 10, 0},
	{10, 25, 3},
	{7, 3, 12},
	{4, 9, 4},
	{time.Second, 5 * time.Second, 0},
	{10 * time.Second, 10 * time.Second, 3 * time.Second},
}

// 2100-01-01T00:00:00Z: later than any clock reading (engine model and native run alike)
const verifC16T2100 = int64(4102444800) * int64(time.Second)

var verifC16Bases = []int64{verifT2020, verifT2020 + 5, verifT1960, 0, verifC16T2100}

func verifC16QueryNode(v *vrt.T, cfg verifC16Cfg, align bool, query string) *QueryNode {
	qn, err := newQueryNode(nil, &pipeline.QueryNode{
		QueryStr:  query,
		Period:    cfg.period,
		Every:     cfg.every,
		Offset:    cfg.offset,
		AlignFlag: align,
	}, &verifNopDiag{})
	v.Assert(err == nil && qn != nil, "query node created")
	return qn
}

// verifC16Bounds walks a condition tree (AND/OR/parentheses) and collects the time
// literals that bound `time` from below (>=) and above (<).
func verifC16Bounds(e influxql.Expr, lo, hi *[]*influxql.TimeLiteral) {
	switch e := e.(type) {
	case *influxql.ParenExpr:
		verifC16Bounds(e.Expr, lo, hi)
	case *influxql.BinaryExpr:
		if e.Op == influxql.AND || e.Op == influxql.OR {
			verifC16Bounds(e.LHS, lo, hi)
			verifC16Bounds(e.RHS, lo, hi)
			return
		}
		ref, isRef := e.LHS.(*influxql.VarRef)
		tl, isTL := e.RHS.(*influxql.TimeLiteral)
		if isRef && isTL && ref.Val == "time" {
			switch e.Op {
			case influxql.GTE:
				*lo = append(*lo, tl)
			case influxql.LT:
				*hi = append(*hi, tl)
			}
		}
	}
}

// VerifC16HistoricTicks: QueryNode.Queries(start, stop) (what ExecutingTask.BatchQueries
// returns for recordings/replays) against the tick specification of a live task started
// at `start`: every => start + i*every (i >= 1); aligned => the multiples of every
// strictly after start; one query per tick <= stop, with time range
// [tick-offset-period, tick-offset).
func VerifC16HistoricTicks(v *vrt.T) {
	cfg := verifC16Cfgs[v.Choose("cfg", len(verifC16Cfgs))]
	align := v.Choose("align", 2) == 1
	base := verifC16Bases[v.Choose("base", len(verifC16Bases))]
	maxTicks := v.Bound("ticks", 3)
	every, period, offset := int64(cfg.every), int64(cfg.period), int64(cfg.offset)

	qn := verifC16QueryNode(v, cfg, align, "SELECT mean(value) FROM mydb.myrp.cpu WHERE host = 'a' OR time > '2019-01-01T00:00:00Z'")

	// start: for the nanosecond-sized settings anywhere within two intervals around the
	// base (every phase, every Truncate/Round residue); for the second-sized ones within
	// +-window ns (8 quick) of an anchor phase inside the interval: its begin, just below/at the middle
	// (rounding tie) and its end. Span: anything up to maxTicks intervals.
	var start time.Time
	if every <= 64 {
		start = v.Time("start", base-every, base+every)
	} else {
		w := int64(v.Bound("window", 8))
		anchor := []int64{0, every / 2, every - w, every/4 + 1}[v.Choose("phase", 4)]
		start = v.Time("start", base+anchor-w, base+anchor+w)
	}
	span := int64(v.IntRange("span", 0, maxTicks*int(every)+int(every)-1))
	stop := start.Add(time.Duration(span))

	qs, err := qn.Queries(start, stop)
	v.Assert(err == nil, "Queries returns no error")

	if base == verifC16T2100 {
		// every tick of the span has its query stop after the present: nothing is listed
		v.Assert(len(qs) == 0, "no query whose stop lies in the future")
		v.Reach("end")
		return
	}
	first := start.UnixNano() + every
	if align {
		first = verifTruncRef(start.UnixNano(), every) + every
	}
	n := 0
	for t := first; t <= stop.UnixNano(); t += every {
		if n >= len(qs) {
			// (whether a tick exactly at the end of the span belongs to it is not specified)
			v.Assert(t == stop.UnixNano(), "a query for every live tick in the span")
			break
		}
		v.Assert(qs[n].StopTime().UnixNano() == t-offset, "query stop = tick - offset")
		v.Assert(qs[n].StartTime().UnixNano() == t-offset-period, "query start = stop - period")
		// the statement itself carries these bounds, once each, in its own literals
		var lo, hi []*influxql.TimeLiteral
		verifC16Bounds(qs[n].stmt.Condition, &lo, &hi)
		v.Assert(len(lo) == 1 && len(hi) == 1, "statement has one lower and one upper time bound")
		if len(lo) == 1 && len(hi) == 1 {
			v.Assert(lo[0].Val.UnixNano() == t-offset-period && hi[0].Val.UnixNano() == t-offset, "statement bounds = [tick-offset-period, tick-offset)")
			for m := 0; m < n; m++ {
				var plo, phi []*influxql.TimeLiteral
				verifC16Bounds(qs[m].stmt.Condition, &plo, &phi)
				v.Assert(len(plo) == 1 && plo[0] != lo[0] && phi[0] != hi[0], "listed queries do not share literals")
			}
			var nlo, nhi []*influxql.TimeLiteral
			verifC16Bounds(qn.query.stmt.Condition, &nlo, &nhi)
			v.Assert(len(nlo) == 1 && nlo[0] != lo[0] && nhi[0] != hi[0], "listed queries do not share literals with the live query")
		}
		n++
	}
	v.Assert(len(qs) == n, "no query without a live tick")
	v.Observe("queries", len(qs))
	v.Reach("end")
}
