package kapacitor

import (
	"time"

	"github.com/influxdata/influxql"
	"github.com/influxdata/kapacitor/pipeline"
	"github.com/influxdata/kapacitor/tick/ast"
	vrt "github.com/influxdata/kapacitor/zz_vrt"
)

// User queries (query text plus the node's groupBy / fill properties): no condition, one
// predicate, AND/OR combinations with and without parentheses, nested, the user's own
// time predicates; group by time / tags / *, fill.
type verifC16Query struct {
	text    string
	groupBy []interface{}
	fill    interface{}
	wantDim string // rendering of the node's groupBy as an InfluxQL GROUP BY list
	// alignGroup(): the group by time offset follows the query start (wantDim unused)
	alignGroup bool
	interval   time.Duration
}

var verifC16Queries = []verifC16Query{
	{text: "SELECT mean(value) FROM mydb.myrp.cpu"},
	{text: "SELECT mean(value) FROM mydb.myrp.cpu WHERE host = 'a'"},
	{text: "SELECT mean(value) FROM mydb.myrp.cpu WHERE host = 'a' AND dc = 'x'"},
	{text: "SELECT mean(value) FROM mydb.myrp.cpu WHERE host = 'a' OR host = 'b'"},
	{text: "SELECT mean(value) FROM mydb.myrp.cpu WHERE (host = 'a' OR host = 'b')"},
	{text: "SELECT mean(value) FROM mydb.myrp.cpu WHERE dc = 'x' AND (host = 'a' OR host = 'b')"},
	{text: "SELECT mean(value) FROM mydb.myrp.cpu WHERE host = 'a' AND dc = 'x' OR host = 'b' AND dc = 'y'"},
	{text: "SELECT mean(value) FROM mydb.myrp.cpu WHERE (host = 'a' OR (dc = 'x' AND value > 3)) OR cpu = 'c0'"},
	{text: "SELECT mean(value) FROM mydb.myrp.cpu WHERE time > '2020-01-01T00:00:03Z'"},
	{text: "SELECT mean(value) FROM mydb.myrp.cpu WHERE host = 'a' OR time < '2020-01-01T00:00:07Z'"},
	{text: "SELECT mean(value) FROM mydb.myrp.cpu WHERE host = 'a' OR host = 'b'", groupBy: []interface{}{time.Second, "dc"}, fill: int64(0), wantDim: "time(1s, 0s), dc"},
	{text: "SELECT value FROM mydb.myrp.cpu WHERE value > 1 OR value < -1", groupBy: []interface{}{&ast.StarNode{}}, wantDim: "*"},
	{text: "SELECT mean(value) FROM mydb.myrp.cpu WHERE host = 'a'", groupBy: []interface{}{"dc", "host"}, fill: "previous", wantDim: "dc, host"},
	{text: "SELECT mean(value) FROM mydb.myrp.cpu WHERE host = 'a'", groupBy: []interface{}{3 * time.Second}, alignGroup: true, interval: 3 * time.Second},
	// groupBy(time(3s, 1s)): the user's own offset is kept without alignGroup; with alignGroup
	// the offset follows the query start, the same on the live query and on its clones
	{text: "SELECT mean(value) FROM mydb.myrp.cpu WHERE host = 'a'", groupBy: []interface{}{TimeDimension{Length: 3 * time.Second, Offset: time.Second}, "dc"}, wantDim: "time(3s, 1s), dc"},
	{text: "SELECT mean(value) FROM mydb.myrp.cpu WHERE host = 'a'", groupBy: []interface{}{TimeDimension{Length: 3 * time.Second, Offset: time.Second}}, alignGroup: true, interval: 3 * time.Second},
}

type verifC16Row struct {
	v     *vrt.T
	t     int64           // the row's timestamp (symbolic)
	atoms map[string]bool // truth of the user's non-time predicates on the row, by text
}

// verifC16Instant reads the RFC3339 instants that occur in this harness
// (2020-01-01T00:00:SS[.fffffffff]Z) without the time package.
func verifC16Instant(v *vrt.T, s string) int64 {
	const prefix = "2020-01-01T00:00:"
	ok := len(s) >= len(prefix)+3 && s[:len(prefix)] == prefix && s[len(s)-1] == 'Z'
	v.Assert(ok, "time literal of the expected form")
	if !ok {
		return 0
	}
	body := s[len(prefix) : len(s)-1]
	ns := (int64(body[0]-'0')*10 + int64(body[1]-'0')) * int64(time.Second)
	if len(body) > 2 {
		v.Assert(body[2] == '.', "fraction")
		scale := int64(time.Second)
		for i := 3; i < len(body); i++ {
			scale /= 10
			ns += int64(body[i]-'0') * scale
		}
	}
	return verifT2020 + ns
}

// verifC16Eval is the row semantics of an InfluxQL condition: AND, OR, parentheses;
// comparisons of `time` with an instant are evaluated on the row's time, any other
// comparison is an atom whose truth on this row is an arbitrary (symbolic) boolean.
func verifC16Eval(e influxql.Expr, r *verifC16Row) bool {
	switch e := e.(type) {
	case *influxql.ParenExpr:
		return verifC16Eval(e.Expr, r)
	case *influxql.BinaryExpr:
		switch e.Op {
		case influxql.AND:
			a, b := verifC16Eval(e.LHS, r), verifC16Eval(e.RHS, r)
			return a && b
		case influxql.OR:
			a, b := verifC16Eval(e.LHS, r), verifC16Eval(e.RHS, r)
			return a || b
		}
		if ref, ok := e.LHS.(*influxql.VarRef); ok && ref.Val == "time" {
			var lit int64
			switch rhs := e.RHS.(type) {
			case *influxql.StringLiteral:
				lit = verifC16Instant(r.v, rhs.Val)
			case *influxql.TimeLiteral:
				lit = rhs.Val.UnixNano()
			default:
				r.v.Assert(false, "time compared with an instant")
			}
			switch e.Op {
			case influxql.GTE:
				return r.t >= lit
			case influxql.GT:
				return r.t > lit
			case influxql.LTE:
				return r.t <= lit
			case influxql.LT:
				return r.t < lit
			case influxql.EQ:
				return r.t == lit
			}
			r.v.Assert(false, "time comparison operator")
			return false
		}
		key := e.String()
		b, ok := r.atoms[key]
		if !ok {
			b = r.v.Bool("atom")
			r.atoms[key] = b
		}
		return b
	}
	r.v.Assert(false, "condition node kind")
	return false
}

func verifC16Select(v *vrt.T, text string) *influxql.SelectStatement {
	q, err := influxql.ParseQuery(text)
	v.Assert(err == nil && q != nil && len(q.Statements) == 1, "query text parses as one statement")
	st, ok := q.Statements[0].(*influxql.SelectStatement)
	v.Assert(ok, "select statement")
	return st
}

// VerifC16QueryText: what the database receives. The query node is built from the
// user's query text, the bounds of a tick are set (live: on the node's own query;
// historic: on a Clone, as Queries() does), the statement is rendered to text and that
// text is parsed again, as the database would. For an arbitrary row (symbolic time,
// arbitrary truth values of the user's predicates) the received condition selects the
// row iff the user's own condition selects it and its time lies in [start, stop);
// sources, fields, group by and fill of the user are unchanged.
func VerifC16QueryText(v *vrt.T) {
	uq := verifC16Queries[v.Choose("query", len(verifC16Queries))]
	text := uq.text
	historic := v.Choose("historic", 2) == 1
	startNs := verifT2020 + int64(v.Choose("startSecond", 2))*2*int64(time.Second) + int64(v.Choose("startNano", 2))*1500
	stopNs := startNs + 5*int64(time.Second)

	qn, err := newQueryNode(nil, &pipeline.QueryNode{QueryStr: text, Period: 5 * time.Second, Every: 5 * time.Second, Dimensions: uq.groupBy, Fill: uq.fill, AlignGroupFlag: uq.alignGroup}, &verifNopDiag{})
	v.Assert(err == nil && qn != nil, "query node created")
	q := qn.query
	if historic {
		q, err = qn.query.Clone()
		v.Assert(err == nil && q != nil, "query cloned")
	}
	q.SetStartTime(time.Unix(0, startNs).UTC())
	q.SetStopTime(time.Unix(0, stopNs).UTC())
	sent := q.String()

	got := verifC16Select(v, sent)
	user := verifC16Select(v, text)

	// the row's time: within +-3 ns of one of the instants that matter (query start, query
	// stop, the instants in the users' own time predicates), i.e. every side of every bound
	anchor := []int64{startNs, stopNs, verifT2020 + 3*int64(time.Second), verifT2020 + 7*int64(time.Second)}[v.Choose("rowNear", 4)]
	row := &verifC16Row{v: v, t: anchor + int64(v.IntRange("rowDelta", -3, 3)), atoms: map[string]bool{}}
	userSel := true
	if user.Condition != nil {
		userSel = verifC16Eval(user.Condition, row)
	}
	v.Assert(got.Condition != nil, "received query has a condition")
	gotSel := verifC16Eval(got.Condition, row)
	inRange := row.t >= startNs && row.t < stopNs
	v.Observe("selected", gotSel, userSel, inRange)
	v.Assert(gotSel == (userSel && inRange), "row selected iff the user's condition holds and start <= time < stop")

	v.Assert(got.Sources.String() == user.Sources.String(), "sources unchanged")
	v.Assert(got.Fields.String() == user.Fields.String(), "fields unchanged")
	if !uq.alignGroup {
		v.Assert(got.Dimensions.String() == uq.wantDim, "group by as configured on the node")
	} else {
		// buckets of the database are aligned to the Unix epoch: offset = start mod interval
		okShape := len(got.Dimensions) == 1
		var call *influxql.Call
		if okShape {
			call, okShape = got.Dimensions[0].Expr.(*influxql.Call)
		}
		okShape = okShape && call.Name == "time" && len(call.Args) == 2
		v.Assert(okShape, "group by time(interval, offset)")
		if okShape {
			iv, ok1 := call.Args[0].(*influxql.DurationLiteral)
			off, ok2 := call.Args[1].(*influxql.DurationLiteral)
			v.Assert(ok1 && ok2 && iv.Val == uq.interval, "group by interval as configured")
			if ok1 && ok2 {
				v.Observe("groupOffset", int64(off.Val))
				v.Assert(int64(off.Val) == verifFloorMod(startNs, int64(uq.interval)), "alignGroup: group by offset = query start mod interval")
			}
		}
	}
	switch f := uq.fill.(type) {
	case nil:
		v.Assert(got.Fill == user.Fill, "fill untouched")
	case int64:
		v.Assert(got.Fill == influxql.NumberFill && got.FillValue == interface{}(f), "numeric fill as configured")
	case string:
		v.Assert(f == "previous" && got.Fill == influxql.PreviousFill, "fill option as configured")
	}
	v.Reach("end")
}
