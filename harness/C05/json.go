package stateful

import (
	"bytes"

	"github.com/influxdata/kapacitor/tick/ast"
	vrt "github.com/influxdata/kapacitor/zz_vrt"
)

// The JSON form of lambda/AST nodes (tick/ast/json.go, written from the MarshalJSON side):
// every node is an object with "typeOf" and the fields below.
const (
	jkNode = iota
	jkNodeList
	jkString
	jkBool
	jkInt
	jkFloat
	jkOperator
	jkDuration
	jkRegex
	jkFuncType
	jkStrings
	jkIdent
	jkRef
)

type verifJSONField struct {
	name string
	kind int
}

type verifJSONSpec struct {
	typ    string
	fields []verifJSONField
}

var verifJSONSpecs = []verifJSONSpec{
	{"number", []verifJSONField{{"isint", jkBool}, {"int64", jkInt}, {"base", jkInt}, {"isfloat", jkBool}, {"float64", jkFloat}}},
	{"duration", []verifJSONField{{"duration", jkDuration}}},
	{"bool", []verifJSONField{{"bool", jkBool}}},
	{"unary", []verifJSONField{{"operator", jkOperator}, {"node", jkNode}}},
	{"binary", []verifJSONField{{"operator", jkOperator}, {"left", jkNode}, {"right", jkNode}}},
	{"dbrp", []verifJSONField{{"db", jkRef}, {"rp", jkRef}}},
	{"declaration", []verifJSONField{{"left", jkIdent}, {"right", jkNode}}},
	{"typeDeclaration", []verifJSONField{{"node", jkIdent}, {"type", jkIdent}}},
	{"chain", []verifJSONField{{"operator", jkOperator}, {"left", jkNode}, {"right", jkNode}}},
	{"identifier", []verifJSONField{{"ident", jkString}}},
	{"reference", []verifJSONField{{"reference", jkString}}},
	{"string", []verifJSONField{{"literal", jkString}}},
	{"list", []verifJSONField{{"nodes", jkNodeList}}},
	{"regex", []verifJSONField{{"regex", jkRegex}}},
	{"star", nil},
	{"func", []verifJSONField{{"func", jkString}, {"args", jkNodeList}, {"functionType", jkFuncType}}},
	{"lambda", []verifJSONField{{"expression", jkNode}}},
	{"program", []verifJSONField{{"nodes", jkNodeList}}},
	{"comment", []verifJSONField{{"comments", jkStrings}}},
}

func verifJSONLeaf(typ, field string, val interface{}) map[string]interface{} {
	return map[string]interface{}{"typeOf": typ, field: val}
}

// verifJSONValid is a well-formed value of the kind; the tables are indexed by one common
// variant number. explore: the (first) node-valued field is a generated well-formed object
// of any node type, the others are fixed leaves.
func verifJSONValid(v *vrt.T, kind, depth, variant int, explore *bool) interface{} {
	child := func() interface{} {
		if depth > 0 && *explore {
			*explore = false
			return verifJSONGen(v, depth-1, variant, false)
		}
		return verifJSONLeaf("reference", "reference", "a")
	}
	switch kind {
	case jkNode:
		return child()
	case jkNodeList:
		return []interface{}{child(), verifJSONLeaf("string", "literal", "s")}
	case jkString:
		return []string{"abs", "a", "", "count"}[variant%4]
	case jkBool:
		return variant%2 == 0
	case jkInt:
		return []float64{7, 0, 36, 1e19}[variant%4] // encoding/json delivers numbers as float64
	case jkFloat:
		return []float64{1.5, 0, -2, 1e300}[variant%4]
	case jkOperator:
		return []string{"+", "-", "!", "AND", "==", "=~", "|", "."}[variant%8]
	case jkDuration:
		return []string{"1h", "10ms", "-3s", "0s"}[variant%4]
	case jkRegex:
		return "a+"
	case jkFuncType:
		return []string{"global", "chain", "property", "dynamicMethod"}[variant%4]
	case jkStrings:
		return []interface{}{"c"} // what encoding/json produces for an array of strings
	case jkIdent:
		return verifJSONLeaf("identifier", "ident", "x")
	default:
		return verifJSONLeaf("reference", "reference", "db")
	}
}

type verifAbsent struct{}

// verifJSONDeviant is an arbitrary other JSON value: every JSON kind, strings with
// arbitrary bytes, objects without / with a non-string / unknown / other typeOf.
func verifJSONDeviant(v *vrt.T) interface{} {
	switch v.Choose("deviation", 17) {
	case 0:
		return verifAbsent{}
	case 1:
		return nil
	case 2:
		return v.Bool("b")
	case 3:
		return []float64{0, -1, 2.5, 1e19}[v.Choose("number", 4)]
	case 4:
		return ""
	case 5:
		return "bogus"
	case 6:
		return v.String("s1", 1)
	case 7:
		return v.String("s2", 2)
	case 8:
		return []interface{}{}
	case 9:
		return []interface{}{nil}
	case 10:
		return []interface{}{"x", 1.0}
	case 11:
		return map[string]interface{}{}
	case 12:
		return map[string]interface{}{"typeOf": 3.0}
	case 13:
		return map[string]interface{}{"typeOf": "bogus"}
	case 14:
		return map[string]interface{}{"typeOf": "star"}
	case 15:
		return []interface{}{map[string]interface{}{"typeOf": "bogus"}}
	default:
		return map[string]interface{}{"typeOf": nil}
	}
}

// verifJSONGen: an object of one of the node types, well formed except (deviate) for at
// most one field (typeOf included) that holds an arbitrary other value.
func verifJSONGen(v *vrt.T, depth, variant int, deviate bool) interface{} {
	spec := verifJSONSpecs[v.Choose("node type", len(verifJSONSpecs))]
	obj := map[string]interface{}{"typeOf": spec.typ}
	dev := len(spec.fields) // -1: typeOf, len: none
	if deviate {
		dev = v.Choose("deviating field", len(spec.fields)+2) - 1
	}
	explore := dev == len(spec.fields)
	put := func(name string, val interface{}) {
		if _, absent := val.(verifAbsent); absent {
			delete(obj, name)
		} else {
			obj[name] = val
		}
	}
	if dev == -1 {
		put("typeOf", verifJSONDeviant(v))
	}
	for i, f := range spec.fields {
		if i == dev {
			put(f.name, verifJSONDeviant(v))
		} else {
			put(f.name, verifJSONValid(v, f.kind, depth, variant, &explore))
		}
	}
	return obj
}

// VerifC05JSONNode: any JSON document of the shape above offered as a lambda / AST node
// is decoded into a node or rejected with an error; a decoded node can be printed and
// compiled (or is rejected), and the compiled expression evaluates to a value or an
// error: never a panic.
func VerifC05JSONNode(v *vrt.T) {
	variant := v.Choose("variant", v.Bound("variants", 8))
	doc := verifJSONGen(v, v.Bound("depth", 1), variant, true)
	var n ast.Node
	var err error
	if doc.(map[string]interface{})["typeOf"] != "lambda" || v.Choose("entry", 2) == 0 {
		n, err = ast.VerifGetNode(doc)
	} else {
		var ln *ast.LambdaNode
		ln, err = ast.VerifUnmarshalLambda(doc.(map[string]interface{}))
		n = ln
	}
	if err != nil {
		v.Reach("rejected")
		return
	}
	v.Assert(n != nil, "a node or an error")
	var buf bytes.Buffer
	n.Format(&buf, "", false)
	if ln, ok := n.(*ast.LambdaNode); ok {
		n = ln.Expression
	}
	expr, err := NewExpression(n)
	if err != nil {
		v.Reach("not an expression")
		return
	}
	s := NewScope()
	s.Set("a", int64(1))
	_, terr := expr.Type(s)
	_, e1 := expr.Eval(s)
	_, e2 := expr.EvalBool(s)
	v.Observe("errs", terr != nil, e1 != nil, e2 != nil)
	v.Reach("end")
}
