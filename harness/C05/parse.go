package ast

import (
	vrt "github.com/influxdata/kapacitor/zz_vrt"
)

type verifCtx struct {
	prefix, suffix string
	lambda         bool
}

// Contexts in which the symbolic bytes are placed.
var verifParseCtxs = []verifCtx{
	{"", "", false},                         // statement start
	{"var x = ", "", false},                 // expression start
	{"var x = a|b(", ")", false},            // function argument
	{"var x = a\n  |b()\n  .c(", ")", false}, // property argument after a chain
	{"var x = lambda: ", "", false},         // lambda body
	{"var x = lambda: \"f\" ", " 1", false}, // operator position
	{"var x = 'ab", "", false},              // inside a single-quoted string
	{"var x = '''ab", "", false},            // inside a triple-quoted string
	{"var x = /ab", "", false},              // inside a regex
	{"var x = \"ab", "", false},             // inside a reference
	{"// c", "\nvar x = 1", false},          // inside a comment
	{"var x = 1", "", false},                // after a number (duration units, dots)
	{"dbrp \"a\".", "", false},              // dbrp statement
	{"var x = [", "]", false},               // list
	{"/", "", false},                        // directly after a token-start character
	{"var x = 1 /", " 2", false},
	{"var x = a !", " b", false},
	{"var x = a =", " b", false},
	{"var x = a <", " b", false},
	{"var x = -", "", false},
	{"var x = 1.", "", false},
	{"var x = a|", "()", false},
	{"var x = a.", "()", false},
	{"var x = a@", "()", false},
	{"", "", true},                          // ParseLambda
	{"\"a\" ", " 2", true},                  // ParseLambda operator position
	{"f(", ")", true},                       // ParseLambda function argument
}

// VerifC05Parse: Parse/ParseLambda on prefix ++ arbitrary bytes ++ suffix returns a node or
// an error; no goroutine panics; the lexer goroutine has ended when Parse returns.
func VerifC05Parse(v *vrt.T) {
	c := verifParseCtxs[v.Choose("ctx", len(verifParseCtxs))]
	n := v.Choose("n", v.Bound("bytes", 2)+1)
	text := c.prefix + v.String("s", n) + c.suffix
	var isNil bool
	var err error
	if c.lambda {
		var l *LambdaNode
		l, err = ParseLambda(text)
		isNil = l == nil
	} else {
		var node Node
		node, err = Parse(text)
		isNil = node == nil
	}
	v.Observe("err", err != nil)
	v.Assert(isNil == (err != nil), "Parse returns exactly one of node and error")
	v.Assert(v.Goroutines() == 0, "lexer goroutine has terminated when Parse returns")
	v.Reach("end")
}
