package stateful

import (
	"sort"
	"sync"
	"time"

	"github.com/influxdata/kapacitor/tick/ast"
	vrt "github.com/influxdata/kapacitor/zz_vrt"
)

// verifC05Arg is one argument of the function call: a literal of one of the lambda
// literal kinds or a reference (to a field of that kind, or to a missing field).
func verifC05Arg(kind int, ref bool, i int, s *Scope) ast.Node {
	names := []string{"a", "b", "c", "d", "e", "f", "g"}
	var lit ast.Node
	var val interface{}
	switch kind {
	case 0:
		lit, val = &ast.NumberNode{IsInt: true, Int64: int64(i) - 1}, int64(i)-1
	case 1:
		lit, val = &ast.NumberNode{IsFloat: true, Float64: float64(i) - 0.5}, float64(i)-0.5
	case 2:
		lit, val = &ast.StringNode{Literal: "ab"}, "ab"
	case 3:
		lit, val = &ast.BoolNode{Bool: i%2 == 0}, i%2 == 0
	case 4:
		lit, val = &ast.DurationNode{Dur: time.Duration(i) * time.Second}, time.Duration(i)*time.Second
	default: // a reference to a field the point does not have
		return &ast.ReferenceNode{Reference: names[i]}
	}
	if ref {
		s.Set(names[i], val)
		return &ast.ReferenceNode{Reference: names[i]}
	}
	return lit
}

// VerifC05FunctionCall: a call of ANY built-in function with 0..6 arguments of any kind
// (literals or references, also to missing fields) compiles or is rejected, and when
// compiled, the signature check (Type, as EvalPredicate runs it for every point) and every
// evaluation entry point return a value or an error: never a panic.
func VerifC05FunctionCall(v *vrt.T) {
	fs := NewFunctions()
	names := make([]string, 0, len(fs))
	for n := range fs {
		names = append(names, n)
	}
	sort.Strings(names)
	skip := map[string]bool{}
	for _, n := range verifC05SkipFuncs {
		skip[n] = true
	}
	name := names[v.Choose("function", len(names))]
	if skip[name] {
		return
	}
	nargs := v.Choose("number of arguments", v.Bound("args", 6)+1)
	scope := NewScope()
	args := make([]ast.Node, nargs)
	// all arguments of one kind, or (up to `mixed` arguments) a kind per argument
	mixed := nargs >= 2 && nargs <= v.Bound("mixed", 2) && v.Choose("argument kinds", 2) == 1
	byRef := v.Choose("by reference", 2) == 1
	k := 0
	for i := range args {
		if i == 0 || mixed {
			k = v.Choose("kind", 6)
		}
		args[i] = verifC05Arg(k, byRef, i, scope)
	}
	expr, err := NewExpression(&ast.FunctionNode{Type: ast.GlobalFunc, Func: name, Args: args})
	if err != nil {
		v.Reach("rejected at compile time")
		return
	}
	_, terr := expr.Type(scope)
	_, e1 := expr.Eval(scope)
	_, e2 := expr.EvalBool(scope)
	_, e3 := expr.EvalInt(scope)
	_, e4 := expr.EvalFloat(scope)
	_, e5 := expr.EvalString(scope)
	_, e6 := expr.EvalDuration(scope)
	v.Observe("errs", terr != nil, e1 != nil, e2 != nil, e3 != nil, e4 != nil, e5 != nil, e6 != nil)
	v.Reach("end")
}

// functions whose bodies are outside the engine's model (listed in the claim)
var verifC05SkipFuncs = []string{}

// verifC05ArgOfType is a literal of the given lambda type ("1s" parses as a duration,
// so the string functions and duration() all run their full bodies).
func verifC05ArgOfType(t ast.ValueType) (ast.Node, bool) {
	switch t {
	case ast.TInt:
		return &ast.NumberNode{IsInt: true, Int64: 2, Base: 10}, true
	case ast.TFloat:
		return &ast.NumberNode{IsFloat: true, Float64: 1.5}, true
	case ast.TString:
		return &ast.StringNode{Literal: "1s"}, true
	case ast.TBool:
		return &ast.BoolNode{Bool: true}, true
	case ast.TDuration:
		return &ast.DurationNode{Dur: time.Second}, true
	}
	return nil, false
}

// VerifC05ConcurrentEval: every node of every task evaluates its lambda on its own
// goroutine, and the stateless built-in functions are process-wide singletons shared by
// all compiled expressions. Two separately compiled expressions calling the same built-in
// (each signature with int/float/string/bool/duration arguments) are evaluated twice each
// on two goroutines: no map reachable from both is accessed concurrently with a write (Go
// aborts the whole process on that: "fatal error: concurrent map writes"), both return
// the same result, and nothing panics.
func VerifC05ConcurrentEval(v *vrt.T) {
	fs := NewFunctions()
	names := make([]string, 0, len(fs))
	for n := range fs {
		names = append(names, n)
	}
	sort.Strings(names)
	name := names[v.Choose("function", len(names))]
	// the signatures in a fixed order
	var doms []Domain
	for d := range fs[name].Signature() {
		doms = append(doms, d)
	}
	less := func(a, b Domain) bool {
		for k := range a {
			if a[k] != b[k] {
				return a[k] < b[k]
			}
		}
		return false
	}
	for i := 1; i < len(doms); i++ {
		for j := i; j > 0 && less(doms[j], doms[j-1]); j-- {
			doms[j], doms[j-1] = doms[j-1], doms[j]
		}
	}
	if len(doms) == 0 {
		return
	}
	dom := doms[v.Choose("signature", len(doms))]
	var args []ast.Node
	for _, t := range dom {
		if t == ast.InvalidType {
			break
		}
		a, ok := verifC05ArgOfType(t)
		if !ok {
			return // regex, time, missing, list arguments: outside this harness
		}
		args = append(args, a)
	}
	var exprs [2]Expression
	for i := range exprs {
		e, err := NewExpression(&ast.FunctionNode{Type: ast.GlobalFunc, Func: name, Args: args})
		if err != nil {
			return
		}
		exprs[i] = e
	}
	var errs [2]bool
	var wg sync.WaitGroup
	for i := range exprs {
		i := i
		wg.Add(1)
		go func() {
			defer wg.Done()
			for r := 0; r < 2; r++ {
				_, err := exprs[i].Eval(NewScope())
				errs[i] = errs[i] || err != nil
			}
		}()
	}
	wg.Wait()
	v.Assert(v.Goroutines() == 0, "both evaluations end")
	v.Assert(errs[0] == errs[1], "both goroutines get the same outcome")
	v.Observe("err", errs[0])
	v.Reach("end")
}

// verifC05ValueFuncs: built-in functions whose bodies the engine can run on symbolic
// values, with the argument kinds of one of their signatures (i int64, f float64, s string
// of 0..2 bytes, b bool, d duration).
var verifC05ValueFuncs = []struct {
	name string
	args string
}{
	{"abs", "f"}, {"ceil", "f"}, {"floor", "f"}, {"trunc", "f"}, {"max", "ff"}, {"min", "ff"},
	{"int", "s"}, {"int", "b"}, {"int", "d"}, {"float", "i"}, {"float", "b"},
	{"bool", "s"}, {"bool", "i"}, {"string", "b"},
	{"duration", "id"}, {"duration", "sd"}, {"duration", "d"},
	{"if", "bii"}, {"if", "bss"}, {"isPresent", "i"},
	{"strLength", "s"}, {"strContains", "ss"}, {"strHasPrefix", "ss"}, {"strHasSuffix", "ss"}, {"strIndex", "ss"},
	{"strLastIndex", "ss"}, {"strCount", "ss"}, {"strTrimPrefix", "ss"}, {"strTrimSuffix", "ss"},
	{"strReplace", "sssi"}, {"strSubstring", "sii"},
	{"spread", "f"}, {"count", ""},
}

// VerifC05FunctionValues: a built-in function applied to ARBITRARY values of the kinds of
// one of its signatures (every int64 / float64 bit pattern / duration, strings of 0..2
// arbitrary bytes), passed as fields of the point: Type, Eval and the typed entry points
// return a value or an error, never a panic, and a second evaluation still works.
func VerifC05FunctionValues(v *vrt.T) {
	fc := verifC05ValueFuncs[v.Choose("function", len(verifC05ValueFuncs))]
	names := []string{"a", "b", "c", "d"}
	scope := NewScope()
	var args []ast.Node
	for i := 0; i < len(fc.args); i++ {
		switch fc.args[i] {
		case 'i':
			scope.Set(names[i], v.Int64("int"))
		case 'f':
			scope.Set(names[i], v.Float64("float"))
		case 's':
			scope.Set(names[i], v.String("string", v.Choose("len", 3)))
		case 'b':
			scope.Set(names[i], v.Bool("bool"))
		case 'd':
			scope.Set(names[i], time.Duration(v.Int64("duration")))
		}
		args = append(args, &ast.ReferenceNode{Reference: names[i]})
	}
	expr, err := NewExpression(&ast.FunctionNode{Type: ast.GlobalFunc, Func: fc.name, Args: args})
	v.Assert(err == nil, "the call compiles")
	if err != nil {
		return
	}
	_, terr := expr.Type(scope)
	_, e1 := expr.Eval(scope)
	_, e2 := expr.EvalBool(scope)
	_, e3 := expr.EvalInt(scope)
	_, e4 := expr.EvalFloat(scope)
	_, e5 := expr.EvalString(scope)
	_, e6 := expr.EvalDuration(scope)
	_, e7 := expr.Eval(scope)
	v.Observe("errs", terr != nil, e1 != nil, e2 != nil, e3 != nil, e4 != nil, e5 != nil, e6 != nil, e7 != nil)
	v.Reach("end")
}
