package stateful

import (
	"sort"
	"time"

	"github.com/influxdata/kapacitor/tick/ast"
	vrt "github.com/influxdata/kapacitor/zz_vrt"
)

// verifC05Arg is one argument of the function call: a literal of one of the lambda
// literal kinds or a reference (to a field of that kind, or to a missing field).
func verifC05Arg(kind int, ref bool, i int, s *Scope) ast.Node {
	names := []string{"a", "b", "c", "d", "e", "f", "g"}
	var lit ast.Node
	var val interface{}
	switch kind {
	case 0:
		lit, val = &ast.NumberNode{IsInt: true, Int64: int64(i) - 1}, int64(i)-1
	case 1:
		lit, val = &ast.NumberNode{IsFloat: true, Float64: float64(i) - 0.5}, float64(i)-0.5
	case 2:
		lit, val = &ast.StringNode{Literal: "ab"}, "ab"
	case 3:
		lit, val = &ast.BoolNode{Bool: i%2 == 0}, i%2 == 0
	case 4:
		lit, val = &ast.DurationNode{Dur: time.Duration(i) * time.Second}, time.Duration(i)*time.Second
	default: // a reference to a field the point does not have
		return &ast.ReferenceNode{Reference: names[i]}
	}
	if ref {
		s.Set(names[i], val)
		return &ast.ReferenceNode{Reference: names[i]}
	}
	return lit
}

// VerifC05FunctionCall: a call of ANY built-in function with 0..6 arguments of any kind
// (literals or references, also to missing fields) compiles or is rejected, and when
// compiled, the signature check (Type, as EvalPredicate runs it for every point) and every
// evaluation entry point return a value or an error: never a panic.
func VerifC05FunctionCall(v *vrt.T) {
	fs := NewFunctions()
	names := make([]string, 0, len(fs))
	for n := range fs {
		names = append(names, n)
	}
	sort.Strings(names)
	skip := map[string]bool{}
	for _, n := range verifC05SkipFuncs {
		skip[n] = true
	}
	name := names[v.Choose("function", len(names))]
	if skip[name] {
		return
	}
	nargs := v.Choose("number of arguments", v.Bound("args", 6)+1)
	scope := NewScope()
	args := make([]ast.Node, nargs)
	// all arguments of one kind, or (up to `mixed` arguments) a kind per argument
	mixed := nargs >= 2 && nargs <= v.Bound("mixed", 2) && v.Choose("argument kinds", 2) == 1
	byRef := v.Choose("by reference", 2) == 1
	k := 0
	for i := range args {
		if i == 0 || mixed {
			k = v.Choose("kind", 6)
		}
		args[i] = verifC05Arg(k, byRef, i, scope)
	}
	expr, err := NewExpression(&ast.FunctionNode{Type: ast.GlobalFunc, Func: name, Args: args})
	if err != nil {
		v.Reach("rejected at compile time")
		return
	}
	_, terr := expr.Type(scope)
	_, e1 := expr.Eval(scope)
	_, e2 := expr.EvalBool(scope)
	_, e3 := expr.EvalInt(scope)
	_, e4 := expr.EvalFloat(scope)
	_, e5 := expr.EvalString(scope)
	_, e6 := expr.EvalDuration(scope)
	v.Observe("errs", terr != nil, e1 != nil, e2 != nil, e3 != nil, e4 != nil, e5 != nil, e6 != nil)
	v.Reach("end")
}

// functions whose bodies are outside the engine's model (listed in the claim)
var verifC05SkipFuncs = []string{}
