package kapacitor

import (
	"errors"

	"github.com/influxdata/kapacitor/edge"
	"github.com/influxdata/kapacitor/expvar"
	"github.com/influxdata/kapacitor/pipeline"
	vrt "github.com/influxdata/kapacitor/zz_vrt"
)

type verifC05Edge struct {
	closed, aborted int
	c, e            expvar.Int
}

func (r *verifC05Edge) Collect(m edge.Message) error          { return nil }
func (r *verifC05Edge) Emit() (edge.Message, bool)            { return nil, false }
func (r *verifC05Edge) Close() error                          { r.closed++; return nil }
func (r *verifC05Edge) Abort()                                { r.aborted++ }
func (r *verifC05Edge) Type() pipeline.EdgeType               { return pipeline.StreamEdge }
func (r *verifC05Edge) Collected() int64                      { return 0 }
func (r *verifC05Edge) Emitted() int64                        { return 0 }
func (r *verifC05Edge) CollectedVar() expvar.IntVar           { return &r.c }
func (r *verifC05Edge) EmittedVar() expvar.IntVar             { return &r.e }
func (r *verifC05Edge) ReadGroupStats(func(*edge.GroupStats)) {}

// VerifC05NodeRunner (kernel K2): whatever a node's run function does on a data value —
// return nil, return an error, or panic (here: an integer division by a symbolic field
// value, an out-of-range index) — the panic must not leave the node goroutine (it would
// terminate the daemon): Wait() reports an error, the children edges are closed and on
// failure the parent edges are aborted.
func VerifC05NodeRunner(v *vrt.T) {
	in, out := &verifC05Edge{}, &verifC05Edge{}
	pn := pipeline.VerifNewJoinNode(pipeline.StreamEdge)
	y := v.Int64("y")
	idx := v.IntRange("idx", 0, 3)
	mode := v.Choose("mode", 3)
	n := &node{Node: pn, diag: &verifNopDiag{}, errCh: make(chan error, 1), ins: []edge.StatsEdge{in}, outs: []edge.StatsEdge{out}}
	table := []int64{1, 2, 3}
	n.runF = func([]byte) error {
		switch mode {
		case 0: // a node that divides by a field value
			if 100/y > 50 {
				return errors.New("too big")
			}
		case 1: // a node that indexes with a field value
			if table[idx] == 2 {
				return errors.New("two")
			}
		}
		return nil
	}
	wantFault := (mode == 0 && y == 0) || (mode == 1 && idx == 3)
	wantErr := wantFault || (mode == 0 && y != 0 && 100/y > 50) || (mode == 1 && idx == 1)
	n.start(nil)
	err := n.Wait()
	v.Observe("err", err != nil)
	v.Assert((err != nil) == wantErr, "Wait reports an error exactly when the run function failed or panicked")
	v.Assert(out.closed == 1, "children edges are closed")
	if wantErr {
		v.Assert(in.aborted == 1, "parent edges are aborted on failure")
	} else {
		v.Assert(in.aborted == 0, "parent edges untouched on success")
	}
	v.Assert(v.Goroutines() == 0, "node goroutine has ended")
	v.Reach("end")
}
