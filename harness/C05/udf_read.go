package agent

import (
	"bufio"
	"encoding/binary"
	"math"

	vrt "github.com/influxdata/kapacitor/zz_vrt"
)

// VerifC05ReadMessage (C05 kernel K4, framing side): ReadMessage on an arbitrary byte
// stream of at most `stream` bytes, delivered in arbitrary fragments, returns a message
// or an error and never panics (a panic in Server.readData's goroutine is process-fatal).
//
// The engine's heap is concrete, so the frame length announced by the peer is split into
// the classes  length <= maxsize  (every value enumerated, allocation really performed)
// and  length > MaxInt32  (all values in one symbolic path). Lengths in between only
// differ by the size of an allocation that succeeds or exhausts memory (memory
// consumption is not part of C05) followed by the same read loop; they are not explored.
func VerifC05ReadMessage(v *vrt.T) {
	n := v.Choose("n", v.Bound("stream", 12)+1)
	data := v.Bytes("s", n)
	undecodable := v.Bool("undecodable")

	// independent decoding of the announced frame length (encoding/binary, documented)
	size, k := binary.Uvarint(data)
	if k > 0 {
		v.Assume(size <= uint64(v.Bound("maxsize", 16)) || size > math.MaxInt32)
	}

	fr := &verifFragReader{v: v, data: append([]byte(nil), data...), short: v.Bound("short", 2), anyCount: v.Bound("anycount", 0) == 1}
	var r ByteReadReader = fr
	var buf []byte
	switch v.Choose("setup", 3) {
	case 1:
		r = bufio.NewReaderSize(fr, 16) // as udf.go: a bufio.Reader on the pipe
	case 2:
		buf = make([]byte, 4) // a receive buffer left over from earlier, smaller frames
	}
	msg := &verifMsg{failUnmarshal: undecodable}
	err := ReadMessage(&buf, r, msg)

	// reference: the frame is complete iff the length prefix is a valid uvarint and at
	// least `size` bytes follow it
	complete := k > 0 && size <= uint64(n-k)
	if complete {
		v.Assert((err == nil) == !undecodable, "a complete frame is delivered unless its content is undecodable")
		if err == nil {
			v.Assert(verifSameBytes(msg.payload, data[k:k+int(size)]), "delivered payload = the announced bytes")
		}
	} else {
		v.Assert(err != nil, "an incomplete or malformed frame is an error")
	}
	v.Observe("result", err != nil, len(msg.payload))
	v.Reach("end")
}
