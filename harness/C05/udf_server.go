package udf

import (
	"time"
	"unicode/utf8"

	"github.com/influxdata/kapacitor/edge"
	"github.com/influxdata/kapacitor/models"
	"github.com/influxdata/kapacitor/udf/agent"
	vrt "github.com/influxdata/kapacitor/zz_vrt"
)

// verifResponse builds one arbitrary Response the way proto.Unmarshal can leave it (the
// oneof unset, or set with an inner message whose scalar fields are arbitrary and whose
// maps are nil or filled), plus - with bound nilinner - wrappers whose inner message is
// nil (not producible by the wire decoder; defensive).
func verifResponse(v *vrt.T) *agent.Response {
	kinds := 10
	if v.Bound("nilinner", 1) == 1 {
		kinds = 14
	}
	switch v.Choose("kind", kinds) {
	case 0:
		return &agent.Response{} // empty frame, or a frame with unknown fields only
	case 1:
		return &agent.Response{Message: &agent.Response_Keepalive{Keepalive: &agent.KeepaliveResponse{Time: v.Int64("katime")}}}
	case 2:
		return &agent.Response{Message: &agent.Response_Info{Info: &agent.InfoResponse{}}}
	case 3:
		return &agent.Response{Message: &agent.Response_Init{Init: &agent.InitResponse{Success: v.Bool("success")}}}
	case 4:
		return &agent.Response{Message: &agent.Response_Snapshot{Snapshot: &agent.SnapshotResponse{}}}
	case 5:
		return &agent.Response{Message: &agent.Response_Restore{Restore: &agent.RestoreResponse{}}}
	case 6:
		return &agent.Response{Message: &agent.Response_Error{Error: &agent.ErrorResponse{Error: v.String("errtext", 1)}}}
	case 7:
		b := &agent.BeginBatch{Name: v.String("bname", 1), ByName: v.Bool("byname")}
		// the size announced by the peer: small, negative, or large
		switch v.Choose("sizeclass", 3) {
		case 0:
			b.Size = int64(v.IntRange("size", 0, 2))
		case 1:
			b.Size = v.Int64("size")
			v.Assume(b.Size < 0)
		case 2:
			b.Size = v.Int64("size")
			v.Assume(b.Size > 1<<20)
		}
		if v.Bool("begin has tags") {
			b.Tags = map[string]string{"t": v.String("btag", 1)}
		}
		return &agent.Response{Message: &agent.Response_Begin{Begin: b}}
	case 8:
		p := &agent.Point{Time: v.Int64("ptime"), Name: v.String("pname", 1), ByName: v.Bool("pbyname")}
		if v.Bool("point has data") {
			p.Tags = map[string]string{"t": v.String("ptag", 1)}
			p.Dimensions = []string{"t"}
			p.FieldsInt = map[string]int64{"i": v.Int64("pint")}
			p.FieldsString = map[string]string{"s": v.String("pstr", 1)}
			p.FieldsDouble = map[string]float64{"d": v.Float64("pdbl")}
			p.FieldsBool = map[string]bool{"b": v.Bool("pbool")}
		}
		return &agent.Response{Message: &agent.Response_Point{Point: p}}
	case 9:
		e := &agent.EndBatch{Name: v.String("ename", 1), Tmax: v.Int64("tmax")}
		if v.Bool("end has tags") {
			e.Tags = map[string]string{"t": v.String("etag", 1)}
		}
		return &agent.Response{Message: &agent.Response_End{End: e}}
	case 10:
		return &agent.Response{Message: &agent.Response_Error{}}
	case 11:
		return &agent.Response{Message: &agent.Response_Begin{}}
	case 12:
		return &agent.Response{Message: &agent.Response_Point{}}
	default:
		return &agent.Response{Message: &agent.Response_End{}}
	}
}

// VerifC05HandleResponse (C05 kernel K4, message side): Server.handleResponse on every
// sequence of `msgs` arbitrary responses from the peer returns nil or an error; it never
// panics (it runs in readData's goroutine: a panic there is process-fatal) and never
// blocks, and what it delivers downstream are well-formed point / batch messages.
func VerifC05HandleResponse(v *vrt.T) {
	s, _, _ := verifNewServer()
	n := v.Bound("msgs", 3)
	delivered := 0
	errs := 0
	for i := 0; i < n; i++ {
		err := s.handleResponse(verifResponse(v))
		if err != nil {
			errs++
			break // readData stops reading from this peer at the first error
		}
		for _, m := range verifCollect(s) {
			delivered++
			switch x := m.(type) {
			case edge.PointMessage:
				v.Assert(x.Fields() != nil, "a delivered point has a field map")
			case edge.BufferedBatchMessage:
				v.Assert(x.Begin() != nil && x.End() != nil, "a delivered batch is complete")
				v.Assert(x.Begin().SizeHint() == len(x.Points()), "batch size hint = number of points")
			default:
				v.Assert(false, "only points and buffered batches are delivered")
			}
		}
	}
	v.Observe("result", errs, delivered)
	close(s.stopping)
	v.Assert(v.Goroutines() == 0, "no goroutine left behind")
	v.Reach("end")
}

// verifFieldValue: every kind of value a pipeline can put into a field: the four line
// protocol types, a duration (eval(lambda: 1s)) and nil (null in a query result).
// *badUTF8 is set when a string value is not valid UTF-8.
func verifFieldValue(v *vrt.T, badUTF8 *bool) interface{} {
	switch v.Choose("field kind", 6) {
	case 0:
		return v.Int64("int")
	case 1:
		return v.Float64("float")
	case 2:
		s := v.String("str", v.Choose("strlen", 3))
		if !utf8.ValidString(s) {
			*badUTF8 = true
		}
		return s
	case 3:
		return v.Bool("bool")
	case 4:
		return time.Duration(v.Int64("dur"))
	default:
		return nil
	}
}

// VerifC05FieldKinds (C05 kernel K5): sending a point or a batch whose fields hold any
// kind of value a pipeline can produce to a UDF never panics (it happens in writeData's
// goroutine: a panic there is process-fatal) and is not a fatal error of the writer (an
// error returned by writePoint / writeBufferedBatch makes writeData return: the UDF is
// aborted and the task dies); a following ordinary point is still sent.
func VerifC05FieldKinds(v *vrt.T) {
	verifWire = nil
	s, out, d := verifNewServer()
	badUTF8 := false
	fields := models.Fields{"a": verifFieldValue(v, &badUTF8)}
	if v.Bool("two fields") {
		fields["b"] = verifFieldValue(v, &badUTF8)
	}
	t0 := time.Unix(0, 1577836800e9).UTC()
	var err error
	if v.Bool("batch") {
		b := edge.NewBufferedBatchMessage(
			edge.NewBeginBatchMessage("m", nil, false, t0, 1),
			[]edge.BatchPointMessage{edge.NewBatchPointMessage(fields, nil, t0)},
			edge.NewEndBatchMessage())
		err = s.writeBufferedBatch(b)
	} else {
		err = s.writePoint(edge.NewPointMessage("m", "db", "rp", models.Dimensions{}, fields, nil, t0))
	}
	v.AssertKnown(err == nil, "one data point is not a fatal error of the UDF writer", badUTF8, "C05-udf-non-utf8-string")
	written := len(out.data)
	err = s.writePoint(edge.NewPointMessage("m", "db", "rp", models.Dimensions{}, models.Fields{"x": int64(1)}, nil, t0))
	v.Assert(err == nil, "the following point is written")
	v.Assert(len(out.data) > written, "the following point reaches the UDF")
	v.Observe("result", written > 0, d.errors)
	close(s.stopping)
	v.Reach("end")
}
