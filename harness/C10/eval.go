package kapacitor

import (
	"github.com/influxdata/kapacitor/edge"
	"github.com/influxdata/kapacitor/models"
	"github.com/influxdata/kapacitor/pipeline"
	"github.com/influxdata/kapacitor/tick/ast"
	vrt "github.com/influxdata/kapacitor/zz_vrt"
)

// c10Get resolves a name for a reference expression.
type c10Get func(name string) (interface{}, bool)

// c10Add is TICKscript "+": int+int (wrapping), float+float, string+string
// (concatenation); operands of different or other types are an evaluation error.
func c10Add(a, b interface{}) (interface{}, bool) {
	switch x := a.(type) {
	case int64:
		if y, ok := b.(int64); ok {
			return x + y, false
		}
	case float64:
		if y, ok := b.(float64); ok {
			return x + y, false
		}
	case string:
		if y, ok := b.(string); ok {
			return x + y, false
		}
	}
	return nil, true
}

func c10AddRefs(l, r string) func(get c10Get) (interface{}, bool) {
	return func(get c10Get) (interface{}, bool) {
		a, ok := get(l)
		b, ok2 := get(r)
		if !ok || !ok2 {
			return nil, true
		}
		return c10Add(a, b)
	}
}

type c10EvalExpr struct {
	text string
	ref  func(get c10Get) (interface{}, bool) // value, fail
}

var (
	c10ExFF = c10EvalExpr{`"f" + "f"`, c10AddRefs("f", "f")}
	c10ExXF = c10EvalExpr{`"x" + "f"`, c10AddRefs("x", "f")}
	c10ExFG = c10EvalExpr{`"f" + "g"`, c10AddRefs("f", "g")}
	c10ExTZ = c10EvalExpr{`"t" + 'z'`, func(get c10Get) (interface{}, bool) {
		a, ok := get("t")
		if !ok {
			return nil, true
		}
		return c10Add(a, "z")
	}}
)

type c10EvalCfg struct {
	exprs    []c10EvalExpr
	as       []string
	tags     []string
	keep     bool
	keepList []string
	useTag   bool // the lambdas reference tag t: draw it symbolically
}

var c10EvalCfgs = []c10EvalCfg{
	{exprs: []c10EvalExpr{c10ExFF}, as: []string{"x"}},
	{exprs: []c10EvalExpr{c10ExFF, c10ExXF}, as: []string{"x", "y"}},
	{exprs: []c10EvalExpr{c10ExFF, c10ExXF}, as: []string{"x", "y"}, keep: true},
	{exprs: []c10EvalExpr{c10ExFF, c10ExXF}, as: []string{"x", "y"}, keep: true, keepList: []string{"f", "y"}},
	{exprs: []c10EvalExpr{c10ExFG}, as: []string{"x"}, keep: true, keepList: []string{"g", "x"}},
	{exprs: []c10EvalExpr{c10ExFF}, as: []string{"x"}, keep: true, keepList: []string{"z"}},
	{exprs: []c10EvalExpr{c10ExTZ}, as: []string{"x"}, tags: []string{"x"}, useTag: true},
	{exprs: []c10EvalExpr{c10ExFF}, as: []string{"x"}, tags: []string{"x"}, keep: true},
	{exprs: []c10EvalExpr{c10ExFF}, as: []string{"f"}, keep: true},
	{exprs: []c10EvalExpr{c10ExFF, c10ExFF}, as: []string{"f", "y"}},
	{exprs: []c10EvalExpr{c10ExTZ}, as: []string{"x"}, keep: true, keepList: []string{"t", "x"}, useTag: true}, // t is a tag, not a field
	// a result stored under the name of an existing field, and that name in the keep list:
	// the kept value is the result (eval(lambda: "f" * 2).as('f').keep('f', 'g'))
	{exprs: []c10EvalExpr{c10ExFF}, as: []string{"f"}, keep: true, keepList: []string{"f", "g"}},
}

// c10EvalRef is the documented eval transformation: expressions in order, each result
// visible to the later ones under its `as` name; tags() results must be strings and become
// tags; without keep only the results not promoted to tags remain as fields; keep() keeps
// the original fields plus the results; keep(list) keeps the listed names, results first,
// then original fields, an error if neither. drop=true: the point is skipped.
func c10EvalRef(c c10EvalCfg, fields map[string]interface{}, tags map[string]string) (outF map[string]interface{}, outT map[string]string, drop bool) {
	results := map[string]interface{}{}
	get := func(name string) (interface{}, bool) {
		if r, ok := results[name]; ok {
			return r, true
		}
		if f, ok := fields[name]; ok {
			return f, true
		}
		if t, ok := tags[name]; ok {
			return t, true
		}
		return nil, false
	}
	for i, e := range c.exprs {
		val, fail := e.ref(get)
		if fail {
			return nil, nil, true
		}
		results[c.as[i]] = val
	}
	outT = c10CopyTags(tags)
	for _, tg := range c.tags {
		s, ok := results[tg].(string)
		if !ok {
			return nil, nil, true
		}
		outT[tg] = s
	}
	outF = map[string]interface{}{}
	switch {
	case !c.keep:
		for _, a := range c.as {
			if !c10Has(c.tags, a) {
				outF[a] = results[a]
			}
		}
	case len(c.keepList) == 0:
		for k, x := range fields {
			outF[k] = x
		}
		for _, a := range c.as {
			outF[a] = results[a]
		}
	default:
		for _, k := range c.keepList {
			if r, ok := results[k]; ok {
				outF[k] = r
			} else if f, ok := fields[k]; ok {
				outF[k] = f
			} else {
				return nil, nil, true
			}
		}
	}
	return outF, outT, false
}

// VerifC10Eval: eval node (as / tags / keep / keep list / quiet), one group's receiver
// driven by k messages.
func VerifC10Eval(v *vrt.T) {
	ci := v.Choose("cfg", v.Bound("cfgs", len(c10EvalCfgs)))
	c := c10EvalCfgs[ci]
	var lambdas []*ast.LambdaNode
	for _, e := range c.exprs {
		lambdas = append(lambdas, c10Lambda(v, e.text))
	}
	pn := &pipeline.EvalNode{Lambdas: lambdas, AsList: append([]string(nil), c.as...), TagsList: append([]string(nil), c.tags...),
		KeepFlag: c.keep, KeepList: append([]string(nil), c.keepList...)}
	quiet := v.Bool("quiet")
	pn.QuietFlag = quiet
	diag := &verifNopDiag{}
	n, err := newEvalNode(nil, pn, diag)
	v.Assert(err == nil, "node created")
	g := n.newGroup()
	k := v.Bound("points", 2)
	batch := v.Choose("edge", 2) == 1
	dims := models.Dimensions{TagNames: []string{"u"}}
	if batch {
		begin := edge.NewBeginBatchMessage("m", models.Tags{"u": "b"}, false, c10Time(v), 2)
		snap := c10SnapBegin(begin)
		out, err := g.BeginBatch(begin)
		v.Assert(err == nil && out != nil, "begin forwarded")
		ob, ok := out.(edge.BeginBatchMessage)
		v.Assert(ok && snap.sameBegin(begin), "frame: input begin message unchanged")
		v.Assert(ob.Name() == "m" && c10TagsEq(ob.Tags(), snap.tags) && ob.Time().Equal(snap.t) && ob.GroupID() == snap.gid, "begin keeps name, tags, time, group")
	}
	emitted := 0
	for i := 0; i < k; i++ {
		fields := models.Fields{}
		if x, ok := c10Field(v, c10AllKinds); ok {
			fields["f"] = x
		}
		if x, ok := c10Field(v, []int{c10Int, c10Missing}); ok {
			fields["g"] = x
		}
		tags := models.Tags{"u": "b"}
		if c.useTag {
			if x, ok := c10Tag(v, []int{c10TagByte, c10TagMissing}); ok {
				tags["t"] = x
			}
		} else {
			tags["t"] = "a"
		}
		t := c10Time(v)
		wantF, wantT, drop := c10EvalRef(c, fields, tags)
		errsBefore := diag.errors

		var out edge.Message
		var err error
		if batch {
			bp := edge.NewBatchPointMessage(fields, tags, t)
			snap := c10SnapBatchPoint(bp)
			out, err = g.BatchPoint(bp)
			v.Assert(snap.sameBatchPoint(bp), "frame: input batch point unchanged")
			v.Assert(err == nil && (out != nil) == !drop, "batch point skipped exactly when an expression, a tag conversion or the keep list fails")
			if out != nil && !drop {
				op, ok := out.(edge.BatchPointMessage)
				v.Assert(ok, "output is a batch point")
				v.Assert(c10FieldsEq(op.Fields(), wantF), "batch: output fields as documented (as/keep)")
				v.Assert(c10TagsEq(op.Tags(), wantT), "batch: output tags = input tags plus tags() results")
				v.Assert(op.Time().Equal(t), "batch: time kept")
				v.Observe("n", len(op.Fields()), len(op.Tags()))
			}
		} else {
			p := edge.NewPointMessage("m", "db", "rp", dims, fields, tags, t)
			snap := c10SnapPoint(p)
			out, err = g.Point(p)
			v.Assert(snap.samePoint(p), "frame: input point unchanged")
			v.Assert(err == nil && (out != nil) == !drop, "point skipped exactly when an expression, a tag conversion or the keep list fails")
			if out != nil && !drop {
				op, ok := out.(edge.PointMessage)
				v.Assert(ok, "output is a point")
				v.Assert(c10FieldsEq(op.Fields(), wantF), "output fields as documented (as/keep)")
				v.Assert(c10TagsEq(op.Tags(), wantT), "output tags = input tags plus tags() results")
				v.Assert(op.Time().Equal(t) && op.Name() == "m" && op.Database() == "db" && op.RetentionPolicy() == "rp" && c10DimsEq(op.Dimensions(), false, dims.TagNames) && op.GroupID() == models.ToGroupID("m", wantT, dims), "name, db, rp, time, dimensions kept; group follows tags")
				v.Observe("n", len(op.Fields()), len(op.Tags()))
			}
		}
		if out == nil {
			v.Assert((diag.errors > errsBefore) == !quiet, "a skipped point is reported unless quiet")
		} else {
			emitted++
			v.Assert(diag.errors == errsBefore, "no error reported for an emitted point")
		}
	}
	v.Observe("emitted", emitted)
	v.Reach("end")
}
