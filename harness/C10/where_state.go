package kapacitor

import (
	"time"

	"github.com/influxdata/kapacitor/edge"
	"github.com/influxdata/kapacitor/models"
	"github.com/influxdata/kapacitor/pipeline"
	"github.com/influxdata/kapacitor/tick/ast"
	vrt "github.com/influxdata/kapacitor/zz_vrt"
)

// c10Pred is a concrete lambda text with its meaning written as plain Go (TICKscript
// semantics: numeric comparisons accept int and float operands, an int compared with a
// float is converted to float; a referenced field or tag that the point lacks, and an
// operand of a type the operator does not accept, are evaluation errors).
type c10Pred struct {
	text string
	eval func(f map[string]interface{}, t map[string]string) (pass bool, fail bool)
}

func c10CmpGT(a, b interface{}) (res bool, fail bool) {
	switch x := a.(type) {
	case int64:
		switch y := b.(type) {
		case int64:
			return x > y, false
		case float64:
			return float64(x) > y, false
		}
	case float64:
		switch y := b.(type) {
		case int64:
			return x > float64(y), false
		case float64:
			return x > y, false
		}
	}
	return false, true
}

var c10Preds = []c10Pred{
	{`"f" > 10`, func(f map[string]interface{}, t map[string]string) (bool, bool) {
		x, ok := f["f"]
		if !ok {
			return false, true
		}
		return c10CmpGT(x, int64(10))
	}},
	{`"f" > 10 AND "t" == 'a'`, func(f map[string]interface{}, t map[string]string) (bool, bool) {
		x, ok := f["f"]
		tv, tok := t["t"]
		if !ok || !tok {
			return false, true
		}
		r, fail := c10CmpGT(x, int64(10))
		if fail {
			return false, true
		}
		return r && tv == "a", false
	}},
	{`"f" > "g"`, func(f map[string]interface{}, t map[string]string) (bool, bool) {
		x, ok := f["f"]
		y, ok2 := f["g"]
		if !ok || !ok2 {
			return false, true
		}
		return c10CmpGT(x, y)
	}},
}

func c10Lambda(v *vrt.T, text string) *ast.LambdaNode {
	l, err := ast.ParseLambda(text)
	v.Assert(err == nil && l != nil, "lambda parses")
	return l
}

// c10PredInput draws the fields/tags for a point fed to a lambda-bearing node.
func c10PredInput(v *vrt.T, pred int, fkinds []int) (models.Fields, models.Tags) {
	fields := models.Fields{}
	if x, ok := c10Field(v, fkinds); ok {
		fields["f"] = x
	}
	switch pred {
	case 2:
		gk := []int{c10Int, c10Float, c10Missing}
		if v.Bound("gnomissing", 0) == 1 {
			gk = []int{c10Int, c10Float}
		}
		if x, ok := c10Field(v, gk); ok {
			fields["g"] = x
		}
	default:
		fields["g"] = int64(3)
	}
	tags := models.Tags{"u": "b"}
	if pred == 1 {
		if x, ok := c10Tag(v, []int{c10TagByte, c10TagMissing}); ok {
			tags["t"] = x
		}
	} else {
		tags["t"] = "a"
	}
	return fields, tags
}

// VerifC10Where: where node, one group's receiver driven by k messages.
// Documented: forwards the same message iff the predicate is true; an evaluation error
// drops the point.
func VerifC10Where(v *vrt.T) {
	pi := v.Choose("lambda", len(c10Preds))
	pred := c10Preds[pi]
	diag := &verifNopDiag{}
	n, err := newWhereNode(nil, &pipeline.WhereNode{Lambda: c10Lambda(v, pred.text)}, diag)
	v.Assert(err == nil, "node created")
	g := n.newGroup()
	k := v.Bound("points", 2)
	batch := v.Choose("edge", 2) == 1
	dims := models.Dimensions{TagNames: []string{"u"}}
	passed := 0
	if batch {
		begin := edge.NewBeginBatchMessage("m", models.Tags{"u": "b"}, false, time.Unix(0, verifT2020+1000).UTC(), 2)
		snap := c10SnapBegin(begin)
		out, err := g.BeginBatch(begin)
		v.Assert(err == nil && out != nil, "begin forwarded")
		ob, ok := out.(edge.BeginBatchMessage)
		v.Assert(ok && snap.sameBegin(begin), "frame: input begin message unchanged")
		v.Assert(ob.Name() == "m" && c10TagsEq(ob.Tags(), snap.tags) && ob.Time().Equal(snap.t) && ob.GroupID() == snap.gid, "begin keeps name, tags, time, group")
	}
	for i := 0; i < k; i++ {
		fields, tags := c10PredInput(v, pi, []int{c10Int, c10Float, c10String, c10Missing})
		t := c10Time(v)
		wantPass, wantFail := pred.eval(fields, tags)
		want := wantPass && !wantFail
		errsBefore := diag.errors
		var out edge.Message
		var err error
		if batch {
			bp := edge.NewBatchPointMessage(fields, tags, t)
			snap := c10SnapBatchPoint(bp)
			out, err = g.BatchPoint(bp)
			v.Assert(snap.sameBatchPoint(bp), "frame: input batch point unchanged")
			if out != nil {
				v.Assert(out == edge.Message(bp), "the same batch point message is forwarded")
			}
		} else {
			p := edge.NewPointMessage("m", "db", "rp", dims, fields, tags, t)
			snap := c10SnapPoint(p)
			out, err = g.Point(p)
			v.Assert(snap.samePoint(p), "frame: input point unchanged")
			if out != nil {
				v.Assert(out == edge.Message(p), "the same point message is forwarded")
			}
		}
		v.Assert(err == nil, "no error returned")
		v.Assert((out != nil) == want, "forwarded iff the predicate evaluates to true without error")
		// (AND/OR short-circuit: an operand that is not needed is not evaluated, so a
		// missing operand need not be reported; the converse must hold)
		v.Assert(diag.errors == errsBefore || wantFail, "an evaluation error is reported only when the lambda cannot be evaluated")
		if pi != 1 {
			v.Assert((diag.errors > errsBefore) == wantFail, "a missing or wrongly typed operand is reported as an error")
		}
		if out != nil {
			passed++
		}
	}
	v.Observe("passed", passed, diag.errors)
	v.Reach("end")
}

// VerifC10StateTracking: stateCount and stateDuration nodes, one group's receiver driven
// by k messages. Documented: the value is added as an additional field; -1 when the
// predicate is false (and the state is reset); otherwise the number of consecutive points
// in the state counted from 1 / the time since the first point of the run divided by the
// unit (0 for the first point of a run); a point whose predicate errors is discarded and
// does not affect the state; batch: the state is reset at every batch begin.
func VerifC10StateTracking(v *vrt.T) {
	pis := []int{0, 2}
	pi := pis[v.Choose("lambda", v.Bound("lambdas", 1))]
	pred := c10Preds[pi]
	diag := &verifNopDiag{}
	as := []string{"s", "f"}[v.Choose("as", 2)]
	duration := v.Choose("node", 2) == 1
	unit := time.Duration(v.IntRange("unit", 1, 2000000000))
	var n *StateTrackingNode
	var err error
	if duration {
		n, err = newStateDurationNode(nil, &pipeline.StateDurationNode{Lambda: c10Lambda(v, pred.text), As: as, Unit: unit}, diag)
	} else {
		n, err = newStateCountNode(nil, &pipeline.StateCountNode{Lambda: c10Lambda(v, pred.text), As: as}, diag)
	}
	v.Assert(err == nil, "node created")
	g := n.newGroup()
	k := v.Bound("points", 3)
	batch := v.Choose("edge", 2) == 1
	dims := models.Dimensions{TagNames: []string{"u"}}
	fkinds := []int{c10Int, c10Float, c10Missing}
	if v.Bound("allkinds", 0) == 1 {
		fkinds = []int{c10Int, c10Float, c10String, c10Missing}
	}

	var count int64
	inRun := false
	var start time.Time
	emitted := 0
	for i := 0; i < k; i++ {
		if batch && (i == 0 || v.Choose("newbatch", 2) == 1) {
			begin := edge.NewBeginBatchMessage("m", models.Tags{"u": "b"}, false, time.Unix(0, verifT2020+1000).UTC(), 2)
			snap := c10SnapBegin(begin)
			out, err := g.BeginBatch(begin)
			v.Assert(err == nil && out != nil, "begin forwarded")
			ob, ok := out.(edge.BeginBatchMessage)
			v.Assert(ok && snap.sameBegin(begin) && snap.sameBegin(ob), "begin forwarded unmodified, input unchanged")
			count, inRun = 0, false
		}
		fields, tags := c10PredInput(v, pi, fkinds)
		t := v.Time("time", verifT2020-32, verifT2020+32)
		pass, fail := pred.eval(fields, tags)
		var wantVal interface{}
		if !fail {
			if duration {
				if pass {
					if !inRun {
						inRun, start = true, t
					}
					wantVal = float64(t.Sub(start)) / float64(unit)
				} else {
					inRun = false
					wantVal = float64(-1)
				}
			} else {
				if pass {
					count++
					wantVal = count
				} else {
					count = 0
					wantVal = int64(-1)
				}
			}
		}
		wantF := c10CopyFields(fields)
		wantF[as] = wantVal

		var out edge.Message
		var err error
		if batch {
			bp := edge.NewBatchPointMessage(fields, tags, t)
			snap := c10SnapBatchPoint(bp)
			out, err = g.BatchPoint(bp)
			v.Assert(snap.sameBatchPoint(bp), "frame: input batch point unchanged")
			v.Assert(err == nil && (out != nil) == !fail, "batch point discarded exactly when the predicate cannot be evaluated")
			if out != nil && !fail {
				op, ok := out.(edge.BatchPointMessage)
				v.Assert(ok, "output is a batch point")
				v.Assert(c10FieldsEq(op.Fields(), wantF), "batch: state value added as a field, other fields kept")
				v.Assert(c10TagsEq(op.Tags(), snap.tags) && op.Time().Equal(t), "batch: tags and time kept")
				v.Observe("value", op.Fields()[as])
			}
		} else {
			p := edge.NewPointMessage("m", "db", "rp", dims, fields, tags, t)
			snap := c10SnapPoint(p)
			out, err = g.Point(p)
			v.Assert(snap.samePoint(p), "frame: input point unchanged")
			v.Assert(err == nil && (out != nil) == !fail, "point discarded exactly when the predicate cannot be evaluated")
			if out != nil && !fail {
				op, ok := out.(edge.PointMessage)
				v.Assert(ok, "output is a point")
				v.Assert(c10FieldsEq(op.Fields(), wantF), "state value added as a field, other fields kept")
				v.Assert(c10TagsEq(op.Tags(), snap.tags) && op.Time().Equal(t) && op.Name() == "m" && op.Database() == "db" && op.RetentionPolicy() == "rp" && op.GroupID() == snap.gid && c10DimsEq(op.Dimensions(), false, dims.TagNames), "name, db, rp, tags, time, group kept")
				v.Observe("value", op.Fields()[as])
			}
		}
		if out != nil {
			emitted++
		}
	}
	v.Observe("emitted", emitted)
	v.Reach("end")
}
