package kapacitor

import (
	"time"

	"github.com/influxdata/kapacitor/edge"
	"github.com/influxdata/kapacitor/models"
	"github.com/influxdata/kapacitor/pipeline"
	"github.com/influxdata/kapacitor/tick/ast"
	vrt "github.com/influxdata/kapacitor/zz_vrt"
)

type c10CombCfg struct {
	lambdas [2]string
	match   [2]func(tags map[string]string) bool
}

func c10True(map[string]string) bool { return true }
func c10TagIsA(tags map[string]string) bool {
	x, ok := tags["t"]
	return ok && x == "a"
}

var c10CombCfgs = []c10CombCfg{
	{[2]string{`"t" == 'a'`, `TRUE`}, [2]func(map[string]string) bool{c10TagIsA, c10True}},
	{[2]string{`TRUE`, `TRUE`}, [2]func(map[string]string) bool{c10True, c10True}},
	{[2]string{`TRUE`, `"t" == 'a'`}, [2]func(map[string]string) bool{c10True, c10TagIsA}},
}

// VerifC10Combine: combine node (two expressions, as('l','r')) group receiver.
// Documented: points with the same time are grouped and all combinations (here pairs,
// order independent, never the same point twice) are created in which one point matches
// the first and the other the second expression; fields and non-dimension tags of the
// two points are prefixed with the respective name and the delimiter.
func VerifC10Combine(v *vrt.T) {
	ci := v.Choose("cfg", v.Bound("cfgs", len(c10CombCfgs)))
	c := c10CombCfgs[ci]
	diag := &verifNopDiag{}
	var ls []*ast.LambdaNode
	for _, s := range c.lambdas {
		ls = append(ls, c10Lambda(v, s))
	}
	tol := []time.Duration{0, 10}[v.Choose("tolerance", v.Bound("tolerances", 2))]
	pn := &pipeline.CombineNode{Lambdas: ls, Names: []string{"l", "r"}, Delimiter: ".", Max: 1000, Tolerance: tol}
	n, err := newCombineNode(nil, pn, diag)
	v.Assert(err == nil, "node created")
	out := &c10Edge{}
	n.outs = []edge.StatsEdge{out}
	n.timer = c10Timer{}
	k := v.Bound("points", 2)
	batch := v.Choose("edge", 2) == 1
	dims := models.Dimensions{TagNames: []string{"h"}}

	type in struct {
		ns     int64
		fields map[string]interface{}
		tags   map[string]string
	}
	var ins []in
	var b edge.Receiver
	var points []edge.PointMessage
	var bpoints []edge.BatchPointMessage
	var snaps []c10Snap
	ns := verifT2020
	for i := 0; i < k; i++ {
		if i > 0 {
			if tol == 0 {
				ns += int64(v.IntRange("dt", 0, 1))
			} else {
				ns += int64(v.IntRange("dt", 0, 12))
			}
		} else if tol != 0 {
			// the first point of a group need not be aligned to the tolerance
			ns += int64(v.IntRange("t0", 0, 9))
		}
		tags := models.Tags{"h": "x"}
		if x, ok := c10Tag(v, []int{c10TagByte, c10TagMissing}); ok {
			tags["t"] = x
		}
		fields := models.Fields{"f": v.Int64("val")}
		ins = append(ins, in{c10RoundRef(ns, int64(tol)), c10CopyFields(fields), c10CopyTags(tags)}) // points are combined per rounded time
		t := time.Unix(0, ns).UTC()
		if batch {
			bp := edge.NewBatchPointMessage(fields, tags, t)
			if b == nil {
				begin := edge.NewBeginBatchMessage("m", models.Tags{"h": "x"}, false, time.Unix(0, verifT2020+100).UTC(), k)
				var err error
				b, err = n.NewGroup(begin.GroupInfo(), begin)
				v.Assert(err == nil, "group created")
				v.Assert(b.BeginBatch(begin) == nil, "no error")
			}
			bpoints = append(bpoints, bp)
			snaps = append(snaps, c10SnapBatchPoint(bp))
			v.Assert(b.BatchPoint(bp) == nil, "no error")
		} else {
			p := edge.NewPointMessage("m", "db", "rp", dims, fields, tags, t)
			if b == nil {
				var err error
				b, err = n.NewGroup(p.GroupInfo(), p)
				v.Assert(err == nil, "group created")
			}
			points = append(points, p)
			snaps = append(snaps, c10SnapPoint(p))
			v.Assert(b.Point(p) == nil, "no error")
		}
	}
	if batch {
		v.Assert(b.EndBatch(edge.NewEndBatchMessage()) == nil, "no error")
	} else {
		// a later point flushes the last time
		p := edge.NewPointMessage("m", "db", "rp", dims, models.Fields{"f": int64(0)}, models.Tags{"h": "x"}, time.Unix(0, ns+50).UTC())
		v.Assert(b.Point(p) == nil, "no error")
	}
	for i := range snaps {
		if batch {
			v.Assert(snaps[i].sameBatchPoint(bpoints[i]), "frame: input batch points unchanged (time included)")
		} else {
			v.Assert(snaps[i].samePoint(points[i]), "frame: input points unchanged (time included)")
		}
	}

	// reference: all unordered pairs of distinct points with equal time for which the two
	// expressions can be assigned to the two points
	type pair struct{ a, b int } // a <- expression 0 ("l"), b <- expression 1 ("r"); alt: the other valid assignment
	type want struct {
		ns   int64
		opts []pair
	}
	var wants []want
	for i := 0; i < len(ins); i++ {
		for j := i + 1; j < len(ins); j++ {
			if ins[i].ns != ins[j].ns {
				continue
			}
			var opts []pair
			if c.match[0](ins[i].tags) && c.match[1](ins[j].tags) {
				opts = append(opts, pair{i, j})
			}
			if c.match[0](ins[j].tags) && c.match[1](ins[i].tags) {
				opts = append(opts, pair{j, i})
			}
			if len(opts) > 0 {
				wants = append(wants, want{ins[i].ns, opts})
			}
		}
	}
	expect := func(p pair) (map[string]interface{}, map[string]string) {
		f := map[string]interface{}{"l.f": ins[p.a].fields["f"], "r.f": ins[p.b].fields["f"]}
		t := map[string]string{"h": "x"}
		if x, ok := ins[p.a].tags["t"]; ok {
			t["l.t"] = x
		}
		if x, ok := ins[p.b].tags["t"]; ok {
			t["r.t"] = x
		}
		return f, t
	}
	matches := func(op edge.PointMessage, w want) bool {
		if op.Time().UnixNano() != w.ns {
			return false
		}
		for _, o := range w.opts {
			f, t := expect(o)
			if c10FieldsEq(op.Fields(), f) && c10TagsEq(op.Tags(), t) {
				return true
			}
		}
		return false
	}
	var got []edge.PointMessage
	for _, m := range out.msgs {
		op, ok := m.(edge.PointMessage)
		v.Assert(ok, "outputs are points")
		got = append(got, op)
	}
	v.Observe("combined", len(got))
	v.Assert(len(got) == len(wants), "one combined point per pair of simultaneous points that the two expressions can be assigned to")
	for _, w := range wants {
		found := false
		for _, op := range got {
			if matches(op, w) {
				found = true
				break
			}
		}
		v.Assert(found, "every matching pair is emitted with prefixed fields and tags")
	}
	for _, op := range got {
		found := false
		for _, w := range wants {
			if matches(op, w) {
				found = true
				break
			}
		}
		v.Assert(found, "every emitted point is the combination of a matching pair")
		v.Assert(op.Name() == "m" && c10DimsEq(op.Dimensions(), false, dims.TagNames) && op.GroupID() == models.ToGroupID("m", map[string]string{"h": "x"}, dims), "combined point carries the group's name and dimensions")
	}
	v.Reach("end")
}
