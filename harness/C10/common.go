package kapacitor

import (
	"math"
	"time"

	"github.com/influxdata/kapacitor/edge"
	"github.com/influxdata/kapacitor/models"
	vrt "github.com/influxdata/kapacitor/zz_vrt"
)

// Field kinds of the symbolic input point.
const (
	c10Int = iota
	c10Float
	c10String
	c10Bool
	c10Missing
	c10Nil // present with a nil value (only used where the documentation mentions nil)
)

var c10AllKinds = []int{c10Int, c10Float, c10String, c10Bool, c10Missing}
var c10NumKinds = []int{c10Int, c10Float, c10Missing}

// c10Field draws one field value: the kind is structural (Choose among kinds), the value
// symbolic. ok=false means the field is absent from the point.
func c10Field(v *vrt.T, kinds []int) (val interface{}, ok bool) {
	switch kinds[v.Choose("kind", len(kinds))] {
	case c10Int:
		return v.Int64("int"), true
	case c10Float:
		return v.Float64("float"), true
	case c10String:
		return v.String("str", 1), true
	case c10Bool:
		return v.Bool("bool"), true
	case c10Nil:
		return nil, true
	}
	return nil, false
}

// Tag shapes.
const (
	c10TagByte = iota // one arbitrary byte
	c10TagMissing
	c10TagEmpty // present, ""
)

func c10Tag(v *vrt.T, shapes []int) (string, bool) {
	switch shapes[v.Choose("tag", len(shapes))] {
	case c10TagByte:
		return v.String("tagv", 1), true
	case c10TagEmpty:
		return "", true
	}
	return "", false
}

// verifSameFloat64 is equality of floats as data: same bit pattern (NaN equals NaN, unlike
// ==). The engine models it as SMT "=" on floats (engine/sym/intrinsics_c10.go).
func verifSameFloat64(x, y float64) bool {
	return math.Float64bits(x) == math.Float64bits(y)
}

// c10Same is equality of field values as data.
func c10Same(a, b interface{}) bool {
	if x, ok := a.(float64); ok {
		if y, ok := b.(float64); ok {
			return verifSameFloat64(x, y)
		}
		return false
	}
	return a == b
}

func c10FieldsEq(got models.Fields, want map[string]interface{}) bool {
	if len(got) != len(want) {
		return false
	}
	eq := true
	for k, w := range want {
		g, ok := got[k]
		if !ok {
			return false
		}
		eq = eq && c10Same(g, w)
	}
	return eq
}

func c10TagsEq(got models.Tags, want map[string]string) bool {
	if len(got) != len(want) {
		return false
	}
	eq := true
	for k, w := range want {
		g, ok := got[k]
		if !ok {
			return false
		}
		eq = eq && g == w
	}
	return eq
}

func c10DimsEq(a models.Dimensions, byName bool, names []string) bool {
	if a.ByName != byName || len(a.TagNames) != len(names) {
		return false
	}
	for i := range names {
		if a.TagNames[i] != names[i] {
			return false
		}
	}
	return true
}

func c10CopyFields(f models.Fields) map[string]interface{} {
	if f == nil {
		return nil
	}
	c := make(map[string]interface{}, len(f))
	for k, x := range f {
		c[k] = x
	}
	return c
}

func c10CopyTags(t models.Tags) map[string]string {
	if t == nil {
		return nil
	}
	c := make(map[string]string, len(t))
	for k, x := range t {
		c[k] = x
	}
	return c
}

// c10Snap is everything another branch of the pipeline can read from a message.
type c10Snap struct {
	name, db, rp string
	gid          models.GroupID
	byName       bool
	dims         []string
	tags         map[string]string
	fields       map[string]interface{}
	t            time.Time
	size         int
}

func c10SnapPoint(p edge.PointMessage) c10Snap {
	d := p.Dimensions()
	return c10Snap{name: p.Name(), db: p.Database(), rp: p.RetentionPolicy(), gid: p.GroupID(), byName: d.ByName,
		dims: append([]string(nil), d.TagNames...), tags: c10CopyTags(p.Tags()), fields: c10CopyFields(p.Fields()), t: p.Time()}
}

func (s c10Snap) samePoint(p edge.PointMessage) bool {
	return p.Name() == s.name && p.Database() == s.db && p.RetentionPolicy() == s.rp && p.GroupID() == s.gid &&
		c10DimsEq(p.Dimensions(), s.byName, s.dims) && c10TagsEq(p.Tags(), s.tags) && c10FieldsEq(p.Fields(), s.fields) &&
		p.Time().Equal(s.t)
}

func c10SnapBatchPoint(p edge.BatchPointMessage) c10Snap {
	return c10Snap{tags: c10CopyTags(p.Tags()), fields: c10CopyFields(p.Fields()), t: p.Time()}
}

func (s c10Snap) sameBatchPoint(p edge.BatchPointMessage) bool {
	return c10TagsEq(p.Tags(), s.tags) && c10FieldsEq(p.Fields(), s.fields) && p.Time().Equal(s.t)
}

func c10SnapBegin(b edge.BeginBatchMessage) c10Snap {
	d := b.Dimensions()
	return c10Snap{name: b.Name(), gid: b.GroupID(), byName: d.ByName, dims: append([]string(nil), d.TagNames...),
		tags: c10CopyTags(b.Tags()), t: b.Time(), size: b.SizeHint()}
}

func (s c10Snap) sameBegin(b edge.BeginBatchMessage) bool {
	return b.Name() == s.name && b.GroupID() == s.gid && c10DimsEq(b.Dimensions(), s.byName, s.dims) &&
		c10TagsEq(b.Tags(), s.tags) && b.Time().Equal(s.t) && b.SizeHint() == s.size
}

// c10Time is a symbolic instant near 2020-01-01 (narrow range).
func c10Time(v *vrt.T) time.Time {
	return v.Time("time", verifT2020-64, verifT2020+64)
}

func c10SortedKeys(m map[string]string) []string {
	var ks []string
	for k := range m {
		ks = append(ks, k)
	}
	for i := 1; i < len(ks); i++ {
		for j := i; j > 0 && ks[j] < ks[j-1]; j-- {
			ks[j], ks[j-1] = ks[j-1], ks[j]
		}
	}
	return ks
}
