package kapacitor

import (
	"time"

	"github.com/influxdata/kapacitor/edge"
	"github.com/influxdata/kapacitor/models"
	"github.com/influxdata/kapacitor/pipeline"
	vrt "github.com/influxdata/kapacitor/zz_vrt"
)

// c10Num converts a numeric field value to float (reference side).
func c10Num(x interface{}) (float64, bool) {
	if i, ok := x.(int64); ok {
		return float64(i), true
	}
	if f, ok := x.(float64); ok {
		return f, true
	}
	return 0, false
}

// VerifC10Derivative: derivative node, one group's receiver driven by k messages.
// Documented: emits (cur-prev)/(elapsed/unit) as a float under the `as` name on the second
// and later numeric points; a current value of the wrong type (or missing) is skipped and
// the previous point is kept; zero elapsed time, or a negative difference with
// nonNegative, stores the point as previous but emits nothing; batch: previous is reset
// at every batch begin.
func VerifC10Derivative(v *vrt.T) {
	// unit and nonNegative are data: symbolic
	unit := time.Duration(v.IntRange("unit", 1, 2000000000))
	nonNeg := v.Bool("nonNegative")
	as := []string{"f", "d"}[v.Choose("as", 2)]
	n, err := newDerivativeNode(nil, &pipeline.DerivativeNode{Field: "f", As: as, Unit: unit, NonNegativeFlag: nonNeg}, &verifNopDiag{})
	v.Assert(err == nil, "node created")
	g := n.newGroup()
	k := v.Bound("points", 3)
	batch := v.Choose("edge", 2) == 1
	if batch {
		k = v.Bound("batchpoints", 2)
	}
	dims := models.Dimensions{TagNames: []string{"t"}}
	tags := models.Tags{"t": "a"}

	var havePrev bool
	var prevVal float64
	var prevT time.Time
	type rec struct {
		p    edge.PointMessage
		bp   edge.BatchPointMessage
		snap c10Snap
	}
	var inputs []rec
	emitted := 0
	for i := 0; i < k; i++ {
		if batch && (i == 0 || v.Choose("newbatch", 2) == 1) {
			size := 0
			if i == 0 {
				size = 2 * v.Choose("size", 2)
			}
			begin := edge.NewBeginBatchMessage("m", tags, false, time.Unix(0, verifT2020+1000).UTC(), size)
			snap := c10SnapBegin(begin)
			out, err := g.BeginBatch(begin)
			v.Assert(err == nil && out != nil, "begin forwarded")
			ob, ok := out.(edge.BeginBatchMessage)
			v.Assert(ok && snap.sameBegin(begin), "frame: input begin message unchanged")
			v.Assert(ob.Name() == "m" && c10TagsEq(ob.Tags(), snap.tags) && ob.Time().Equal(snap.t) && ob.GroupID() == snap.gid, "begin keeps name, tags, time, group")
			havePrev = false
		}
		fields := models.Fields{"g": int64(i)}
		kinds := []int{c10Int, c10Float, c10String}
		if i == 0 || v.Bound("allkinds", 0) == 1 {
			kinds = []int{c10Int, c10Float, c10String, c10Missing}
		}
		cur, present := c10Field(v, kinds)
		if present {
			fields["f"] = cur
		}
		if f, ok := cur.(float64); ok {
			// line protocol carries no NaN/Inf
			v.Assume(f == f && f-f == 0)
		}
		t := v.Time("time", verifT2020-32, verifT2020+32)

		// reference
		wantEmit := false
		var wantVal float64
		if f1, ok := c10Num(cur); ok {
			if havePrev {
				elapsed := float64(t.Sub(prevT))
				diff := f1 - prevVal
				if elapsed != 0 && !(nonNeg && diff < 0) {
					wantEmit = true
					wantVal = diff / (elapsed / float64(unit))
				}
			}
			havePrev, prevVal, prevT = true, f1, t
		}
		wantF := c10CopyFields(fields)
		wantF[as] = wantVal

		var out edge.Message
		var err error
		r := rec{}
		if batch {
			r.bp = edge.NewBatchPointMessage(fields, tags, t)
			r.snap = c10SnapBatchPoint(r.bp)
			out, err = g.BatchPoint(r.bp)
		} else {
			r.p = edge.NewPointMessage("m", "db", "rp", dims, fields, tags, t)
			r.snap = c10SnapPoint(r.p)
			out, err = g.Point(r.p)
		}
		inputs = append(inputs, r)
		v.Assert(err == nil, "no error")
		v.Assert((out != nil) == wantEmit, "emits exactly on numeric points with a numeric predecessor, non-zero elapsed time and (nonNegative) non-negative difference")
		if out != nil && wantEmit {
			emitted++
			if batch {
				op, ok := out.(edge.BatchPointMessage)
				v.Assert(ok, "output is a batch point")
				v.Assert(c10FieldsEq(op.Fields(), wantF), "batch: derivative value under `as`, other fields kept")
				v.Assert(c10TagsEq(op.Tags(), r.snap.tags) && op.Time().Equal(t), "batch: tags and time kept")
				v.Observe("value", op.Fields()[as])
			} else {
				op, ok := out.(edge.PointMessage)
				v.Assert(ok, "output is a point")
				v.Assert(c10FieldsEq(op.Fields(), wantF), "derivative value under `as`, other fields kept")
				v.Assert(c10TagsEq(op.Tags(), r.snap.tags) && op.Time().Equal(t) && op.Name() == "m" && op.Database() == "db" && op.RetentionPolicy() == "rp" && op.GroupID() == r.snap.gid && c10DimsEq(op.Dimensions(), false, dims.TagNames), "name, db, rp, tags, time, group kept")
				v.Observe("value", op.Fields()[as])
			}
		}
		// frame: no input seen so far (the node keeps references to earlier ones) was altered
		for _, in := range inputs {
			if batch {
				v.Assert(in.snap.sameBatchPoint(in.bp), "frame: input batch points unchanged")
			} else {
				v.Assert(in.snap.samePoint(in.p), "frame: input points unchanged")
			}
		}
	}
	v.Observe("emitted", emitted)
	v.Reach("end")
}
