package kapacitor

import (
	"time"

	"github.com/influxdata/kapacitor/edge"
	"github.com/influxdata/kapacitor/models"
	"github.com/influxdata/kapacitor/pipeline"
	vrt "github.com/influxdata/kapacitor/zz_vrt"
)

// VerifC10ChangeDetect: changeDetect node, one group's receiver driven by k messages.
// Documented: the data are unchanged, but only the points where a listed field changes
// from the previous (last emitted) value are emitted; the first point is emitted; batch:
// the memory is reset at every batch begin. A listed field that the point lacks cannot
// signal a change.
func VerifC10ChangeDetect(v *vrt.T) {
	lists := [][]string{{"f"}, {"f", "g"}}
	list := lists[v.Choose("fields", len(lists))]
	n, err := newChangeDetectNode(nil, &pipeline.ChangeDetectNode{Fields: append([]string(nil), list...)}, &verifNopDiag{})
	v.Assert(err == nil, "node created")
	g := n.newGroup()
	k := v.Bound("points", 3)
	batch := v.Choose("edge", 2) == 1
	dims := models.Dimensions{TagNames: []string{"t"}}
	tags := models.Tags{"t": "a"}
	fkinds := []int{c10Int, c10Float, c10Missing}
	gkinds := []int{c10Int, c10Missing}
	if v.Bound("allkinds", 0) == 1 {
		fkinds = []int{c10Int, c10Float, c10String, c10Bool, c10Missing}
		gkinds = []int{c10Int, c10String, c10Missing}
	}

	var last map[string]interface{} // fields of the last emitted point (nil: none)
	type rec struct {
		p    edge.PointMessage
		bp   edge.BatchPointMessage
		snap c10Snap
	}
	var inputs []rec
	emitted := 0
	for i := 0; i < k; i++ {
		if batch && (i == 0 || v.Choose("newbatch", 2) == 1) {
			size := 0
			if i == 0 {
				size = 2 * v.Choose("size", 2)
			}
			begin := edge.NewBeginBatchMessage("m", tags, false, time.Unix(0, verifT2020+1000).UTC(), size)
			snap := c10SnapBegin(begin)
			out, err := g.BeginBatch(begin)
			v.Assert(err == nil && out != nil, "begin forwarded")
			ob, ok := out.(edge.BeginBatchMessage)
			v.Assert(ok && snap.sameBegin(begin), "frame: input begin message unchanged")
			v.Assert(ob.Name() == "m" && c10TagsEq(ob.Tags(), snap.tags) && ob.Time().Equal(snap.t) && ob.GroupID() == snap.gid, "begin keeps name, tags, time, group")
			last = nil
		}
		fields := models.Fields{}
		if x, ok := c10Field(v, fkinds); ok {
			if f, isf := x.(float64); isf {
				v.Assume(f == f) // line protocol carries no NaN
			}
			fields["f"] = x
		}
		if x, ok := c10Field(v, gkinds); ok {
			fields["g"] = x
		}
		t := v.Time("time", verifT2020-32, verifT2020+32)

		// reference
		want := false
		for _, name := range list {
			cur, ok := fields[name]
			if !ok {
				continue
			}
			prev, had := last[name]
			if !had || prev != cur {
				want = true
			}
		}
		if want {
			last = c10CopyFields(fields)
		}

		var out edge.Message
		var err error
		r := rec{}
		if batch {
			r.bp = edge.NewBatchPointMessage(fields, tags, t)
			r.snap = c10SnapBatchPoint(r.bp)
			out, err = g.BatchPoint(r.bp)
		} else {
			r.p = edge.NewPointMessage("m", "db", "rp", dims, fields, tags, t)
			r.snap = c10SnapPoint(r.p)
			out, err = g.Point(r.p)
		}
		inputs = append(inputs, r)
		v.Assert(err == nil, "no error")
		v.Assert((out != nil) == want, "emitted iff a listed field present in the point differs from the last emitted point (or nothing was emitted yet)")
		if out != nil {
			emitted++
			if batch {
				op, ok := out.(edge.BatchPointMessage)
				v.Assert(ok && r.snap.sameBatchPoint(op), "emitted batch point carries the unchanged data")
			} else {
				op, ok := out.(edge.PointMessage)
				v.Assert(ok && r.snap.samePoint(op), "emitted point carries the unchanged data")
			}
		}
		for _, in := range inputs {
			if batch {
				v.Assert(in.snap.sameBatchPoint(in.bp), "frame: input batch points unchanged")
			} else {
				v.Assert(in.snap.samePoint(in.p), "frame: input points unchanged")
			}
		}
	}
	v.Observe("emitted", emitted)
	v.Reach("end")
}
