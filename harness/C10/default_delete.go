package kapacitor

import (
	"github.com/influxdata/kapacitor/edge"
	"github.com/influxdata/kapacitor/expvar"
	"github.com/influxdata/kapacitor/models"
	"github.com/influxdata/kapacitor/pipeline"
	vrt "github.com/influxdata/kapacitor/zz_vrt"
)

// c10Input draws the symbolic point content used by the stateless node harnesses:
// fields f,g (kind by Choose, value symbolic), tags t,u (shape by Choose, value one
// symbolic byte), name "m".
func c10Input(v *vrt.T, kinds []int, shapes []int) (models.Fields, models.Tags) {
	fields := models.Fields{}
	for _, k := range []string{"f", "g"} {
		if x, ok := c10Field(v, kinds); ok {
			fields[k] = x
		}
	}
	tags := models.Tags{}
	for _, k := range []string{"t", "u"} {
		if x, ok := c10Tag(v, shapes); ok {
			tags[k] = x
		}
	}
	return fields, tags
}

// c10DimChoices: group-by dimensions of the incoming stream point.
var c10DimChoices = [][]string{{}, {"t"}, {"t", "u"}}

// VerifC10Default: default node, stream and batch receiver methods.
// Documented: a field is set to its default iff absent (or nil); a tag iff absent or "".
func VerifC10Default(v *vrt.T) {
	// configuration: which of f,g / t,u carry a default; default values symbolic
	cfgF := map[string]interface{}{}
	if v.Choose("deff", 2) == 1 {
		cfgF["f"] = v.Int64("dfv")
	}
	if v.Choose("defg", 2) == 1 {
		cfgF["g"] = v.Float64("dgv")
	}
	cfgT := map[string]string{}
	if v.Choose("deft", 2) == 1 {
		cfgT["t"] = v.String("dtv", 1)
	}
	if v.Choose("defu", 2) == 1 {
		cfgT["u"] = "" // documented example: default the tag to the empty string
	}
	wantCfgF, wantCfgT := c10CopyFields(cfgF), c10CopyTags(cfgT)
	n := &DefaultNode{
		node:            node{diag: &verifNopDiag{}},
		d:               &pipeline.DefaultNode{Fields: cfgF, Tags: cfgT},
		fieldsDefaulted: new(expvar.Int),
		tagsDefaulted:   new(expvar.Int),
	}

	fields, tags := c10Input(v, []int{c10Int, c10String, c10Missing, c10Nil}, []int{c10TagByte, c10TagMissing, c10TagEmpty})
	t := c10Time(v)

	// reference
	wantF := map[string]interface{}{}
	for k, x := range fields {
		wantF[k] = x
	}
	for k, d := range wantCfgF {
		if x, ok := wantF[k]; !ok || x == nil {
			wantF[k] = d
		}
	}
	wantT := map[string]string{}
	for k, x := range tags {
		wantT[k] = x
	}
	for k, d := range wantCfgT {
		if x, ok := wantT[k]; !ok || x == "" {
			wantT[k] = d
		}
	}

	switch v.Choose("edge", 3) {
	case 0: // stream
		dims := models.Dimensions{ByName: v.Choose("byName", 2) == 1, TagNames: c10DimChoices[v.Choose("dims", len(c10DimChoices))]}
		p := edge.NewPointMessage("m", "db", "rp", dims, fields, tags, t)
		snap := c10SnapPoint(p)
		out, err := n.Point(p)
		v.Assert(err == nil && out != nil, "default forwards every point")
		op, ok := out.(edge.PointMessage)
		v.Assert(ok, "output is a point")
		v.Assert(snap.samePoint(p), "frame: input point, its fields and tags unchanged")
		v.Assert(c10FieldsEq(op.Fields(), wantF), "fields: defaults applied exactly to absent/nil fields")
		v.Assert(c10TagsEq(op.Tags(), wantT), "tags: defaults applied exactly to absent/empty tags")
		v.Assert(op.Name() == "m" && op.Database() == "db" && op.RetentionPolicy() == "rp" && op.Time().Equal(t), "name, db, rp, time kept")
		v.Assert(c10DimsEq(op.Dimensions(), dims.ByName, dims.TagNames), "dimensions kept")
		v.Assert(op.GroupID() == models.ToGroupID("m", wantT, dims), "group follows the output tags")
		v.Observe("nfields", len(op.Fields()), len(op.Tags()))
	case 1: // batch point
		bp := edge.NewBatchPointMessage(fields, tags, t)
		snap := c10SnapBatchPoint(bp)
		out, err := n.BatchPoint(bp)
		v.Assert(err == nil && out != nil, "default forwards every batch point")
		op, ok := out.(edge.BatchPointMessage)
		v.Assert(ok, "output is a batch point")
		v.Assert(snap.sameBatchPoint(bp), "frame: input batch point, its fields and tags unchanged")
		v.Assert(c10FieldsEq(op.Fields(), wantF), "batch fields: defaults applied exactly to absent/nil fields")
		v.Assert(c10TagsEq(op.Tags(), wantT), "batch tags: defaults applied exactly to absent/empty tags")
		v.Assert(op.Time().Equal(t), "batch point time kept")
		v.Observe("nfields", len(op.Fields()), len(op.Tags()))
	case 2: // batch begin/end
		byName := v.Choose("byName", 2) == 1
		begin := edge.NewBeginBatchMessage("m", tags, byName, t, 3)
		snap := c10SnapBegin(begin)
		out, err := n.BeginBatch(begin)
		v.Assert(err == nil && out != nil, "default forwards begin")
		ob, ok := out.(edge.BeginBatchMessage)
		v.Assert(ok, "output is a begin message")
		v.Assert(snap.sameBegin(begin), "frame: input begin message unchanged")
		v.Assert(c10TagsEq(ob.Tags(), wantT), "begin tags: defaults applied")
		v.Assert(ob.Name() == "m" && ob.Time().Equal(t) && ob.SizeHint() == 3 && ob.Dimensions().ByName == byName, "begin name, time, size kept")
		d := models.Dimensions{ByName: byName, TagNames: c10SortedKeys(wantT)}
		v.Assert(c10DimsEq(ob.Dimensions(), byName, d.TagNames) && ob.GroupID() == models.ToGroupID("m", wantT, d), "begin group follows its tags")
		end := edge.NewEndBatchMessage()
		eo, err := n.EndBatch(end)
		v.Assert(err == nil && eo == edge.Message(end), "end forwarded")
	}
	v.Reach("end")
}

// c10Has reports whether s contains x.
func c10Has(s []string, x string) bool {
	for _, y := range s {
		if y == x {
			return true
		}
	}
	return false
}

// VerifC10Delete: delete node, stream and batch receiver methods.
// Documented: the listed fields and tags are removed; a deleted tag that is a group
// dimension leaves the dimensions (stream).
func VerifC10Delete(v *vrt.T) {
	lists := [][]string{{}, {"f"}, {"g", "f"}, {"x"}}
	tlists := [][]string{{}, {"t"}, {"u", "t"}, {"u"}}
	delF := lists[v.Choose("delf", len(lists))]
	delT := tlists[v.Choose("delt", len(tlists))]
	n, err := newDeleteNode(nil, &pipeline.DeleteNode{Fields: append([]string(nil), delF...), Tags: append([]string(nil), delT...)}, &verifNopDiag{})
	v.Assert(err == nil, "node created")

	fields, tags := c10Input(v, []int{c10Int, c10Float, c10Missing}, []int{c10TagByte, c10TagMissing})
	t := c10Time(v)

	wantF := map[string]interface{}{}
	for k, x := range fields {
		if !c10Has(delF, k) {
			wantF[k] = x
		}
	}
	wantT := map[string]string{}
	for k, x := range tags {
		if !c10Has(delT, k) {
			wantT[k] = x
		}
	}

	switch v.Choose("edge", 3) {
	case 0:
		dims := models.Dimensions{ByName: v.Choose("byName", 2) == 1, TagNames: c10DimChoices[v.Choose("dims", len(c10DimChoices))]}
		var wantDims []string
		for _, d := range dims.TagNames {
			if !c10Has(delT, d) {
				wantDims = append(wantDims, d)
			}
		}
		p := edge.NewPointMessage("m", "db", "rp", dims, fields, tags, t)
		snap := c10SnapPoint(p)
		out, err := n.Point(p)
		v.Assert(err == nil && out != nil, "delete forwards every point")
		op, ok := out.(edge.PointMessage)
		v.Assert(ok, "output is a point")
		v.Assert(snap.samePoint(p), "frame: input point, its fields and tags unchanged")
		v.Assert(c10FieldsEq(op.Fields(), wantF), "fields: exactly the listed fields removed")
		v.Assert(c10TagsEq(op.Tags(), wantT), "tags: exactly the listed tags removed")
		v.Assert(op.Name() == "m" && op.Database() == "db" && op.RetentionPolicy() == "rp" && op.Time().Equal(t), "name, db, rp, time kept")
		v.Assert(c10DimsEq(op.Dimensions(), dims.ByName, wantDims), "deleted tags leave the dimensions")
		v.Assert(op.GroupID() == models.ToGroupID("m", wantT, models.Dimensions{ByName: dims.ByName, TagNames: wantDims}), "group follows the output tags and dimensions")
		v.Observe("n", len(op.Fields()), len(op.Tags()), len(op.Dimensions().TagNames))
	case 1:
		bp := edge.NewBatchPointMessage(fields, tags, t)
		snap := c10SnapBatchPoint(bp)
		out, err := n.BatchPoint(bp)
		v.Assert(err == nil && out != nil, "delete forwards every batch point")
		op, ok := out.(edge.BatchPointMessage)
		v.Assert(ok, "output is a batch point")
		v.Assert(snap.sameBatchPoint(bp), "frame: input batch point, its fields and tags unchanged")
		v.Assert(c10FieldsEq(op.Fields(), wantF), "batch fields: exactly the listed fields removed")
		v.Assert(c10TagsEq(op.Tags(), wantT), "batch tags: exactly the listed tags removed")
		v.Assert(op.Time().Equal(t), "batch point time kept")
		v.Observe("n", len(op.Fields()), len(op.Tags()))
	case 2:
		byName := v.Choose("byName", 2) == 1
		begin := edge.NewBeginBatchMessage("m", tags, byName, t, 3)
		snap := c10SnapBegin(begin)
		out, err := n.BeginBatch(begin)
		v.Assert(err == nil && out != nil, "delete forwards begin")
		ob, ok := out.(edge.BeginBatchMessage)
		v.Assert(ok, "output is a begin message")
		v.Assert(snap.sameBegin(begin), "frame: input begin message unchanged")
		v.Assert(c10TagsEq(ob.Tags(), wantT), "begin tags: listed tags removed")
		v.Assert(ob.Name() == "m" && ob.Time().Equal(t) && ob.SizeHint() == 3, "begin name, time, size kept")
		d := models.Dimensions{ByName: byName, TagNames: c10SortedKeys(wantT)}
		v.Assert(c10DimsEq(ob.Dimensions(), byName, d.TagNames) && ob.GroupID() == models.ToGroupID("m", wantT, d), "begin group follows its tags")
		end := edge.NewEndBatchMessage()
		eo, err := n.EndBatch(end)
		v.Assert(err == nil && eo == edge.Message(end), "end forwarded")
	}
	v.Reach("end")
}
