package kapacitor

import (
	"time"

	"github.com/influxdata/kapacitor/edge"
	"github.com/influxdata/kapacitor/expvar"
	"github.com/influxdata/kapacitor/models"
	"github.com/influxdata/kapacitor/pipeline"
	"github.com/influxdata/kapacitor/tick/ast"
	vrt "github.com/influxdata/kapacitor/zz_vrt"
)

// c10Edge is a child edge that records what the node forwards.
type c10Edge struct{ msgs []edge.Message }

func (e *c10Edge) Collect(m edge.Message) error            { e.msgs = append(e.msgs, m); return nil }
func (e *c10Edge) Emit() (edge.Message, bool)              { return nil, false }
func (e *c10Edge) Close() error                            { return nil }
func (e *c10Edge) Abort()                                  {}
func (e *c10Edge) Type() pipeline.EdgeType                 { return pipeline.StreamEdge }
func (e *c10Edge) Collected() int64                        { return int64(len(e.msgs)) }
func (e *c10Edge) Emitted() int64                          { return 0 }
func (e *c10Edge) CollectedVar() expvar.IntVar             { return &expvar.Int{} }
func (e *c10Edge) EmittedVar() expvar.IntVar               { return &expvar.Int{} }
func (e *c10Edge) ReadGroupStats(f func(*edge.GroupStats)) {}

type c10Timer struct{}

func (c10Timer) Start()  {}
func (c10Timer) Pause()  {}
func (c10Timer) Resume() {}
func (c10Timer) Stop()   {}

type c10GroupByCfg struct {
	dims    []interface{}
	exclude []string
	star    bool
	listed  []string // sorted
}

var c10GroupByCfgs = []c10GroupByCfg{
	{dims: []interface{}{"t"}, listed: []string{"t"}},
	{dims: []interface{}{"u", "t"}, listed: []string{"t", "u"}},
	{dims: []interface{}{}, listed: nil},
	{dims: []interface{}{&ast.StarNode{}}, star: true},
	{dims: []interface{}{&ast.StarNode{}}, star: true, exclude: []string{"t"}},
	{dims: []interface{}{&ast.StarNode{}}, star: true, exclude: []string{"u", "t"}}, // exclude list in script order, not sorted
	{dims: []interface{}{"x", "t"}, listed: []string{"t", "x"}},
}

// c10WantDims: documented dimensions = the listed tags sorted, or with * all tag keys of
// the point sorted, minus the excluded ones.
func c10WantDims(c c10GroupByCfg, tags map[string]string) []string {
	if !c.star {
		return c.listed
	}
	var out []string
	for _, k := range c10SortedKeys(tags) {
		if !c10Has(c.exclude, k) {
			out = append(out, k)
		}
	}
	return out
}

func c10NewGroupBy(v *vrt.T, c c10GroupByCfg, byMeasurement bool) (*GroupByNode, *c10Edge, *c10Edge) {
	pn := &pipeline.GroupByNode{Dimensions: c.dims, ExcludedDimensions: append([]string(nil), c.exclude...), ByMeasurementFlag: byMeasurement}
	n, err := newGroupByNode(nil, pn, &verifNopDiag{})
	v.Assert(err == nil, "node created")
	a, b := &c10Edge{}, &c10Edge{}
	n.outs = []edge.StatsEdge{a, b} // two children: a fork
	n.timer = c10Timer{}
	return n, a, b
}

// VerifC10GroupByPoint: groupBy on a stream point. Documented: the dimensions become the
// listed tags (sorted), or all tag keys with * minus the excluded ones; byMeasurement
// groups by name as well and is sticky; the group id follows; data unchanged.
func VerifC10GroupByPoint(v *vrt.T) {
	c := c10GroupByCfgs[v.Choose("cfg", len(c10GroupByCfgs))]
	byM := v.Choose("byMeasurement", 2) == 1
	n, a, b := c10NewGroupBy(v, c, byM)

	fields, tags := c10Input(v, []int{c10Int, c10Missing}, []int{c10TagByte, c10TagMissing})
	t := c10Time(v)
	inDims := models.Dimensions{ByName: v.Choose("byName", 2) == 1, TagNames: c10DimChoices[v.Choose("dims", len(c10DimChoices))]}
	p := edge.NewPointMessage("m", "db", "rp", inDims, fields, tags, t)
	snap := c10SnapPoint(p)
	err := n.Point(p)
	v.Assert(err == nil, "no error")
	v.Assert(snap.samePoint(p), "frame: input point (dimensions and group included), fields and tags unchanged")
	v.Assert(len(a.msgs) == 1 && len(b.msgs) == 1 && a.msgs[0] == b.msgs[0], "one point forwarded to every child")
	op, ok := a.msgs[0].(edge.PointMessage)
	v.Assert(ok, "output is a point")
	wantDims := c10WantDims(c, snap.tags)
	wantByName := inDims.ByName || byM
	v.Assert(c10DimsEq(op.Dimensions(), wantByName, wantDims), "dimensions = listed tags sorted / all tag keys minus excluded; byMeasurement sticky")
	v.Assert(op.GroupID() == models.ToGroupID("m", snap.tags, models.Dimensions{ByName: wantByName, TagNames: wantDims}), "group id follows the new dimensions")
	v.Assert(op.Name() == "m" && op.Database() == "db" && op.RetentionPolicy() == "rp" && op.Time().Equal(t) && c10FieldsEq(op.Fields(), snap.fields) && c10TagsEq(op.Tags(), snap.tags), "name, db, rp, time, fields, tags kept")
	gi := op.GroupInfo()
	gt := map[string]string{}
	for _, d := range wantDims {
		gt[d] = snap.tags[d]
	}
	v.Assert(c10TagsEq(gi.Tags, gt), "group tags = the dimension tags of the point")
	v.Observe("ndims", len(op.Dimensions().TagNames), op.Dimensions().ByName)
	v.Reach("end")
}

// VerifC10GroupByBatch: groupBy on a batch. Documented: the batch is split into one batch
// per distinct combination of dimension tag values; each carries the name and end time of
// the incoming batch, only the dimension tags, and its points (ordered by time).
func VerifC10GroupByBatch(v *vrt.T) {
	cfgs := []int{0, 1, 3, 4}
	c := c10GroupByCfgs[cfgs[v.Choose("cfg", len(cfgs))]]
	byM := v.Choose("byMeasurement", 2) == 1
	n, a, b := c10NewGroupBy(v, c, byM)
	k := v.Bound("points", 3)
	inByName := v.Choose("byName", 2) == 1
	tmax := time.Unix(0, verifT2020+1000).UTC()
	begin := edge.NewBeginBatchMessage("m", models.Tags{}, inByName, tmax, k)
	bsnap := c10SnapBegin(begin)
	v.Assert(n.BeginBatch(begin) == nil, "no error")
	v.Assert(len(a.msgs) == 0, "nothing emitted before the batch is complete")

	type ref struct {
		dims []string
		vals []string
		pts  []edge.BatchPointMessage
	}
	var groups []*ref
	var inputs []edge.BatchPointMessage
	var snaps []c10Snap
	for i := 0; i < k; i++ {
		tags := models.Tags{}
		for _, name := range []string{"t", "u"} {
			if x, ok := c10Tag(v, []int{c10TagByte, c10TagMissing}); ok {
				tags[name] = x
			}
		}
		bp := edge.NewBatchPointMessage(models.Fields{"f": int64(i)}, tags, v.Time("time", verifT2020-8, verifT2020+8))
		inputs = append(inputs, bp)
		snaps = append(snaps, c10SnapBatchPoint(bp))
		v.Assert(n.BatchPoint(bp) == nil, "no error")
		// reference grouping
		dims := c10WantDims(c, tags)
		vals := make([]string, len(dims))
		for j, d := range dims {
			vals[j] = tags[d]
		}
		var g *ref
		for _, r := range groups {
			same := len(r.dims) == len(dims)
			for j := 0; same && j < len(dims); j++ {
				same = r.dims[j] == dims[j] && r.vals[j] == vals[j]
			}
			if same {
				g = r
				break
			}
		}
		if g == nil {
			g = &ref{dims: dims, vals: vals}
			groups = append(groups, g)
		}
		g.pts = append(g.pts, bp)
	}
	v.Assert(n.EndBatch(edge.NewEndBatchMessage()) == nil, "no error")
	// the next batch (later end time) flushes the groups
	begin2 := edge.NewBeginBatchMessage("m", models.Tags{}, inByName, tmax.Add(time.Second), 0)
	v.Assert(n.BeginBatch(begin2) == nil, "no error")

	v.Assert(bsnap.sameBegin(begin), "frame: input begin message unchanged")
	for i, bp := range inputs {
		v.Assert(snaps[i].sameBatchPoint(bp), "frame: input batch points unchanged")
	}
	v.Assert(len(a.msgs) == len(groups) && len(b.msgs) == len(a.msgs), "one batch per distinct group, to every child")
	wantByName := inByName || byM
	for i, m := range a.msgs {
		v.Assert(m == b.msgs[i], "children receive the same messages")
		ob, ok := m.(edge.BufferedBatchMessage)
		v.Assert(ok, "output is a buffered batch")
		// find the reference group with these dimension values
		var g *ref
		for _, r := range groups {
			if !c10DimsEq(ob.Dimensions(), wantByName, r.dims) {
				continue
			}
			same := true
			for j, d := range r.dims {
				same = same && ob.Tags()[d] == r.vals[j]
			}
			if same {
				g = r
				break
			}
		}
		v.Assert(g != nil, "every emitted batch is one of the expected groups")
		if g == nil {
			continue
		}
		v.Assert(len(ob.Tags()) == len(g.dims), "batch tags are exactly the dimension tags")
		v.Assert(ob.Name() == "m" && ob.Time().Equal(tmax), "batch keeps name and end time")
		gt := map[string]string{}
		for j, d := range g.dims {
			gt[d] = g.vals[j]
		}
		v.Assert(ob.GroupID() == models.ToGroupID("m", gt, models.Dimensions{ByName: wantByName, TagNames: g.dims}), "batch group id")
		pts := ob.Points()
		v.Assert(len(pts) == len(g.pts) && ob.Begin().SizeHint() == len(pts), "batch holds exactly the points of its group")
		if len(pts) != len(g.pts) {
			continue
		}
		used := make([]bool, len(pts))
		for j, q := range pts {
			if j > 0 {
				v.Assert(!q.Time().Before(pts[j-1].Time()), "points ordered by time")
			}
			found := false
			for x, w := range g.pts {
				if !used[x] && w == q {
					used[x], found = true, true
					break
				}
			}
			v.Assert(found, "each point of the group appears once, unmodified")
		}
	}
	// distinct outputs
	for i := range a.msgs {
		for j := i + 1; j < len(a.msgs); j++ {
			v.Assert(a.msgs[i].(edge.BufferedBatchMessage).GroupID() != a.msgs[j].(edge.BufferedBatchMessage).GroupID(), "groups emitted once")
		}
	}
	v.Observe("groups", len(a.msgs))
	v.Reach("end")
}
