package kapacitor

import (
	"time"

	"github.com/influxdata/kapacitor/edge"
	"github.com/influxdata/kapacitor/models"
	"github.com/influxdata/kapacitor/pipeline"
	vrt "github.com/influxdata/kapacitor/zz_vrt"
)

// VerifC10Shift: shift node. Documented: time + d on points, batch points and the
// batch's end time; nothing else changes.
func VerifC10Shift(v *vrt.T) {
	shifts := []time.Duration{5 * time.Minute, -time.Hour, 1, -3}
	d := shifts[v.Choose("shift", len(shifts))]
	n, err := newShiftNode(nil, &pipeline.ShiftNode{Shift: d}, &verifNopDiag{})
	v.Assert(err == nil, "node created")

	fields, tags := c10Input(v, []int{c10Int, c10Missing}, []int{c10TagByte, c10TagMissing})
	wantF, wantT := c10CopyFields(fields), c10CopyTags(tags)
	base := []int64{verifT2020, 0}[v.Choose("base", 2)]
	t := v.Time("time", base-64, base+64)
	wantNs := t.UnixNano() + int64(d)

	switch v.Choose("edge", 3) {
	case 0:
		dims := models.Dimensions{ByName: v.Choose("byName", 2) == 1, TagNames: c10DimChoices[v.Choose("dims", len(c10DimChoices))]}
		p := edge.NewPointMessage("m", "db", "rp", dims, fields, tags, t)
		snap := c10SnapPoint(p)
		out, err := n.Point(p)
		v.Assert(err == nil && out != nil, "shift forwards every point")
		op, ok := out.(edge.PointMessage)
		v.Assert(ok, "output is a point")
		v.Assert(snap.samePoint(p), "frame: input point unchanged (time included)")
		v.Assert(op.Time().UnixNano() == wantNs, "point time shifted by d")
		v.Assert(c10FieldsEq(op.Fields(), wantF) && c10TagsEq(op.Tags(), wantT), "fields and tags kept")
		v.Assert(op.Name() == "m" && op.Database() == "db" && op.RetentionPolicy() == "rp" && c10DimsEq(op.Dimensions(), dims.ByName, dims.TagNames) && op.GroupID() == snap.gid, "name, db, rp, dimensions, group kept")
		v.Observe("t", op.Time().UnixNano())
	case 1:
		bp := edge.NewBatchPointMessage(fields, tags, t)
		snap := c10SnapBatchPoint(bp)
		out, err := n.BatchPoint(bp)
		v.Assert(err == nil && out != nil, "shift forwards every batch point")
		op, ok := out.(edge.BatchPointMessage)
		v.Assert(ok, "output is a batch point")
		v.Assert(snap.sameBatchPoint(bp), "frame: input batch point unchanged (time included)")
		v.Assert(op.Time().UnixNano() == wantNs, "batch point time shifted by d")
		v.Assert(c10FieldsEq(op.Fields(), wantF) && c10TagsEq(op.Tags(), wantT), "batch fields and tags kept")
		v.Observe("t", op.Time().UnixNano())
	case 2:
		byName := v.Choose("byName", 2) == 1
		begin := edge.NewBeginBatchMessage("m", tags, byName, t, 3)
		snap := c10SnapBegin(begin)
		out, err := n.BeginBatch(begin)
		v.Assert(err == nil && out != nil, "shift forwards begin")
		ob, ok := out.(edge.BeginBatchMessage)
		v.Assert(ok, "output is a begin message")
		v.Assert(snap.sameBegin(begin), "frame: input begin message unchanged (time included)")
		v.Assert(ob.Time().UnixNano() == wantNs, "batch end time shifted by d")
		v.Assert(ob.Name() == "m" && c10TagsEq(ob.Tags(), wantT) && ob.SizeHint() == 3 && c10DimsEq(ob.Dimensions(), snap.byName, snap.dims) && ob.GroupID() == snap.gid, "begin name, tags, size, group kept")
		end := edge.NewEndBatchMessage()
		eo, err := n.EndBatch(end)
		v.Assert(err == nil && eo == edge.Message(end), "end forwarded")
		v.Observe("t", ob.Time().UnixNano())
	}
	v.Reach("end")
}

// VerifC10Sample: sample node, one group's receiver driven by k messages.
// Documented: sample(N) keeps the points whose 0-based index in the group (stream) or in
// the batch (batch) is a multiple of N; sample(d) keeps the points whose time is a
// multiple of d. Kept points are forwarded as they are.
func VerifC10Sample(v *vrt.T) {
	type cfg struct {
		n int64
		d time.Duration
	}
	cfgs := []cfg{{1, 0}, {2, 0}, {3, 0}, {0, 10}, {0, 7}, {0, time.Second}}
	c := cfgs[v.Choose("cfg", len(cfgs))]
	n, err := newSampleNode(nil, &pipeline.SampleNode{N: c.n, Duration: c.d}, &verifNopDiag{})
	v.Assert(err == nil, "node created")
	g := n.newGroup()
	k := v.Bound("points", 3)
	base := []int64{verifT2020, 0, -int64(time.Second) * 3}[v.Choose("base", 3)]
	batch := v.Choose("edge", 2) == 1
	dims := models.Dimensions{TagNames: []string{"t"}}
	tags := models.Tags{"t": "a"}

	keepRef := func(idx int64, ns int64) bool {
		if c.d != 0 {
			return verifTruncRef(ns, int64(c.d)) == ns
		}
		return idx%c.n == 0
	}
	idx := int64(0)
	kept := 0
	for i := 0; i < k; i++ {
		if batch && (i == 0 || v.Choose("newbatch", 2) == 1) {
			begin := edge.NewBeginBatchMessage("m", tags, false, time.Unix(0, base+1000).UTC(), k)
			snap := c10SnapBegin(begin)
			out, err := g.BeginBatch(begin)
			v.Assert(err == nil && out != nil, "begin forwarded")
			ob, ok := out.(edge.BeginBatchMessage)
			v.Assert(ok && snap.sameBegin(begin) && ob.Name() == "m" && c10TagsEq(ob.Tags(), snap.tags) && ob.Time().Equal(snap.t) && ob.GroupID() == snap.gid, "begin message keeps name, tags, time, group; input unchanged")
			idx = 0
		}
		fields := models.Fields{"f": v.Int64("val")}
		t := v.Time("time", base-32, base+32)
		want := keepRef(idx, t.UnixNano())
		idx++
		var out edge.Message
		var err error
		if batch {
			bp := edge.NewBatchPointMessage(fields, tags, t)
			snap := c10SnapBatchPoint(bp)
			out, err = g.BatchPoint(bp)
			v.Assert(err == nil, "no error")
			v.Assert(snap.sameBatchPoint(bp), "frame: input batch point unchanged")
			v.Assert((out != nil) == want, "batch point kept iff its index in the batch is a multiple of N / its time a multiple of d")
			if out != nil {
				op, ok := out.(edge.BatchPointMessage)
				v.Assert(ok && snap.sameBatchPoint(op), "kept batch point forwarded as it is")
			}
		} else {
			p := edge.NewPointMessage("m", "db", "rp", dims, fields, tags, t)
			snap := c10SnapPoint(p)
			out, err = g.Point(p)
			v.Assert(err == nil, "no error")
			v.Assert(snap.samePoint(p), "frame: input point unchanged")
			v.Assert((out != nil) == want, "point kept iff its index in the group is a multiple of N / its time a multiple of d")
			if out != nil {
				op, ok := out.(edge.PointMessage)
				v.Assert(ok && snap.samePoint(op), "kept point forwarded as it is")
			}
		}
		if out != nil {
			kept++
		}
	}
	if batch {
		end := edge.NewEndBatchMessage()
		eo, err := g.EndBatch(end)
		v.Assert(err == nil && eo == edge.Message(end), "end forwarded")
	}
	v.Observe("kept", kept)
	v.Reach("end")
}
