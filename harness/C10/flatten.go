package kapacitor

import (
	"time"

	"github.com/influxdata/kapacitor/edge"
	"github.com/influxdata/kapacitor/models"
	"github.com/influxdata/kapacitor/pipeline"
	vrt "github.com/influxdata/kapacitor/zz_vrt"
)

type c10FlatCfg struct {
	on   []string
	drop bool
}

var c10FlatCfgs = []c10FlatCfg{
	{on: []string{"t"}},
	{on: []string{"t", "u"}},
	{on: []string{"t", "u"}, drop: true},
}

func c10NewFlatten(v *vrt.T, c c10FlatCfg, tol time.Duration) (*FlattenNode, *c10Edge, *verifNopDiag) {
	diag := &verifNopDiag{}
	pn := &pipeline.FlattenNode{Dimensions: append([]string(nil), c.on...), Delimiter: ".", Tolerance: tol, DropOriginalFieldNameFlag: c.drop}
	n, err := newFlattenNode(nil, pn, diag)
	v.Assert(err == nil, "node created")
	out := &c10Edge{}
	n.outs = []edge.StatsEdge{out}
	n.timer = c10Timer{}
	return n, out, diag
}

// c10FlatAdd adds the documented flattened fields of one point to acc: the name of every
// field is <values of the `on` tags joined by the delimiter><delimiter><field name>
// (without the field name with dropOriginalFieldName); a point that lacks one of the
// tags contributes nothing.
func c10FlatAdd(c c10FlatCfg, acc map[string]interface{}, fields map[string]interface{}, tags map[string]string) {
	prefix := ""
	for i, d := range c.on {
		x, ok := tags[d]
		if !ok {
			return
		}
		if i > 0 {
			prefix += "."
		}
		prefix += x
	}
	for name, x := range fields {
		key := prefix
		if !c.drop {
			key = prefix + "." + name
		}
		acc[key] = x
	}
}

func c10FlatInput(v *vrt.T, i int) (models.Fields, models.Tags) {
	tags := models.Tags{"h": "a"}
	for _, name := range []string{"t", "u"} {
		if x, ok := c10Tag(v, []int{c10TagByte, c10TagMissing}); ok {
			tags[name] = x
		}
	}
	return models.Fields{"f": v.Int64("val")}, tags
}

// VerifC10Flatten: FlattenNode.flatten on k points, called twice (the prefix buffer is
// pooled): the result is the union of the points' flattened fields.
func VerifC10Flatten(v *vrt.T) {
	c := c10FlatCfgs[v.Choose("cfg", len(c10FlatCfgs))]
	n, _, _ := c10NewFlatten(v, c, 0)
	k := v.Bound("points", 2)
	for call := 0; call < 2; call++ {
		kk := k
		if call == 1 {
			kk = 1
		}
		var pts []edge.FieldsTagsTimeGetter
		var snaps []c10Snap
		want := map[string]interface{}{}
		for i := 0; i < kk; i++ {
			fields, tags := c10FlatInput(v, i)
			bp := edge.NewBatchPointMessage(fields, tags, time.Unix(0, verifT2020).UTC())
			pts = append(pts, bp)
			snaps = append(snaps, c10SnapBatchPoint(bp))
			c10FlatAdd(c, want, fields, tags)
		}
		got, err := n.flatten(pts)
		v.Assert(err == nil, "no error")
		v.Assert(len(got) == len(want), "one flattened field per distinct tag-value/field combination of the points that carry all tags")
		v.Assert(c10FieldsEq(got, want), "flattened field names and values as documented")
		for i, p := range pts {
			v.Assert(snaps[i].sameBatchPoint(p.(edge.BatchPointMessage)), "frame: input points unchanged")
		}
		v.Observe("n", len(got))
	}
	v.Reach("end")
}

// c10RoundRef is time.Time.Round on Unix nanoseconds (halfway values round up).
func c10RoundRef(ns, d int64) int64 {
	if d <= 0 {
		return ns
	}
	tr := verifTruncRef(ns, d)
	if r := ns - tr; r+r < d {
		return tr
	}
	return tr + d
}

// VerifC10FlattenStream: flatten group receiver on k stream points with non-decreasing
// times, then a barrier. Documented: per rounded time one point (name, tags, dimensions
// of the group) whose fields are the flattened fields of the points of that time.
func VerifC10FlattenStream(v *vrt.T) {
	c := c10FlatCfgs[v.Choose("cfg", len(c10FlatCfgs))]
	tol := []time.Duration{0, 10}[v.Choose("tolerance", 2)]
	n, out, _ := c10NewFlatten(v, c, tol)
	k := v.Bound("points", 3)
	dims := models.Dimensions{TagNames: []string{"h"}}
	batch := v.Choose("edge", 2) == 1
	var begin edge.BeginBatchMessage
	var bsnap c10Snap
	var binputs []edge.BatchPointMessage

	type emission struct {
		t      int64
		fields map[string]interface{}
	}
	var want []emission
	cur := emission{}
	have := false
	var b edge.Receiver
	var inputs []edge.PointMessage
	var snaps []c10Snap
	ns := verifT2020 + int64(v.IntRange("t0", 0, 15))
	for i := 0; i < k; i++ {
		if i > 0 {
			ns += int64(v.IntRange("dt", 0, 12))
		}
		fields, tags := c10FlatInput(v, i)
		p := edge.NewPointMessage("m", "db", "rp", dims, fields, tags, time.Unix(0, ns).UTC())
		if batch {
			if b == nil {
				begin = edge.NewBeginBatchMessage("m", models.Tags{"h": "a"}, false, time.Unix(0, verifT2020+1000).UTC(), k)
				bsnap = c10SnapBegin(begin)
				var err error
				b, err = n.NewGroup(begin.GroupInfo(), begin)
				v.Assert(err == nil, "group created")
				v.Assert(b.BeginBatch(begin) == nil, "no error")
			}
			bp := edge.NewBatchPointMessage(fields, tags, time.Unix(0, ns).UTC())
			binputs = append(binputs, bp)
			snaps = append(snaps, c10SnapBatchPoint(bp))
		} else {
			inputs = append(inputs, p)
			snaps = append(snaps, c10SnapPoint(p))
			if b == nil {
				var err error
				b, err = n.NewGroup(p.GroupInfo(), p)
				v.Assert(err == nil, "group created")
			}
		}
		rt := c10RoundRef(ns, int64(tol))
		if have && rt != cur.t {
			want = append(want, cur)
			have = false
		}
		if !have {
			cur = emission{t: rt, fields: map[string]interface{}{}}
			have = true
		}
		c10FlatAdd(c, cur.fields, fields, tags)
		if batch {
			v.Assert(b.BatchPoint(binputs[i]) == nil, "no error")
		} else {
			v.Assert(b.Point(p) == nil, "no error")
		}
	}
	if have {
		want = append(want, cur)
	}
	type outPoint interface {
		edge.FieldGetter
		edge.TagGetter
		edge.TimeGetter
	}
	var got []outPoint
	wantGID := models.ToGroupID("m", map[string]string{"h": "a"}, dims)
	if batch {
		end := edge.NewEndBatchMessage()
		v.Assert(b.EndBatch(end) == nil, "no error")
		v.Assert(bsnap.sameBegin(begin), "frame: input begin message unchanged")
		for i, p := range binputs {
			v.Assert(snaps[i].sameBatchPoint(p), "frame: input batch points unchanged")
		}
		v.Assert(len(out.msgs) >= 2, "begin and end forwarded")
		ob, ok := out.msgs[0].(edge.BeginBatchMessage)
		v.Assert(ok && ob.Name() == "m" && c10TagsEq(ob.Tags(), bsnap.tags) && ob.Time().Equal(bsnap.t) && ob.GroupID() == bsnap.gid, "begin keeps name, tags, end time, group")
		v.Assert(out.msgs[len(out.msgs)-1] == edge.Message(end), "end forwarded last")
		for _, m := range out.msgs[1 : len(out.msgs)-1] {
			p, ok := m.(edge.BatchPointMessage)
			v.Assert(ok, "batch points between begin and end")
			got = append(got, p)
		}
	} else {
		// a barrier after the last time flushes the buffer
		bar := edge.NewBarrierMessage(inputs[0].GroupInfo(), time.Unix(0, ns+100).UTC())
		v.Assert(b.Barrier(bar) == nil, "no error")
		for i, p := range inputs {
			v.Assert(snaps[i].samePoint(p), "frame: input points unchanged")
		}
		for _, m := range out.msgs {
			if p, ok := m.(edge.PointMessage); ok {
				v.Assert(p.Name() == "m" && c10DimsEq(p.Dimensions(), false, dims.TagNames) && p.GroupID() == wantGID, "emitted point carries the group's name and dimensions")
				got = append(got, p)
			}
		}
	}
	v.Observe("emitted", len(got))
	// One point per rounded time, in order. A time whose points all lack a tag has no
	// flattened fields: the documentation does not say whether an empty point is emitted
	// for it (the node does so only when flushed by a barrier), so both are accepted.
	gi := 0
	for _, e := range want {
		if len(e.fields) == 0 && (gi >= len(got) || len(got[gi].Fields()) != 0 || got[gi].Time().UnixNano() != e.t) {
			continue
		}
		v.Assert(gi < len(got), "a point is emitted for every rounded time that has flattened fields")
		if gi >= len(got) {
			break
		}
		p := got[gi]
		gi++
		v.Assert(p.Time().UnixNano() == e.t, "emitted point carries the rounded time")
		v.Assert(c10FieldsEq(p.Fields(), e.fields), "emitted fields = flattened fields of the points of that time")
		v.Assert(c10TagsEq(p.Tags(), map[string]string{"h": "a"}), "emitted point carries the group's tags")
	}
	v.Assert(gi == len(got), "nothing else is emitted")
	v.Reach("end")
}
