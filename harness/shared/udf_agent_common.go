package agent

import (
	"errors"
	"io"

	vrt "github.com/influxdata/kapacitor/zz_vrt"
	"google.golang.org/protobuf/proto"
	"google.golang.org/protobuf/reflect/protoreflect"
	"google.golang.org/protobuf/runtime/protoiface"
)

// verifMsg is a protocol message whose wire encoding is an opaque byte payload.
//
// Natively the REAL proto.Marshal / proto.Unmarshal run: they take the documented fast
// path through ProtoMethods() (protoiface.Methods.Marshal/Unmarshal/CheckInitialized) and
// Reset(), so no other method of protoreflect.Message (the embedded nil interface) is ever
// needed. Under the engine proto.Marshal / proto.Unmarshal are overridden by
// verifProtoMarshal / verifProtoUnmarshal below, which are the same identity functions;
// every native replay cross-checks the two.
type verifMsg struct {
	protoreflect.Message
	payload []byte
	// failUnmarshal makes decoding fail (an undecodable frame), natively and in the engine.
	failUnmarshal bool
}

var errVerifUndecodable = errors.New("verif: undecodable message")

func (m *verifMsg) ProtoReflect() protoreflect.Message   { return m }
func (m *verifMsg) Interface() protoreflect.ProtoMessage { return m }
func (m *verifMsg) IsValid() bool                        { return true }
func (m *verifMsg) Reset()                               { m.payload = nil }
func (m *verifMsg) ProtoMethods() *protoiface.Methods {
	return &protoiface.Methods{
		Marshal: func(in protoiface.MarshalInput) (protoiface.MarshalOutput, error) {
			x := in.Message.(*verifMsg)
			return protoiface.MarshalOutput{Buf: append(in.Buf, x.payload...)}, nil
		},
		Unmarshal: func(in protoiface.UnmarshalInput) (protoiface.UnmarshalOutput, error) {
			x := in.Message.(*verifMsg)
			if x.failUnmarshal {
				return protoiface.UnmarshalOutput{}, errVerifUndecodable
			}
			x.payload = append([]byte(nil), in.Buf...)
			return protoiface.UnmarshalOutput{Flags: protoiface.UnmarshalInitialized}, nil
		},
		CheckInitialized: func(in protoiface.CheckInitializedInput) (protoiface.CheckInitializedOutput, error) {
			return protoiface.CheckInitializedOutput{}, nil
		},
	}
}

// verifProtoMarshal replaces google.golang.org/protobuf/proto.Marshal under the engine.
func verifProtoMarshal(m proto.Message) ([]byte, error) {
	x := m.(*verifMsg)
	return append([]byte{}, x.payload...), nil
}

// verifProtoUnmarshal replaces google.golang.org/protobuf/proto.Unmarshal under the engine.
func verifProtoUnmarshal(b []byte, m proto.Message) error {
	x := m.(*verifMsg)
	x.payload = nil
	if x.failUnmarshal {
		return errVerifUndecodable
	}
	x.payload = append([]byte(nil), b...)
	return nil
}

// verifSink is the io.Writer the frames are written to.
type verifSink struct{ data []byte }

func (w *verifSink) Write(p []byte) (int, error) {
	w.data = append(w.data, p...)
	return len(p), nil
}

// verifFragReader delivers data in fragments: while it has `short` short reads left,
// every Read that could return n > 1 bytes chooses (vrt.Choose: each alternative is
// explored) to return all n, or a shorter count. With `anyCount` the shorter count is
// any of 1..n-1, otherwise one of 1, 2, n-1. While it has `empty` empty reads left, any
// Read may also return (0, nil), which io.Reader allows (an io.Pipe does it for a
// zero-length Write of the peer): callers must treat it as "nothing happened".
type verifFragReader struct {
	v        *vrt.T
	data     []byte
	pos      int
	short    int
	empty    int
	anyCount bool
	reads    int
}

func (r *verifFragReader) Read(p []byte) (int, error) {
	r.reads++
	if len(p) == 0 {
		return 0, nil
	}
	n := len(r.data) - r.pos
	if n == 0 {
		return 0, io.EOF
	}
	if len(p) < n {
		n = len(p)
	}
	if r.empty > 0 && r.v.Choose("empty read", 2) == 1 {
		r.empty--
		return 0, nil
	}
	if r.short > 0 && n > 1 {
		k := n
		if r.anyCount {
			k = 1 + r.v.Choose("read returns", n) // 1..n
		} else {
			alts := 4 // all n | 1 | 2 | n-1 (without duplicates for n = 2, 3)
			if n < 4 {
				alts = n
			}
			switch r.v.Choose("read returns", alts) {
			case 1:
				k = 1
			case 2:
				k = 2
			case 3:
				k = n - 1
			}
		}
		if k < n {
			r.short--
			n = k
		}
	}
	copy(p, r.data[r.pos:r.pos+n])
	r.pos += n
	return n, nil
}

func (r *verifFragReader) ReadByte() (byte, error) {
	if r.pos == len(r.data) {
		return 0, io.EOF
	}
	b := r.data[r.pos]
	r.pos++
	return b, nil
}

// verifSameBytes: equality of two byte slices as ONE boolean term.
func verifSameBytes(a, b []byte) bool {
	if len(a) != len(b) {
		return false
	}
	same := true
	for i := range a {
		same = same && a[i] == b[i] // no branching on symbolic bytes: one conjunction
	}
	return same
}
