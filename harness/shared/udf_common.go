package udf

import (
	"errors"
	"unicode/utf8"

	"github.com/influxdata/kapacitor/edge"
	"github.com/influxdata/kapacitor/keyvalue"
	"github.com/influxdata/kapacitor/udf/agent"
	"google.golang.org/protobuf/proto"
)

// verifDiag counts the errors reported through the Diagnostic interface.
type verifDiag struct{ errors int }

func (d *verifDiag) Error(msg string, err error, ctx ...keyvalue.T) { d.errors++ }
func (d *verifDiag) UDFLog(msg string)                              {}

// verifOut is the io.WriteCloser standing for the UDF process' stdin / socket.
type verifOut struct {
	data   []byte
	closed bool
}

func (w *verifOut) Write(p []byte) (int, error) {
	w.data = append(w.data, p...)
	return len(p), nil
}
func (w *verifOut) Close() error { w.closed = true; return nil }

// verifNewServer builds a Server whose handleResponse / write* methods can be called
// directly (what readData / writeData do in their goroutines after Start): stopping and
// aborting channels as Start makes them, the real watchKeepalive goroutine draining the
// keepalive channel, and a buffered outMsg so that the harness can collect what
// handleResponse delivers after the call returns.
func verifNewServer() (*Server, *verifOut, *verifDiag) {
	out := &verifOut{}
	d := &verifDiag{}
	s := NewServer("task", "node", nil, out, d, 0, nil, nil)
	s.stopping = make(chan struct{})
	s.aborting = make(chan struct{})
	s.outMsg = make(chan edge.Message, 16)
	s.requestsGroup.Add(1)
	go s.watchKeepalive()
	return s, out, d
}

// verifCollect takes the messages handleResponse has delivered so far.
func verifCollect(s *Server) []edge.Message {
	var ms []edge.Message
	for {
		select {
		case m := <-s.outMsg:
			ms = append(ms, m)
		default:
			return ms
		}
	}
}

// ---- engine-side replacement of the protobuf runtime (reflection: not encodable) ----
//
// proto.Marshal(*agent.Request) is replaced by: reject the message like the real runtime
// if any proto3 `string` field (names, tag/field keys and values, dimensions) is not valid
// UTF-8, otherwise remember the message in a side table and emit a 1-byte frame payload
// holding its index. proto.Unmarshal(payload, *agent.Request) hands the remembered
// message back. Natively the real runtime encodes and decodes the message; every native
// replay compares the observations of the two.

var verifWire []*agent.Request

var errVerifInvalidUTF8 = errors.New("string field contains invalid UTF-8")

func verifStrsValid(ss ...string) bool {
	for _, s := range ss {
		if !verifStrValid(s) {
			return false
		}
	}
	return true
}

// verifStrValid = utf8.ValidString, with fewer branches for the 1-byte strings the
// harnesses use most.
func verifStrValid(s string) bool {
	if len(s) == 1 {
		return s[0] < utf8.RuneSelf
	}
	return utf8.ValidString(s)
}

func verifTagsValid(m map[string]string) bool {
	for k, v := range m {
		if !verifStrsValid(k, v) {
			return false
		}
	}
	return true
}

func verifPointValid(p *agent.Point) bool {
	if p == nil {
		return true
	}
	if !verifStrsValid(p.Name, p.Database, p.RetentionPolicy, p.Group) || !verifStrsValid(p.Dimensions...) {
		return false
	}
	if !verifTagsValid(p.Tags) || !verifTagsValid(p.FieldsString) {
		return false
	}
	for k := range p.FieldsDouble {
		if !verifStrValid(k) {
			return false
		}
	}
	for k := range p.FieldsInt {
		if !verifStrValid(k) {
			return false
		}
	}
	for k := range p.FieldsBool {
		if !verifStrValid(k) {
			return false
		}
	}
	return true
}

func verifRequestValid(r *agent.Request) bool {
	switch m := r.Message.(type) {
	case *agent.Request_Point:
		return verifPointValid(m.Point)
	case *agent.Request_Begin:
		return m.Begin == nil || (verifStrsValid(m.Begin.Name, m.Begin.Group) && verifTagsValid(m.Begin.Tags))
	case *agent.Request_End:
		return m.End == nil || (verifStrsValid(m.End.Name, m.End.Group) && verifTagsValid(m.End.Tags))
	}
	return true
}

func verifUdfMarshal(m proto.Message) ([]byte, error) {
	req := m.(*agent.Request)
	if !verifRequestValid(req) {
		return nil, errVerifInvalidUTF8
	}
	verifWire = append(verifWire, req)
	return []byte{byte(len(verifWire) - 1)}, nil
}

func verifUdfUnmarshal(b []byte, m proto.Message) error {
	dst := m.(*agent.Request)
	dst.Message = verifWire[b[0]].Message
	return nil
}

// verifEcho is the echo UDF: the Response carrying the same data message as the Request.
func verifEcho(req *agent.Request) *agent.Response {
	switch m := req.Message.(type) {
	case *agent.Request_Point:
		return &agent.Response{Message: &agent.Response_Point{Point: m.Point}}
	case *agent.Request_Begin:
		return &agent.Response{Message: &agent.Response_Begin{Begin: m.Begin}}
	case *agent.Request_End:
		return &agent.Response{Message: &agent.Response_End{End: m.End}}
	}
	return nil
}
