package kapacitor

import (
	"time"

	"github.com/influxdata/kapacitor/alert"
	"github.com/influxdata/kapacitor/edge"
	"github.com/influxdata/kapacitor/keyvalue"
	"github.com/influxdata/kapacitor/models"
)

// verifNopDiag is a NodeDiagnostic that records how many errors were reported.
type verifNopDiag struct{ errors int }

func (d *verifNopDiag) Error(msg string, err error, ctx ...keyvalue.T)                        { d.errors++ }
func (d *verifNopDiag) AlertTriggered(level alert.Level, id string, message string, rows *models.Row) {}
func (d *verifNopDiag) SettingReplicas(new int, old int, id string)                          {}
func (d *verifNopDiag) StartingBatchQuery(q string)                                          {}
func (d *verifNopDiag) LogPointData(key, prefix string, data edge.PointMessage)              {}
func (d *verifNopDiag) LogBatchData(key, prefix string, data edge.BufferedBatchMessage)      {}
func (d *verifNopDiag) UDFLog(s string)                                                      {}

// Instants used as bases for symbolic times (Unix nanoseconds).
const (
	verifT2020 = int64(1577836800) * int64(time.Second) // 2020-01-01T00:00:00Z
	verifT1960 = int64(-315619200) * int64(time.Second) // 1960-01-01T00:00:00Z
)

// verifFloorMod is the mathematical x mod e (0 <= r < e) for e > 0.
func verifFloorMod(x, e int64) int64 {
	r := x % e
	if r < 0 {
		r += e
	}
	return r
}

// verifTruncRef is the reference for time.Time.Truncate on Unix nanoseconds: Go truncates
// relative to the zero Time (year 1), which lies K = 62135596800 s before the Unix epoch.
func verifTruncRef(ns, e int64) int64 {
	if e <= 0 {
		return ns
	}
	k := verifFloorMod(verifFloorMod(62135596800, e)*verifFloorMod(1000000000, e), e) // K mod e (operands < e <= 2^31 in our tables)
	return ns - verifFloorMod(verifFloorMod(ns, e)+k, e)
}
