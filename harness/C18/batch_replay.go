package kapacitor

import (
	"time"

	"github.com/influxdata/kapacitor/edge"
	"github.com/influxdata/kapacitor/models"
	vrt "github.com/influxdata/kapacitor/zz_vrt"
)

type verifBatchCollector struct {
	got    []edge.BufferedBatchMessage
	closed bool
}

func (c *verifBatchCollector) CollectBatch(b edge.BufferedBatchMessage) error {
	c.got = append(c.got, b)
	return nil
}
func (c *verifBatchCollector) Close() error { c.closed = true; return nil }

// VerifC18BatchReplay: the batch replay loop (ReplayBatchFromChan / replayBatchFromChan)
// on decoded batches - the recording file layer (JSON, zip) is outside: 1..2 sources, each
// 1..2 batches of 1..2 points with symbolic point times (in order) and a symbolic recorded
// batch time at or after the last point (what `record batch` writes: the query stop time):
// every batch is delivered to its source's collector in order with its name, tags and
// points; in recorded-time mode all times are identical, otherwise the point times AND the
// batch time are shifted by one constant offset (clock zero - first point time of the
// source); the replay ends without error after the last batch, collectors closed.
func VerifC18BatchReplay(v *vrt.T) {
	nsrc := 1 + v.Choose("sources", v.Bound("sources", 2))
	recTime := v.Bool("recorded times")
	clk := &verifReplayClock{zero: time.Unix(0, verifT2020+86400e9).UTC()}
	type rec struct {
		tmax int64
		pts  []int64
	}
	var chans []<-chan edge.BufferedBatchMessage
	var cols []BatchCollector
	var vcols []*verifBatchCollector
	var recs [][]rec
	for s := 0; s < nsrc; s++ {
		nb := 1 + v.Choose("batches", v.Bound("batches", 2))
		ch := make(chan edge.BufferedBatchMessage, nb)
		t := int64(verifT2020)
		var rs []rec
		for b := 0; b < nb; b++ {
			np := 1 + v.Choose("points", 2)
			var pts []edge.BatchPointMessage
			r := rec{}
			for i := 0; i < np; i++ {
				t += int64(v.IntRange("dt", 0, 5))
				r.pts = append(r.pts, t)
				pts = append(pts, edge.NewBatchPointMessage(models.Fields{"v": int64(10*b + i)}, models.Tags{"h": "x"}, time.Unix(0, t).UTC()))
			}
			r.tmax = t + int64(v.IntRange("after last point", 0, 7)) // the query stop time
			rs = append(rs, r)
			begin := edge.NewBeginBatchMessage("m", models.Tags{"h": "x"}, false, time.Unix(0, r.tmax).UTC(), np)
			ch <- edge.NewBufferedBatchMessage(begin, pts, edge.NewEndBatchMessage())
			t = r.tmax
		}
		close(ch)
		chans = append(chans, ch)
		c := &verifBatchCollector{}
		cols = append(cols, c)
		vcols = append(vcols, c)
		recs = append(recs, rs)
	}
	err := <-ReplayBatchFromChan(clk, chans, cols, recTime)
	v.Assert(err == nil, "the replay ends without error")
	v.Assert(v.Goroutines() == 0, "no replay goroutine left behind")
	for s := 0; s < nsrc; s++ {
		c := vcols[s]
		v.Assert(c.closed, "the collector is closed when the replay has ended")
		v.Assert(len(c.got) == len(recs[s]), "every recorded batch is delivered, to its source's collector")
		if len(c.got) != len(recs[s]) {
			continue
		}
		off := int64(0)
		if !recTime {
			off = clk.zero.UnixNano() - recs[s][0].pts[0]
		}
		for b, r := range recs[s] {
			g := c.got[b]
			v.Assert(g.Name() == "m" && g.Tags()["h"] == "x" && len(g.Points()) == len(r.pts), "batch name, tags and size")
			for i, p := range g.Points() {
				if i < len(r.pts) {
					v.Assert(p.Time().UnixNano() == r.pts[i]+off && p.Fields()["v"] == interface{}(int64(10*b+i)), "points in order with identical or uniformly shifted times")
				}
			}
			v.Assert(g.Time().UnixNano() == r.tmax+off, "batch time identical, or shifted by the same constant offset")
		}
	}
	v.Observe("batches", len(vcols[0].got))
	v.Reach("end")
}
