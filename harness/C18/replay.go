package kapacitor

import (
	"io"
	"math"
	"time"

	"github.com/influxdata/kapacitor/edge"
	"github.com/influxdata/kapacitor/models"
	vrt "github.com/influxdata/kapacitor/zz_vrt"
)

// verifRecFile is the recording file: written by WritePointForRecording, then read back.
type verifRecFile struct {
	data   []byte
	pos    int
	closed bool
}

func (f *verifRecFile) Write(p []byte) (int, error) {
	f.data = append(f.data, p...)
	return len(p), nil
}

func (f *verifRecFile) Read(p []byte) (int, error) {
	if f.pos == len(f.data) {
		return 0, io.EOF
	}
	n := copy(p, f.data[f.pos:])
	f.pos += n
	return n, nil
}

func (f *verifRecFile) Close() error { f.closed = true; return nil }

// verifReplayClock is the replay clock: a fixed zero, Until never waits.
type verifReplayClock struct {
	zero   time.Time
	waited []time.Time
}

func (c *verifReplayClock) Zero() time.Time   { return c.zero }
func (c *verifReplayClock) Set(t time.Time)   {}
func (c *verifReplayClock) Until(t time.Time) { c.waited = append(c.waited, t) }

// verifStreamCollector is the task's stream edge.
type verifStreamCollector struct {
	points []edge.PointMessage
	closed bool
}

func (c *verifStreamCollector) CollectPoint(p edge.PointMessage) error {
	c.points = append(c.points, p)
	return nil
}
func (c *verifStreamCollector) Close() error { c.closed = true; return nil }

func verifC18SameValue(a, b interface{}) bool {
	switch x := a.(type) {
	case int64:
		y, ok := b.(int64)
		return ok && x == y
	case float64:
		y, ok := b.(float64)
		return ok && math.Float64bits(x) == math.Float64bits(y)
	case string:
		y, ok := b.(string)
		return ok && x == y
	case bool:
		y, ok := b.(bool)
		return ok && x == y
	}
	return false
}

func verifC18SameFields(a, b models.Fields) bool {
	if len(a) != len(b) {
		return false
	}
	for k, x := range a {
		y, ok := b[k]
		if !ok || !verifC18SameValue(x, y) {
			return false
		}
	}
	return true
}

func verifC18SameTags(a, b models.Tags) bool {
	if len(a) != len(b) {
		return false
	}
	for k, x := range a {
		y, ok := b[k]
		if !ok || x != y {
			return false
		}
	}
	return true
}

func verifHasByte(s string, c byte) bool {
	has := false
	for i := 0; i < len(s); i++ {
		has = has || s[i] == c
	}
	return has
}

const verifC18Base = verifT2020 + 123456789 // 2020-01-01T00:00:00.123456789Z

// verifEscapeStringField replaces influxdb/models.EscapeStringField under the engine:
// the real one drives a strings.Replacer (a 256-entry table indexed by the symbolic
// byte); this is its documented meaning: every double quote and backslash is preceded by
// a backslash. The native replays run the real function.
func verifEscapeStringField(in string) string {
	out := make([]byte, 0, len(in)+2)
	for i := 0; i < len(in); i++ {
		if in[i] == '"' || in[i] == '\\' {
			out = append(out, '\\')
		}
		out = append(out, in[i])
	}
	return string(out)
}

// verifC18Unrepresentable is the class of the recorded known finding
// C18-stream-recording-line-format for the inputs of this harness: where the arbitrary
// bytes s are placed, and whether the line-oriented recording file (two header lines and
// one line of InfluxDB line protocol per point, read with bufio.ScanLines) cannot carry
// them.
func verifC18Unrepresentable(where int, s string) bool {
	n := len(s)
	nl := verifHasByte(s, '\n') // a newline anywhere splits the record
	switch where {
	case 0: // measurement: leading tab/NUL is skipped as white space, leading # is a comment, a trailing backslash escapes the separator
		// the writer (models.MakeKey) first un-escapes \, and \<space> "to avoid double escaping", and
		// the reader (point.Name) un-escapes \= and \" which the writer never escapes
		pair := false
		for i := 0; i+1 < n; i++ {
			pair = pair || (s[i] == '\\' && (s[i+1] == ',' || s[i+1] == ' ' || s[i+1] == '=' || s[i+1] == '"'))
		}
		return nl || s[0] == '\t' || s[0] == 0 || s[0] == '#' || s[n-1] == '\\' || pair
	case 1, 2: // tag key, tag value: a trailing backslash escapes the separator
		return nl || s[n-1] == '\\'
	case 3: // string field value: quotes and backslashes are escaped
		return nl
	default: // database, retention policy header lines: ScanLines also drops a trailing CR
		return nl || s[n-1] == '\r'
	}
}

// VerifC18StreamReplay: a stream recording written with WritePointForRecording and
// replayed with ReplayStreamFromIO delivers the recorded points: same database, retention
// policy, measurement, tags, field names, values and types, in order, with the recorded
// times (recTime) or all shifted so that the first lands on the clock's zero; then the
// replay ends (collector closed, no error, no goroutine left).
func VerifC18StreamReplay(v *vrt.T) {
	name, tagk, tagv, strv, db, rp := "m", "t", "v", "x", "db", "rp"
	// One part of the first point is symbolic: 1..bytes arbitrary bytes in one of the six
	// string attributes (0..5), the value of an integer field (6); 7: all concrete, every
	// field kind with boundary values.
	where := v.Choose("symbolic part", 8)
	sym := ""
	if where < 6 {
		sym = v.String("s", 1+v.Choose("extra bytes", v.Bound("bytes", 2)))
	}
	switch where {
	case 0:
		name = sym
	case 1:
		tagk = sym
	case 2:
		tagv = sym
	case 3:
		strv = sym
	case 4:
		db = sym
	case 5:
		rp = sym
	}
	fields := models.Fields{}
	switch where {
	case 3:
		fields["f"] = strv
	case 6:
		fields["f"] = int64(v.IntRange("int value", -1024, 1024))
	case 7:
		switch v.Choose("field kind", 4) {
		case 0:
			fields["f"] = []int64{0, -1, 1 << 53, 1<<53 + 1, math.MinInt64, math.MaxInt64}[v.Choose("int value", 6)]
		case 1:
			fields["f"] = []float64{1.5, -0.25, 3}[v.Choose("float value", 3)]
		case 2:
			fields["f"] = "a \"quoted\\ text, with=specials"
		case 3:
			fields["f"] = v.Bool("bool value")
		}
		if v.Bool("second field") {
			fields["g h"] = 2.5
		}
	default:
		if v.Bool("string field") {
			fields["f"] = strv
		} else {
			fields["f"] = int64(-3)
		}
	}
	// Times are concrete (decimal formatting and parsing of a symbolic 19-digit number is
	// beyond the solver budget): an instant with all nine sub-second digits, the first
	// nanosecond of the epoch, an instant before 1970; the second point follows after
	// 1s+1ns, 0 or 1ns — or lies 10s BEFORE the first one (a late arrival in a live
	// recording: recordings are in arrival order, not in time order).
	// tc == 4: the second point has no time set (the zero Time): it is recorded as a line
	// without a timestamp and replayed with the zero Time again (recorded-time mode).
	tc := v.Choose("times", 5)
	t1 := time.Unix(0, []int64{verifC18Base, 1, verifT1960 - 1, verifC18Base, verifC18Base}[tc]).UTC()
	tags := models.Tags{tagk: tagv}
	if where != 1 && where != 2 && v.Choose("point without tags", 2) == 1 {
		tags = models.Tags{}
	}
	sent := []edge.PointMessage{edge.NewPointMessage(name, db, rp, models.Dimensions{}, fields, tags, t1)}
	if v.Bound("points", 2) > 1 {
		t2 := t1.Add([]time.Duration{time.Second + 1, 0, 1, -10 * time.Second, 0}[tc])
		if tc == 4 {
			t2 = time.Time{}
		}
		sent = append(sent, edge.NewPointMessage("m2", "db2", "rp2", models.Dimensions{}, models.Fields{"g": int64(7)}, nil, t2))
	}

	file := &verifRecFile{}
	for _, p := range sent {
		v.Assert(WritePointForRecording(file, p, "n") == nil, "the point is recorded")
	}

	recTime := v.Bool("recorded times")
	if tc == 4 {
		v.Assume(recTime) // shifting the zero Time is outside this harness
	}
	clk := &verifReplayClock{zero: time.Unix(0, verifT2020+86400e9).UTC()}
	col := &verifStreamCollector{}
	err := <-ReplayStreamFromIO(clk, file, col, recTime, "n")

	inClass := where < 6 && verifC18Unrepresentable(where, sym)
	const id = "C18-stream-recording-line-format"
	good := err == nil && len(col.points) == len(sent)
	v.AssertKnown(err == nil, "the replay succeeds", inClass, id)
	v.AssertKnown(len(col.points) == len(sent), "as many points are replayed as were recorded", inClass, id)
	for i, q := range col.points {
		if i >= len(sent) {
			break
		}
		p := sent[i]
		same := q.Database() == p.Database() && q.RetentionPolicy() == p.RetentionPolicy() && q.Name() == p.Name() &&
			verifC18SameTags(q.Tags(), p.Tags()) && verifC18SameFields(p.Fields(), q.Fields())
		want := p.Time()
		if !recTime {
			want = p.Time().Add(clk.zero.Sub(sent[0].Time()))
		}
		good = good && same && q.Time().Equal(want)
		v.AssertKnown(same, "same database, retention policy, measurement, tags and fields", inClass, id)
		v.AssertKnown(q.Time().Equal(want), "recorded time, or shifted by the constant clock zero - first time", inClass, id)
	}
	v.Assert(!(inClass && good), "harness self-check: the recorded known-finding class contains failing inputs only")
	v.Assert(col.closed && file.closed, "the replay ends: collector and file closed")
	v.Assert(v.Goroutines() == 0, "no replay goroutine left behind")
	v.Observe("replayed", len(col.points), err != nil)
	v.Reach("end")
}
