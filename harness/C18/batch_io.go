package kapacitor

import (
	"encoding/json"
	"errors"
	"io"
	"runtime"
	"time"

	"github.com/influxdata/kapacitor/edge"
	"github.com/influxdata/kapacitor/models"
	vrt "github.com/influxdata/kapacitor/zz_vrt"
)

// ---- engine-side model of encoding/json for batch recordings ---------------------------
//
// A batch recording is one JSON document per batch (WriteBatchForRecording ->
// json.Encoder.Encode -> bufferedBatchMessage.MarshalJSON, real code, which marshals a plain
// struct; ReplayBatchFromIO -> json.Decoder.More/Decode -> bufferedBatchMessage.UnmarshalJSON,
// real code, which unmarshals that struct). Under the engine the struct <-> text step is
// replaced: Marshal remembers the struct value in a side table and emits a one-byte
// reference; Unmarshal hands back a copy with the typing of JSON: every number in the
// interface{}-typed field map becomes a float64, empty tag maps are omitted (nil), times
// keep their instant. Natively the real encoding/json runs.

var verifC18Docs []interface{}
var verifC18Encoders = map[*json.Encoder]io.Writer{}
var verifC18Decoders = map[*json.Decoder]*[]byte{}

func verifC18Marshal(x interface{}) ([]byte, error) {
	verifC18Docs = append(verifC18Docs, x)
	return []byte{byte(len(verifC18Docs) - 1)}, nil
}

func verifC18NewEncoder(w io.Writer) *json.Encoder {
	e := new(json.Encoder)
	verifC18Encoders[e] = w
	return e
}

func verifC18Encode(e *json.Encoder, x interface{}) error {
	m, ok := x.(json.Marshaler)
	if !ok {
		return errors.New("verif: only values with MarshalJSON are modelled")
	}
	data, err := m.MarshalJSON()
	if err != nil {
		return err
	}
	_, err = verifC18Encoders[e].Write(append(data, '\n'))
	return err
}

func verifC18NewDecoder(r io.Reader) *json.Decoder {
	var all []byte
	buf := make([]byte, 64)
	for {
		n, err := r.Read(buf)
		all = append(all, buf[:n]...)
		if err != nil {
			break
		}
	}
	d := new(json.Decoder)
	verifC18Decoders[d] = &all
	return d
}

func verifC18More(d *json.Decoder) bool {
	rest := verifC18Decoders[d]
	for len(*rest) > 0 && (*rest)[0] == '\n' {
		*rest = (*rest)[1:]
	}
	return len(*rest) > 0
}

func verifC18Decode(d *json.Decoder, into interface{}) error {
	if !verifC18More(d) {
		return io.EOF
	}
	rest := verifC18Decoders[d]
	tok := (*rest)[:1]
	*rest = (*rest)[1:]
	u, ok := into.(json.Unmarshaler)
	if !ok {
		return errors.New("verif: only values with UnmarshalJSON are modelled")
	}
	return u.UnmarshalJSON(tok)
}

func verifC18JSONTags(t models.Tags) models.Tags {
	if len(t) == 0 {
		return nil // omitempty / null
	}
	out := models.Tags{}
	for k, x := range t {
		out[k] = x
	}
	return out
}

// verifC18Unmarshal replaces json.Unmarshal(data, **edge.VerifBatchJSON).
func verifC18Unmarshal(data []byte, into interface{}) error {
	if len(data) != 1 || int(data[0]) >= len(verifC18Docs) {
		return errors.New("verif: unexpected JSON data")
	}
	return edge.VerifCopyBatchJSON(verifC18Docs[int(data[0])], into)
}

// verifSlowBatchCollector widens, natively, the window between the hand-over of the last
// batch and its collection.
type verifSlowBatchCollector struct{ verifBatchCollector }

func (c *verifSlowBatchCollector) CollectBatch(b edge.BufferedBatchMessage) error {
	for i := 0; i < 50; i++ {
		runtime.Gosched()
	}
	return c.verifBatchCollector.CollectBatch(b)
}

// VerifC18BatchRecording: batches written with WriteBatchForRecording and replayed with
// ReplayBatchFromIO (1..2 sources): same name, tags, group, points (tags, field names,
// values AND types), order and times; when the replay reports its end every batch has been
// delivered and the collectors are closed.
func VerifC18BatchRecording(v *vrt.T) {
	verifC18Docs = nil
	verifC18Encoders = map[*json.Encoder]io.Writer{}
	verifC18Decoders = map[*json.Decoder]*[]byte{}
	nsrc := 1 + v.Choose("sources", v.Bound("sources", 2))
	clk := &verifReplayClock{zero: time.Unix(0, verifT2020+86400e9).UTC()}
	var files []io.ReadCloser
	var cols []BatchCollector
	var vcols []*verifSlowBatchCollector
	var sent [][]edge.BufferedBatchMessage
	for s := 0; s < nsrc; s++ {
		f := &verifRecFile{}
		nb := 1 + v.Choose("batches", 2)
		var bs []edge.BufferedBatchMessage
		for b := 0; b < nb; b++ {
			t := int64(verifT2020) + int64(100*b)
			var fv interface{}
			switch v.Choose("field kind", 4) {
			case 0:
				fv = v.Int64("int value")
			case 1:
				fv = 1.5
			case 2:
				fv = "s"
			default:
				fv = v.Bool("bool value")
			}
			ptags := models.Tags{"h": "x"}
			if v.Choose("point has an extra tag", 2) == 1 {
				ptags["extra"] = "e"
			}
			pts := []edge.BatchPointMessage{edge.NewBatchPointMessage(models.Fields{"f": fv}, ptags, time.Unix(0, t).UTC())}
			begin := edge.NewBeginBatchMessage("m", models.Tags{"h": "x"}, false, time.Unix(0, t+50).UTC(), len(pts))
			bm := edge.NewBufferedBatchMessage(begin, pts, edge.NewEndBatchMessage())
			v.Assert(WriteBatchForRecording(f, bm) == nil, "the batch is recorded")
			bs = append(bs, bm)
		}
		files = append(files, f)
		c := &verifSlowBatchCollector{}
		cols = append(cols, c)
		vcols = append(vcols, c)
		sent = append(sent, bs)
	}
	err := <-ReplayBatchFromIO(clk, files, cols, true)
	// the moment the replay reports its end
	done := true
	for s := range vcols {
		done = done && vcols[s].closed && len(vcols[s].got) == len(sent[s])
	}
	v.Assert(err == nil, "the replay ends without error")
	v.Assert(done, "when the replay reports its end every recorded batch has been delivered and the collectors are closed")
	v.Goroutines()
	for s := range vcols {
		got := vcols[s].got
		if len(got) != len(sent[s]) {
			continue
		}
		for b, g := range got {
			w := sent[s][b]
			v.Assert(g.Name() == w.Name() && verifC18SameTags(g.Tags(), w.Tags()) && g.Time().Equal(w.Time()) && len(g.Points()) == len(w.Points()), "batch name, tags, time and size")
			for i, p := range g.Points() {
				q := w.Points()[i]
				v.Assert(p.Time().Equal(q.Time()) && verifC18SameTags(p.Tags(), q.Tags()), "point time and tags")
				same := verifC18SameFields(q.Fields(), p.Fields())
				_, isInt := q.Fields()["f"].(int64)
				v.AssertKnown(same, "point field names, values and types", isInt, "C18-batch-recording-int-as-float")
			}
		}
	}
	v.Observe("batches", len(vcols[0].got))
	v.Reach("end")
}
