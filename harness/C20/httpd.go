package httpd

import (
	"errors"
	"expvar"
	"net/http"
	"net/url"

	"github.com/influxdata/kapacitor/auth"
	vrt "github.com/influxdata/kapacitor/zz_vrt"
)

// ---- engine-side overrides of parts that are not about authorisation ----

func verifRequestID(inner http.Handler) http.Handler     { return inner } // uuid
func verifMapAdd(m *expvar.Map, key string, delta int64) {}               // stdlib expvar counters
func verifHttpError(w http.ResponseWriter, err string, pretty bool, code int) {
	w.WriteHeader(code) // the JSON body (encoding/json) is not part of the property
}

func verifURLParamsWithinMax(params int) bool { return true } // GODEBUG knob of net/url

type verifRW struct {
	h      http.Header
	status int
}

func (w *verifRW) Header() http.Header         { return w.h }
func (w *verifRW) Write(b []byte) (int, error) { return len(b), nil }
func (w *verifRW) WriteHeader(code int) {
	if w.status == 0 {
		w.status = code
	}
}

type verifAuth struct {
	user auth.User
	pass string
}

func (a *verifAuth) Authenticate(username, password string) (auth.User, error) {
	if username == "bob" && password == a.pass {
		return a.user, nil
	}
	return auth.User{}, errors.New("bad credentials")
}
func (a *verifAuth) User(username string) (auth.User, error) { return auth.User{}, errors.New("no") }
func (a *verifAuth) SubscriptionUser(token string) (auth.User, error) {
	return auth.User{}, errors.New("no")
}
func (a *verifAuth) GrantSubscriptionAccess(token, db, rp string) error { return nil }
func (a *verifAuth) ListSubscriptionTokens() ([]string, error)          { return nil, nil }
func (a *verifAuth) RevokeSubscriptionAccess(token string) error        { return nil }

var verifHTTPGrantPaths = []string{"/", "/api", "/api/write", "/api/tasks"}

// VerifC20Route: a request dispatched through the real route table (addRawRoute wiring,
// authenticate, authorize / authorizeForward) reaches its handler only with valid
// credentials and only if the user is admin or the privilege required by the HTTP method is
// granted on the nearest granted ancestor-or-self of /api/<route>.
func VerifC20Route(v *vrt.T) {
	methods := []string{"GET", "POST", "PATCH", "DELETE", "HEAD"}
	method := methods[v.Choose("method", len(methods))]
	sub := []string{"/write", "/tasks"}[v.Choose("route", 2)]
	forwarding := v.Choose("forwarding", 2) == 1 // handler that receives the user (write path) or a plain one

	grants := map[string][]auth.Privilege{}
	masks := map[string]auth.Privilege{}
	for _, p := range verifHTTPGrantPaths {
		if v.Bool("has" + p) {
			m := auth.Privilege(v.IntRange("mask"+p, 0, 31))
			grants[p] = []auth.Privilege{m}
			masks[p] = m
		}
	}
	admin := v.Bool("admin")
	user := auth.NewUser("bob", nil, admin, grants)
	goodPass := v.Bool("goodpass")
	pass := "wrong"
	if goodPass {
		pass = "pw"
	}

	h := &Handler{methodMux: map[string]*ServeMux{}, requireAuthentication: true, AuthService: &verifAuth{user: user, pass: "pw"}, statMap: new(expvar.Map)}
	for _, m := range methods {
		h.methodMux[m] = NewServeMux()
	}
	served := false
	var servedAs string
	var hf interface{}
	if forwarding {
		hf = func(w http.ResponseWriter, r *http.Request, u auth.User) { served = true; servedAs = u.Name() }
	} else {
		hf = func(w http.ResponseWriter, r *http.Request) { served = true }
	}
	err := h.addRawRoute(Route{Method: method, Pattern: BasePath + sub, HandlerFunc: hf, NoGzip: true, NoJSON: true})
	v.Assert(err == nil, "route added")
	w := &verifRW{h: http.Header{}}
	u := &url.URL{Path: BasePath + sub, RawQuery: "u=bob&p=" + pass}
	// the client may spell any octet of the path percent-escaped (/kapacitor/v1/%74asks):
	// the server's URL parser keeps that spelling in RawPath next to the decoded Path; it is
	// the same resource
	if k := v.Choose("escaped octet", 3); k > 0 {
		i := len(BasePath) + k // an octet of the route name
		const hex = "0123456789ABCDEF"
		c := u.Path[i]
		u.RawPath = u.Path[:i] + "%" + string([]byte{hex[c>>4], hex[c&15]}) + u.Path[i+1:]
		v.Assert(u.EscapedPath() == u.RawPath, "harness: the escaped spelling is a valid encoding of the path")
	}
	req := &http.Request{Method: method, URL: u, Header: http.Header{}}
	h.ServeHTTP(w, req)

	var priv auth.Privilege
	switch method {
	case "GET":
		priv = auth.ReadPrivilege
	case "POST", "PATCH":
		priv = auth.WritePrivilege
	case "DELETE":
		priv = auth.DeletePrivilege
	default:
		priv = auth.NoPrivileges
	}
	authorized := admin || priv == auth.NoPrivileges
	if !authorized {
		for _, p := range []string{"/api" + sub, "/api", "/"} {
			if m, ok := masks[p]; ok {
				authorized = m&priv != 0 || m&auth.AllPrivileges != 0
				break
			}
		}
	}
	v.Observe("served", served)
	v.Assert(served == (goodPass && authorized), "served exactly with valid credentials and a granted privilege")
	if !goodPass {
		v.Assert(w.status == http.StatusUnauthorized, "bad credentials are rejected with 401")
	} else if !authorized {
		v.Assert(w.status == http.StatusForbidden, "missing privilege is rejected with 403")
	} else if forwarding {
		v.Assert(servedAs == "bob", "the authenticated user is forwarded")
	}
	v.Reach("end")
}

// Raw request paths aimed at the subtree route /kapacitor/v1/config/ and the path the mux
// canonicalises them to (path.Clean semantics, trailing slash kept): "." / ".." / empty
// segments never widen access - whatever is served is authorised for the resource of the
// canonical path, and a raw path whose canonical form leaves the subtree is not served by
// the subtree's handler.
var verifC20TrickPaths = []struct {
	raw, canonical string
}{
	{BasePath + "/config/x", BasePath + "/config/x"},
	{BasePath + "/config/", BasePath + "/config/"},
	{BasePath + "/config/..", BasePath + "/"},
	{BasePath + "/config/x/../..", BasePath + "/"},
	{BasePath + "/config/./x", BasePath + "/config/x"},
	{BasePath + "/config//x", BasePath + "/config/x"},
	{"/" + BasePath + "/config/x", BasePath + "/config/x"},
	{"/kapacitor//v1/config/x", BasePath + "/config/x"},
	{BasePath + "/tasks/../config/x", BasePath + "/config/x"},
	{BasePath + "/config/../tasks", BasePath + "/tasks"},
	// the preview base path is rewritten to the base path and dispatched again (rewritePreview)
	{BasePreviewPath + "/tasks", BasePath + "/tasks"},
	{BasePreviewPath + "/config/x", BasePath + "/config/x"},
	{BasePreviewPath + "/config/../tasks", BasePath + "/tasks"},
	{BasePreviewPath + "/../v1/config/x", BasePath + "/config/x"},
	// neighbours of the exact route /tasks: one byte more (symbolic, see below), a trailing
	// slash, one byte less - other resources, never served by the /tasks handler
	{BasePath + "/tasks\x00", BasePath + "/tasks\x00"},
	{BasePath + "/tasks/", BasePath + "/tasks/"},
	{BasePath + "/task", BasePath + "/task"},
}

// VerifC20PathTricks: the subtree route /config/ behind the real mux and authorisation,
// with the API-user grant table shape (symbolic masks on /api and /api/config): requests
// with dot segments, empty segments and redundant slashes.
func VerifC20PathTricks(v *vrt.T) {
	methods := []string{"GET", "POST", "DELETE"}
	method := methods[v.Choose("method", len(methods))]
	tp := verifC20TrickPaths[v.Choose("path", len(verifC20TrickPaths))]
	if n := len(tp.raw); tp.raw[n-1] == 0 {
		// the extra byte is arbitrary (not a separator or a dot, which the other rows cover)
		b := v.Byte("extra byte")
		v.Assume(b != '/' && b != '.' && b != 0)
		tp.raw = tp.raw[:n-1] + string([]byte{b})
		tp.canonical = tp.raw
	}

	grants := map[string][]auth.Privilege{}
	masks := map[string]auth.Privilege{}
	for _, p := range []string{"/api", "/api/config"} {
		if v.Bool("has" + p) {
			m := auth.Privilege(v.IntRange("mask"+p, 0, 31))
			grants[p] = []auth.Privilege{m}
			masks[p] = m
		}
	}
	user := auth.NewUser("bob", nil, false, grants)
	h := &Handler{methodMux: map[string]*ServeMux{}, requireAuthentication: true, AuthService: &verifAuth{user: user, pass: "pw"}, statMap: new(expvar.Map)}
	for _, m := range methods {
		h.methodMux[m] = NewServeMux()
	}
	servedConfig, servedTasks := false, false
	v.Assert(h.addRawRoute(Route{Method: method, Pattern: BasePath + "/config/", HandlerFunc: func(w http.ResponseWriter, r *http.Request) { servedConfig = true }, NoGzip: true, NoJSON: true}) == nil, "route added")
	v.Assert(h.addRawRoute(Route{Method: method, Pattern: BasePath + "/tasks", HandlerFunc: func(w http.ResponseWriter, r *http.Request) { servedTasks = true }, NoGzip: true, NoJSON: true}) == nil, "route added")
	v.Assert(h.addRawRoute(Route{Method: method, Pattern: BasePreviewPath + "/", HandlerFunc: h.rewritePreview, NoGzip: true, NoJSON: true}) == nil, "preview route added (as NewHandler does)")
	w := &verifRW{h: http.Header{}}
	h.ServeHTTP(w, &http.Request{Method: method, URL: &url.URL{Path: tp.raw, RawQuery: "u=bob&p=pw"}, Header: http.Header{}})

	var priv auth.Privilege
	switch method {
	case "GET":
		priv = auth.ReadPrivilege
	case "POST":
		priv = auth.WritePrivilege
	default:
		priv = auth.DeletePrivilege
	}
	granted := func(chain ...string) bool {
		for _, p := range chain {
			if m, ok := masks[p]; ok {
				return m&priv != 0 || m&auth.AllPrivileges != 0
			}
		}
		return false
	}
	underConfig := len(tp.canonical) >= len(BasePath+"/config/") && tp.canonical[:len(BasePath+"/config/")] == BasePath+"/config/"
	v.Observe("served", servedConfig, servedTasks, w.status)
	if servedConfig {
		v.Assert(underConfig, "the config handler serves only paths whose canonical form lies in its subtree")
		v.Assert(granted("/api/config", "/api"), "what the config handler serves is authorised for /api/config (nearest granted ancestor)")
	}
	if servedTasks {
		v.Assert(tp.canonical == BasePath+"/tasks" && granted("/api"), "the tasks handler serves only its own canonical path, authorised for /api/tasks")
		if tp.raw == BasePreviewPath+"/tasks" {
			v.Reach("served through the preview path")
		}
	}
	if tp.raw == tp.canonical && underConfig {
		v.Assert(servedConfig == granted("/api/config", "/api"), "a canonical request is served exactly when authorised")
	}
	v.Reach("end")
}
