package auth

import (
	vrt "github.com/influxdata/kapacitor/zz_vrt"
)

var verifGrantPaths = []string{"/", "/a", "/a/b", "/api"}

// verifCanon resolves a slash-separated absolute path with a stack: "" and "." segments
// are dropped, ".." pops (never above the root). Reference for path normalisation,
// written independently of path.Clean.
func verifCanon(p string) []string {
	var st []string
	seg := ""
	flush := func() {
		switch seg {
		case "", ".":
		case "..":
			if len(st) > 0 {
				st = st[:len(st)-1]
			}
		default:
			st = append(st, seg)
		}
		seg = ""
	}
	for i := 0; i < len(p); i++ {
		if p[i] == '/' {
			flush()
		} else {
			seg += string(p[i : i+1])
		}
	}
	flush()
	return st
}

func verifJoin(segs []string) string {
	if len(segs) == 0 {
		return "/"
	}
	s := ""
	for _, x := range segs {
		s += "/" + x
	}
	return s
}

// VerifC20Authorize: AuthorizeAction against the reference "nearest ancestor-or-self of
// the normalised resource that carries a grant decides; it grants iff it contains the
// requested privilege or ALL".
func VerifC20Authorize(v *vrt.T) {
	grants := map[string][]Privilege{}
	masks := map[string]Privilege{}
	// a grant is a LIST of privileges; listing an entry more than once (as the conversion of
	// InfluxDB Enterprise permissions can) grants nothing extra
	repeated := v.Choose("every grant entry listed twice", 2) == 1
	for _, p := range verifGrantPaths {
		if v.Bool("has" + p) {
			m := Privilege(v.IntRange("mask"+p, 0, 31))
			grants[p] = []Privilege{m}
			if repeated {
				grants[p] = []Privilege{m, m}
			}
			masks[p] = m
		}
	}
	admin := v.Bool("admin")
	u := NewUser("u", nil, admin, grants)
	priv := []Privilege{NoPrivileges, ReadPrivilege, WritePrivilege, DeletePrivilege}[v.Choose("priv", 4)]
	n := v.Choose("len", v.Bound("bytes", 4)+1)
	res := "/" + v.String("res", n)
	err := u.AuthorizeAction(Action{Resource: res, Privilege: priv})

	want := false
	switch {
	case priv == NoPrivileges || admin:
		want = true
	default:
		segs := verifCanon(res)
		for {
			if m, ok := masks[verifJoin(segs)]; ok {
				want = m&priv != 0 || m&AllPrivileges != 0
				break
			}
			if len(segs) == 0 {
				break
			}
			segs = segs[:len(segs)-1]
		}
	}
	v.Observe("authorized", err == nil)
	v.Assert((err == nil) == want, "authorised iff the nearest granted ancestor grants the privilege")
	v.Reach("end")
}

func verifHasSlash(s string) bool {
	for i := 0; i < len(s); i++ {
		if s[i] == '/' {
			return true
		}
	}
	return false
}

// VerifC20DatabaseResource: distinct database names map to distinct resources, each a
// single path element directly under /database.
func VerifC20DatabaseResource(v *vrt.T) {
	max := v.Bound("dbbytes", 3)
	a := v.String("a", v.Choose("lena", max+1))
	b := v.String("b", v.Choose("lenb", max+1))
	ra, rb := DatabaseResource(a), DatabaseResource(b)
	// recorded known finding: dirty names (containing '/') that differ only by '/' <-> '_'
	inClass := len(a) == len(b) && verifHasSlash(a) && verifHasSlash(b)
	if inClass {
		for i := 0; i < len(a); i++ {
			x, y := a[i], b[i]
			if !(x == y || (x == '/' && y == '_') || (x == '_' && y == '/')) {
				inClass = false
			}
		}
	}
	v.Observe("same", ra == rb)
	v.AssertKnown(a == b || ra != rb, "distinct database names map to distinct resources", inClass, "C20-dbresource-slash-underscore")
	if a != "" {
		// single element under /database: the canonical form is ["database", x]
		segs := verifCanon(ra)
		v.Assert(len(segs) == 2 && segs[0] == "database" && ra == verifJoin(segs), "a database maps to one path element under /database")
	} else {
		v.Assert(ra == "/database", "empty name is the database root")
	}
	v.Reach("end")
}
