package storage

// Exported entry points for harnesses in other packages (injected by overlay only,
// together with C15/store.go).

// VerifNewMem is the in-harness ordered transactional store of C15/store.go.
func VerifNewMem() Interface { return &verifMem{} }

// VerifArm sets the fault plan of a store made by VerifNewMem: the failAt-th write of a
// read-write transaction fails (0: none).
func VerifArm(s Interface, failAt int) { s.(*verifMem).arm(failAt, false) }
