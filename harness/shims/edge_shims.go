package edge

import "errors"

// VerifCopyBatchJSON copies a bufferedBatchMessageJSON value (remembered by the harness'
// model of json.Marshal) into the target of json.Unmarshal with the typing JSON gives it:
// numbers in the interface{}-typed field map come back as float64, empty tag maps as nil.
func VerifCopyBatchJSON(doc interface{}, into interface{}) error {
	src, ok := doc.(*bufferedBatchMessageJSON)
	if !ok {
		return errors.New("verif: unexpected document")
	}
	pp, ok := into.(**bufferedBatchMessageJSON)
	if !ok {
		return errors.New("verif: unexpected target of json.Unmarshal")
	}
	dst := *pp
	if dst == nil {
		dst = new(bufferedBatchMessageJSON)
		*pp = dst
	}
	dst.Name, dst.TMax, dst.Group, dst.ByName = src.Name, src.TMax, src.Group, src.ByName
	dst.Tags = nil
	if len(src.Tags) > 0 {
		dst.Tags = src.Tags.Copy()
	}
	dst.Points = make([]batchPointMessageJSON, len(src.Points))
	for i, p := range src.Points {
		q := batchPointMessageJSON{Time: p.Time}
		if p.Tags != nil {
			q.Tags = p.Tags.Copy()
		}
		if p.Fields != nil {
			q.Fields = make(map[string]interface{}, len(p.Fields))
			for k, x := range p.Fields {
				switch n := x.(type) {
				case int64:
					q.Fields[k] = float64(n)
				case int:
					q.Fields[k] = float64(n)
				default:
					q.Fields[k] = x
				}
			}
		}
		dst.Points[i] = q
	}
	return nil
}
