package pipeline

// Exported constructors for harnesses in other packages (injected by overlay only).

func VerifNewJoinNode(e EdgeType) *JoinNode { return newJoinNode(e, nil) }

func VerifNewAlertNode(e EdgeType) *AlertNode { return newAlertNode(e) }
