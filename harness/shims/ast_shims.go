package ast

// Exported entry points for harnesses in other packages (injected by overlay only).

// VerifGetNode is the dispatch every JSON node field goes through (JSONNode.Node,
// NodeList, and so every XNode.UnmarshalJSON after encoding/json produced the generic
// document).
func VerifGetNode(doc interface{}) (Node, error) { return JSONNode{}.getNode(doc) }

// VerifUnmarshalLambda is LambdaNode.UnmarshalJSON after json.Unmarshal(data, &props).
func VerifUnmarshalLambda(props map[string]interface{}) (*LambdaNode, error) {
	n := &LambdaNode{}
	err := n.unmarshal(JSONNode(props))
	return n, err
}
