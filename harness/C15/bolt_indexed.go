package storage

import (
	vrt "github.com/influxdata/kapacitor/zz_vrt"
)

func verifNewStoreOn(st Interface) *IndexedStore {
	c := DefaultIndexedStoreConfig("p", func() BinaryObject { return new(verifObj) })
	c.Indexes = append(c.Indexes, Index{
		Name: verifSecIndex,
		ValueFunc: func(o BinaryObject) (string, error) {
			return string([]byte{o.(*verifObj).sec}), nil
		},
	})
	s, err := NewIndexedStore(st, c)
	if err != nil {
		panic(err)
	}
	return s
}

func verifLayoutEnts(md *verifModel) []verifRefEnt {
	ents := []verifRefEnt{{dir: "", k: "ns", bkt: true}}
	for _, kv := range verifLayout(md) {
		ents = append(ents, verifRefEnt{dir: "ns", k: kv.k, v: kv.v})
	}
	return ents
}

// VerifC15StepOnBolt: the inductive step of VerifC15Step with the IndexedStore on the REAL
// Bolt wrapper (namespace bucket "ns") instead of the in-harness map: from the key layout
// of any model, one Create/Put/Replace/Delete/Rebuild; afterwards the database holds
// exactly the layout of the updated model (unchanged if the operation was rejected), and
// after closing and reopening it Get and both index listings answer from that model.
// (No injected storage failures here: the model of bbolt has none; see Step for those.)
func VerifC15StepOnBolt(v *vrt.T) {
	verifWorld(v)
	md := verifArbitraryModel(v)
	db := verifC15BoltOpen()
	defer func() { verifC15BoltClose(db) }()
	if v.Choose("namespace exists", 2) == 1 || verifLayout(md) != nil {
		verifC15BoltSeed(db, verifLayoutEnts(md))
	}
	s := verifNewStoreOn(NewBolt(db).Store([]byte("ns")))

	op := v.Choose("op", 5)
	k := v.Choose("id", len(verifIDs))
	o := &verifObj{id: verifIDs[k], sec: 'x' + byte(v.IntRange("newsec", 0, verifSecs-1)), pay: v.Byte("newpay")}
	want := *md
	rejected := false
	var err error
	switch op {
	case 0:
		err = s.Create(o)
		rejected = md.has[k]
		if rejected {
			v.Assert(err == ErrObjectExists, "create of an existing ID is rejected with ErrObjectExists")
		}
		want.has[k], want.sec[k], want.pay[k] = true, o.sec, o.pay
	case 1:
		err = s.Put(o)
		want.has[k], want.sec[k], want.pay[k] = true, o.sec, o.pay
	case 2:
		err = s.Replace(o)
		rejected = !md.has[k]
		if rejected {
			v.Assert(err == ErrNoObjectExists, "replace of a missing ID is rejected with ErrNoObjectExists")
		}
		want.has[k], want.sec[k], want.pay[k] = true, o.sec, o.pay
	case 3:
		err = s.Delete(verifIDs[k])
		want.has[k], want.sec[k], want.pay[k] = false, 0, 0
	case 4:
		err = s.Rebuild()
	}
	v.Assert((err != nil) == rejected, "an operation fails iff it is rejected")
	if err != nil {
		want = *md
	}
	// the namespace bucket exists once anything was written (or it existed before)
	dump := verifC15BoltDump(db)
	wantEnts := verifLayoutEnts(&want)
	if len(dump) == 0 {
		wantEnts = nil
		v.Assert(verifLayout(&want) == nil, "an empty database holds no object")
	}
	verifRefSameAsDump(v, &verifRef{ents: wantEnts}, dump, "after the operation")

	db = verifC15BoltReopen(db)
	s = verifNewStoreOn(NewBolt(db).Store([]byte("ns")))
	for i, id := range verifIDs {
		g, gerr := s.Get(id)
		if want.has[i] {
			v.Assert(gerr == nil, "get of a stored ID succeeds")
			if gerr == nil {
				x := g.(*verifObj)
				v.Assert(x.id == id && x.sec == want.sec[i] && x.pay == want.pay[i], "get returns the last value stored")
			}
		} else {
			v.Assert(gerr == ErrNoObjectExists, "get of an absent ID reports ErrNoObjectExists")
		}
	}
	l1, e1 := s.List(DefaultIDIndex, "", 0, 100)
	v.Assert(e1 == nil, "list by id succeeds")
	verifAssertObjects(v, &want, l1, verifOrder(&want, DefaultIDIndex), "id index")
	l2, e2 := s.List(verifSecIndex, "", 0, 100)
	v.Assert(e2 == nil, "list by sec succeeds")
	verifAssertObjects(v, &want, l2, verifOrder(&want, verifSecIndex), "sec index")
	v.Observe("result", err == nil, len(dump), len(l1), len(l2))
	v.Reach("end")
}
