package storage

import (
	vrt "github.com/influxdata/kapacitor/zz_vrt"
)

// verifGlob: reference matcher for the pattern alphabet used by the harness: '*' matches
// any sequence of bytes (IDs contain no '/'), '?' any single byte, any other byte itself.
func verifGlob(pat, s string) bool {
	if pat == "" {
		return s == ""
	}
	switch pat[0] {
	case '*':
		for k := 0; k <= len(s); k++ {
			if verifGlob(pat[1:], s[k:]) {
				return true
			}
		}
		return false
	case '?':
		return s != "" && verifGlob(pat[1:], s[1:])
	default:
		return s != "" && s[0] == pat[0] && verifGlob(pat[1:], s[1:])
	}
}

const verifMaxInt = int(^uint(0) >> 1)

// VerifC15List: List / ReverseList on a valid store (the invariant established by
// VerifC15Step) against the reference: objects in index order (reversed for
// ReverseList), those whose ID matches the pattern (all when the pattern is empty),
// then the slice [offset, offset+limit) of that list; limit < 0 = no limit
// (documentation of List).
func VerifC15List(v *vrt.T) {
	verifWorld(v)
	md := verifArbitraryModel(v)
	mem := &verifMem{kvs: verifLayout(md)}
	s := verifNewStore(mem)

	index := []string{DefaultIDIndex, verifSecIndex}[v.Choose("index", 2)]
	reverse := v.Choose("reverse", 2) == 1

	// pattern: up to N bytes over the alphabet {a, b, *, ?}
	pn := v.Choose("patlen", v.Bound("patbytes", 2)+1)
	pb := v.Bytes("pattern", pn)
	for i := range pb {
		c := pb[i]
		v.Assume(c == 'a' || c == 'b' || c == '*' || c == '?')
	}
	pattern := string(pb)

	// offset >= 0; limit small (negative = unlimited) or close to the largest int
	offset := v.IntRange("offset", 0, len(verifIDs)+2)
	var limit int
	if v.Choose("limitkind", 2) == 0 {
		limit = v.IntRange("limit", -2, len(verifIDs)+2)
	} else {
		limit = verifMaxInt - v.IntRange("limitgap", 0, 3)
	}

	var got []BinaryObject
	var err error
	if reverse {
		got, err = s.ReverseList(index, pattern, offset, limit)
	} else {
		got, err = s.List(index, pattern, offset, limit)
	}
	v.Assert(err == nil, "listing a valid store succeeds")
	v.Assert(mem.openTx == 0, "every transaction is finished")

	// reference
	order := verifOrder(md, index)
	if reverse {
		for i, j := 0, len(order)-1; i < j; i, j = i+1, j-1 {
			order[i], order[j] = order[j], order[i]
		}
	}
	var matched []int
	for _, i := range order {
		if pattern == "" || verifGlob(pattern, verifIDs[i]) {
			matched = append(matched, i)
		}
	}
	var want []int
	for pos, i := range matched {
		if pos >= offset && (limit < 0 || pos-offset < limit) {
			want = append(want, i)
		}
	}
	verifAssertObjects(v, md, got, want, "page")
	v.Observe("page", len(got), len(matched), err == nil)
	v.Reach("end")
}

// VerifC15Rebuild: data entries of an arbitrary model, index entries of an UNRELATED
// arbitrary model (missing, stale and wrong-valued index entries): Rebuild restores the
// layout of the data's model; a failed Rebuild leaves the snapshot unchanged.
func VerifC15Rebuild(v *vrt.T) {
	verifWorld(v)
	md := verifArbitraryModel(v)
	other := verifArbitraryModel(v)
	mem := &verifMem{}
	for _, kv := range verifLayout(md) {
		if verifHasPrefix(kv.k, "/p/data/") {
			mem.set(kv.k, kv.v)
		}
	}
	for _, kv := range verifLayout(other) {
		if verifHasPrefix(kv.k, "/p/indexes/") {
			mem.set(kv.k, kv.v)
		}
	}
	s := verifNewStore(mem)
	before := verifCloneKVs(mem.kvs)
	mem.arm(v.IntRange("failAt", 0, v.Bound("maxfail", 13)), v.Bool("failCommit"))
	err := s.Rebuild()
	v.Assert(mem.openTx == 0, "every transaction is finished")
	if !mem.fired {
		v.Assert(err == nil, "rebuild succeeds without a storage failure")
	}
	if err != nil {
		verifAssertSame(v, mem.kvs, before)
	} else {
		verifAssertSame(v, mem.kvs, verifLayout(md))
	}
	v.Observe("rebuild", err == nil, mem.fired, len(mem.kvs))
	v.Reach("end")
}

func verifNoSlash(s string) bool {
	for i := 0; i < len(s); i++ {
		if s[i] == '/' {
			return false
		}
	}
	return true
}

// VerifC15Keys: IDs are arbitrary non-empty byte strings without '/' (the store's own
// notion of one path element, validPath). Distinct IDs must get distinct data keys and
// distinct index keys, each directly inside its directory; and an object created under
// such an ID is listed by every index and found by Get.
func VerifC15Keys(v *vrt.T) {
	max := v.Bound("idbytes", 2)
	a := v.String("a", 1+v.Choose("lena", max))
	b := v.String("b", 1+v.Choose("lenb", max))
	v.Assume(verifNoSlash(a))
	v.Assume(verifNoSlash(b))
	v.Assume(a != b)
	dotty := a == "." || a == ".." || b == "." || b == ".."

	mem := &verifMem{}
	s := verifNewStore(mem)
	sec := 'x' + byte(v.IntRange("sec", 0, 1))
	oa := &verifObj{id: a, sec: sec, pay: v.Byte("paya")}
	ob := &verifObj{id: b, sec: sec, pay: v.Byte("payb")}

	v.Assert(s.dataKey(a) != s.dataKey(b), "distinct IDs have distinct data keys")
	v.Assert(s.dataKey(a) == "/p/data/"+a, "data key is the ID inside the data directory")
	for _, idx := range s.indexes {
		va, _ := idx.ValueOf(oa)
		vb, _ := idx.ValueOf(ob)
		ka, kb := s.indexKey(idx.Name, va), s.indexKey(idx.Name, vb)
		dir := "/p/indexes/" + idx.Name + "/"
		v.AssertKnown(ka != kb, "distinct IDs have distinct index keys", dotty, "C15-dot-ids-index-key")
		v.AssertKnown(verifHasPrefix(ka, dir) && verifHasPrefix(kb, dir), "index keys lie inside the index directory", dotty, "C15-dot-ids-index-key")
	}

	// end to end: create both, every index lists both (each once), Get finds both
	v.Assert(s.Create(oa) == nil && s.Create(ob) == nil, "create of two distinct new IDs succeeds")
	for _, idx := range s.indexes {
		l, err := s.List(idx.Name, "", 0, 10)
		v.Assert(err == nil, "list succeeds")
		ok := len(l) == 2
		if ok {
			x, y := l[0].(*verifObj), l[1].(*verifObj)
			ok = (x.id == a && y.id == b && x.pay == oa.pay && y.pay == ob.pay) ||
				(x.id == b && y.id == a && x.pay == ob.pay && y.pay == oa.pay)
		}
		v.AssertKnown(ok, "every index lists exactly the stored objects", dotty, "C15-dot-ids-index-key")
	}
	ga, ea := s.Get(a)
	v.Assert(ea == nil && ga.(*verifObj).pay == oa.pay && ga.(*verifObj).id == a, "get returns the stored object")
	// delete one: the other stays listed, the deleted one is gone
	v.Assert(s.Delete(a) == nil, "delete succeeds")
	for _, idx := range s.indexes {
		l, err := s.List(idx.Name, "", 0, 10)
		v.AssertKnown(err == nil && len(l) == 1 && l[0].(*verifObj).id == b, "after delete every index lists exactly the remaining object", dotty, "C15-dot-ids-index-key")
	}
	v.Observe("keys", len(mem.kvs))
	v.Reach("end")
}
