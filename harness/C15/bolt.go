package storage

import (
	"errors"
	"os"
	"path/filepath"

	vrt "github.com/influxdata/kapacitor/zz_vrt"
	bolt "go.etcd.io/bbolt"
)

// ---------------------------------------------------------------------------------
// The real Bolt wrapper (bolt.go: Store/Bucket path handling, put/get/delete/exists/list,
// newTx, boltTx/boltTXReadOnly; storage.go: DoUpdate/DoView) over bbolt.
//
// Under the engine the bbolt API the wrapper talks to (DB.Update/View/Begin, Tx.Bucket/
// CreateBucketIfNotExists/Cursor/Commit/Rollback, Bucket.Get/Put/Delete/DeleteBucket/
// Bucket/CreateBucketIfNotExists/Cursor, Cursor.Seek/Next/...) is replaced, function by
// function, by a model written from bbolt's documented contract: buckets are byte-ordered
// maps whose entries are plain values or nested buckets, a cursor walks one bucket in key
// order and reports nested buckets with a nil value, a write transaction works on a
// private copy published by Commit. The B+tree, pages, mmap and the file are bbolt's own
// and not part of the claim. In native replays and validation runs the real bbolt runs on
// a file in a scratch directory, so every engine verdict is re-checked against it.
// ---------------------------------------------------------------------------------

type verifBEnt struct {
	k   string
	v   []byte
	sub *verifBBkt // non-nil: nested bucket
}

type verifBBkt struct {
	ents []verifBEnt // sorted by k
}

func (b *verifBBkt) clone() *verifBBkt {
	c := &verifBBkt{ents: make([]verifBEnt, len(b.ents))}
	for i, e := range b.ents {
		c.ents[i] = verifBEnt{k: e.k, v: append([]byte(nil), e.v...)}
		if e.sub != nil {
			c.ents[i].sub = e.sub.clone()
		}
	}
	return c
}

// seek: position of the first entry whose key is >= k (len(ents) if none).
func (b *verifBBkt) seek(k string) int {
	for i := range b.ents {
		if b.ents[i].k >= k {
			return i
		}
	}
	return len(b.ents)
}

func (b *verifBBkt) find(k string) int {
	if i := b.seek(k); i < len(b.ents) && b.ents[i].k == k {
		return i
	}
	return -1
}

func (b *verifBBkt) insert(e verifBEnt) {
	pos := b.seek(e.k)
	b.ents = append(b.ents, verifBEnt{})
	copy(b.ents[pos+1:], b.ents[pos:])
	b.ents[pos] = e
}

func (b *verifBBkt) remove(i int) {
	b.ents = append(b.ents[:i], b.ents[i+1:]...)
}

type verifBDBState struct {
	root *verifBBkt // committed contents
}

type verifBTxState struct {
	db       *verifBDBState
	root     *verifBBkt
	rootBkt  *bolt.Bucket
	writable bool
	managed  bool
	done     bool
}

type verifBBktRef struct {
	tx *verifBTxState
	b  *verifBBkt
}

type verifBCurState struct {
	bkt *bolt.Bucket
	pos int
}

var (
	verifBDBs  = map[*bolt.DB]*verifBDBState{}
	verifBTxs  = map[*bolt.Tx]*verifBTxState{}
	verifBBkts = map[*bolt.Bucket]*verifBBktRef{}
	verifBCurs = map[*bolt.Cursor]*verifBCurState{}

	verifBErrTxClosed      = errors.New("verif bbolt model: tx closed")
	verifBErrNotWritable   = errors.New("verif bbolt model: tx not writable")
	verifBErrIncompatible  = errors.New("verif bbolt model: incompatible value")
	verifBErrBucketMissing = errors.New("verif bbolt model: bucket not found")
	verifBErrBucketExists  = errors.New("verif bbolt model: bucket already exists")
	verifBErrKeyRequired   = errors.New("verif bbolt model: key required")
	verifBErrManaged       = errors.New("verif bbolt model: managed tx commit/rollback not allowed")
)

func verifBNewBucket(tx *verifBTxState, b *verifBBkt) *bolt.Bucket {
	h := &bolt.Bucket{}
	verifBBkts[h] = &verifBBktRef{tx: tx, b: b}
	return h
}

// ---- DB ----

func verifBDBBegin(db *bolt.DB, writable bool) (*bolt.Tx, error) {
	st := verifBDBs[db]
	ts := &verifBTxState{db: st, writable: writable}
	if writable {
		ts.root = st.root.clone()
	} else {
		ts.root = st.root // a read transaction sees the snapshot of its start; the model has no concurrent writer
	}
	tx := &bolt.Tx{}
	ts.rootBkt = verifBNewBucket(ts, ts.root)
	verifBTxs[tx] = ts
	return tx, nil
}

func verifBDBUpdate(db *bolt.DB, fn func(*bolt.Tx) error) error {
	tx, _ := verifBDBBegin(db, true)
	ts := verifBTxs[tx]
	ts.managed = true
	err := fn(tx)
	ts.managed = false
	if err != nil {
		verifBTxRollback(tx)
		return err
	}
	return verifBTxCommit(tx)
}

func verifBDBView(db *bolt.DB, fn func(*bolt.Tx) error) error {
	tx, _ := verifBDBBegin(db, false)
	ts := verifBTxs[tx]
	ts.managed = true
	err := fn(tx)
	ts.managed = false
	verifBTxRollback(tx)
	return err
}

// ---- Tx ----

func verifBTxCommit(tx *bolt.Tx) error {
	ts := verifBTxs[tx]
	if ts.managed {
		panic(verifBErrManaged)
	}
	if ts.done {
		return verifBErrTxClosed
	}
	if !ts.writable {
		return verifBErrNotWritable
	}
	ts.done = true
	ts.db.root = ts.root
	return nil
}

func verifBTxRollback(tx *bolt.Tx) error {
	ts := verifBTxs[tx]
	if ts.managed {
		panic(verifBErrManaged)
	}
	if ts.done {
		return verifBErrTxClosed
	}
	ts.done = true
	return nil
}

func verifBTxWritable(tx *bolt.Tx) bool { return verifBTxs[tx].writable }

func verifBTxCursor(tx *bolt.Tx) *bolt.Cursor { return verifBBucketCursor(verifBTxs[tx].rootBkt) }

func verifBTxBucket(tx *bolt.Tx, name []byte) *bolt.Bucket {
	return verifBBucketBucket(verifBTxs[tx].rootBkt, name)
}

func verifBTxCreateBucket(tx *bolt.Tx, name []byte) (*bolt.Bucket, error) {
	return verifBBucketCreateBucket(verifBTxs[tx].rootBkt, name)
}

func verifBTxCreateBucketIfNotExists(tx *bolt.Tx, name []byte) (*bolt.Bucket, error) {
	return verifBBucketCreateBucketIfNotExists(verifBTxs[tx].rootBkt, name)
}

func verifBTxDeleteBucket(tx *bolt.Tx, name []byte) error {
	return verifBBucketDeleteBucket(verifBTxs[tx].rootBkt, name)
}

// ---- Bucket ----

func verifBBucketWritable(b *bolt.Bucket) bool { return verifBBkts[b].tx.writable }

func verifBBucketCursor(b *bolt.Bucket) *bolt.Cursor {
	c := &bolt.Cursor{}
	verifBCurs[c] = &verifBCurState{bkt: b, pos: -1}
	return c
}

func verifBBucketBucket(b *bolt.Bucket, name []byte) *bolt.Bucket {
	r := verifBBkts[b]
	i := r.b.find(string(name))
	if i < 0 || r.b.ents[i].sub == nil {
		return nil
	}
	return verifBNewBucket(r.tx, r.b.ents[i].sub)
}

func verifBBucketCreateBucket(b *bolt.Bucket, name []byte) (*bolt.Bucket, error) {
	r := verifBBkts[b]
	if r.tx.done {
		return nil, verifBErrTxClosed
	} else if !r.tx.writable {
		return nil, verifBErrNotWritable
	} else if len(name) == 0 {
		return nil, verifBErrKeyRequired
	}
	if i := r.b.find(string(name)); i >= 0 {
		if r.b.ents[i].sub != nil {
			return nil, verifBErrBucketExists
		}
		return nil, verifBErrIncompatible
	}
	sub := &verifBBkt{}
	r.b.insert(verifBEnt{k: string(name), sub: sub})
	return verifBNewBucket(r.tx, sub), nil
}

func verifBBucketCreateBucketIfNotExists(b *bolt.Bucket, name []byte) (*bolt.Bucket, error) {
	child, err := verifBBucketCreateBucket(b, name)
	if err == verifBErrBucketExists {
		return verifBBucketBucket(b, name), nil
	}
	return child, err
}

func verifBBucketDeleteBucket(b *bolt.Bucket, name []byte) error {
	r := verifBBkts[b]
	if r.tx.done {
		return verifBErrTxClosed
	} else if !r.tx.writable {
		return verifBErrNotWritable
	}
	i := r.b.find(string(name))
	if i < 0 {
		return verifBErrBucketMissing
	} else if r.b.ents[i].sub == nil {
		return verifBErrIncompatible
	}
	r.b.remove(i)
	return nil
}

func verifBBucketGet(b *bolt.Bucket, key []byte) []byte {
	r := verifBBkts[b]
	i := r.b.find(string(key))
	if i < 0 || r.b.ents[i].sub != nil {
		return nil
	}
	return r.b.ents[i].v
}

func verifBBucketPut(b *bolt.Bucket, key, value []byte) error {
	r := verifBBkts[b]
	if r.tx.done {
		return verifBErrTxClosed
	} else if !r.tx.writable {
		return verifBErrNotWritable
	} else if len(key) == 0 {
		return verifBErrKeyRequired
	}
	val := append([]byte{}, value...)
	if i := r.b.find(string(key)); i >= 0 {
		if r.b.ents[i].sub != nil {
			return verifBErrIncompatible
		}
		r.b.ents[i].v = val
		return nil
	}
	r.b.insert(verifBEnt{k: string(key), v: val})
	return nil
}

func verifBBucketDelete(b *bolt.Bucket, key []byte) error {
	r := verifBBkts[b]
	if r.tx.done {
		return verifBErrTxClosed
	} else if !r.tx.writable {
		return verifBErrNotWritable
	}
	i := r.b.find(string(key))
	if i < 0 {
		return nil
	} else if r.b.ents[i].sub != nil {
		return verifBErrIncompatible
	}
	r.b.remove(i)
	return nil
}

func verifBBucketForEach(b *bolt.Bucket, fn func(k, v []byte) error) error {
	r := verifBBkts[b]
	for i := 0; i < len(r.b.ents); i++ {
		e := r.b.ents[i]
		var val []byte
		if e.sub == nil {
			val = e.v
		}
		if err := fn([]byte(e.k), val); err != nil {
			return err
		}
	}
	return nil
}

// ---- Cursor ----

func (c *verifBCurState) at() ([]byte, []byte) {
	ents := verifBBkts[c.bkt].b.ents
	if c.pos < 0 || c.pos >= len(ents) {
		return nil, nil
	}
	e := ents[c.pos]
	if e.sub != nil {
		return []byte(e.k), nil
	}
	return []byte(e.k), e.v
}

func verifBCursorBucket(c *bolt.Cursor) *bolt.Bucket { return verifBCurs[c].bkt }

func verifBCursorFirst(c *bolt.Cursor) ([]byte, []byte) {
	s := verifBCurs[c]
	s.pos = 0
	return s.at()
}

func verifBCursorLast(c *bolt.Cursor) ([]byte, []byte) {
	s := verifBCurs[c]
	s.pos = len(verifBBkts[s.bkt].b.ents) - 1
	return s.at()
}

func verifBCursorNext(c *bolt.Cursor) ([]byte, []byte) {
	s := verifBCurs[c]
	if s.pos < len(verifBBkts[s.bkt].b.ents) {
		s.pos++
	}
	return s.at()
}

func verifBCursorPrev(c *bolt.Cursor) ([]byte, []byte) {
	s := verifBCurs[c]
	if s.pos >= 0 {
		s.pos--
	}
	return s.at()
}

func verifBCursorSeek(c *bolt.Cursor, seek []byte) ([]byte, []byte) {
	s := verifBCurs[c]
	s.pos = verifBBkts[s.bkt].b.seek(string(seek))
	return s.at()
}

func verifBCursorDelete(c *bolt.Cursor) error {
	s := verifBCurs[c]
	r := verifBBkts[s.bkt]
	if r.tx.done {
		return verifBErrTxClosed
	} else if !r.tx.writable {
		return verifBErrNotWritable
	}
	if s.pos < 0 || s.pos >= len(r.b.ents) {
		return nil
	}
	if r.b.ents[s.pos].sub != nil {
		return verifBErrIncompatible
	}
	r.b.remove(s.pos)
	return nil
}

// ---------------------------------------------------------------------------------
// Harness-owned access to the database that does not go through the wrapper under test:
// open / reopen / close, write a pre-state, dump everything. Native bodies use the real
// bbolt API on a file; under the engine the *Model twins (harness.json overrides) run.
// ---------------------------------------------------------------------------------

// verifRefEnt: one entry of the flat reference model / of a dump: bucket path dir ("" is
// the root, "n", "n/t"), key, value, or a nested bucket.
type verifRefEnt struct {
	dir, k string
	v      []byte
	bkt    bool
}

var verifBoltDir string

func verifC15BoltOpen() *bolt.DB {
	dir, err := os.MkdirTemp("", "verifc15bolt")
	if err != nil {
		panic(err)
	}
	verifBoltDir = dir
	db, err := bolt.Open(filepath.Join(dir, "db"), 0600, nil)
	if err != nil {
		panic(err)
	}
	return db
}

func verifC15BoltOpenModel() *bolt.DB {
	db := &bolt.DB{}
	verifBDBs[db] = &verifBDBState{root: &verifBBkt{}}
	return db
}

func verifC15BoltReopen(db *bolt.DB) *bolt.DB {
	path := db.Path()
	if err := db.Close(); err != nil {
		panic(err)
	}
	db, err := bolt.Open(path, 0600, nil)
	if err != nil {
		panic(err)
	}
	return db
}

func verifC15BoltReopenModel(db *bolt.DB) *bolt.DB {
	n := &bolt.DB{}
	verifBDBs[n] = &verifBDBState{root: verifBDBs[db].root.clone()}
	delete(verifBDBs, db)
	return n
}

func verifC15BoltClose(db *bolt.DB) {
	db.Close()
	os.RemoveAll(verifBoltDir)
}

func verifC15BoltCloseModel(db *bolt.DB) {}

func verifSplitDir(dir string) []string {
	var out []string
	start := 0
	for i := 0; i <= len(dir); i++ {
		if i == len(dir) || dir[i] == '/' {
			if i > start {
				out = append(out, dir[start:i])
			}
			start = i + 1
		}
	}
	return out
}

// verifC15BoltSeed writes the entries (parents before children) in one transaction.
func verifC15BoltSeed(db *bolt.DB, ents []verifRefEnt) {
	err := db.Update(func(tx *bolt.Tx) error {
		for _, e := range ents {
			path := verifSplitDir(e.dir)
			var b *bolt.Bucket
			for i, name := range path {
				if i == 0 {
					b = tx.Bucket([]byte(name))
				} else {
					b = b.Bucket([]byte(name))
				}
			}
			var err error
			switch {
			case e.bkt && b == nil:
				_, err = tx.CreateBucket([]byte(e.k))
			case e.bkt:
				_, err = b.CreateBucket([]byte(e.k))
			default:
				err = b.Put([]byte(e.k), e.v)
			}
			if err != nil {
				return err
			}
		}
		return nil
	})
	if err != nil {
		panic(err)
	}
}

func verifC15BoltSeedModel(db *bolt.DB, ents []verifRefEnt) {
	root := verifBDBs[db].root
	for _, e := range ents {
		b := root
		for _, name := range verifSplitDir(e.dir) {
			b = b.ents[b.find(name)].sub
		}
		if e.bkt {
			b.insert(verifBEnt{k: e.k, sub: &verifBBkt{}})
		} else {
			b.insert(verifBEnt{k: e.k, v: append([]byte{}, e.v...)})
		}
	}
}

// verifC15BoltDump lists the whole database: every bucket in key order, depth first.
func verifC15BoltDump(db *bolt.DB) []verifRefEnt {
	var out []verifRefEnt
	var walk func(dir string, b *bolt.Bucket) error
	walk = func(dir string, b *bolt.Bucket) error {
		return b.ForEach(func(k, v []byte) error {
			if v == nil {
				out = append(out, verifRefEnt{dir: dir, k: string(k), bkt: true})
				sub := string(k)
				if dir != "" {
					sub = dir + "/" + sub
				}
				return walk(sub, b.Bucket(k))
			}
			out = append(out, verifRefEnt{dir: dir, k: string(k), v: append([]byte{}, v...)})
			return nil
		})
	}
	err := db.View(func(tx *bolt.Tx) error {
		return tx.ForEach(func(name []byte, b *bolt.Bucket) error {
			out = append(out, verifRefEnt{dir: "", k: string(name), bkt: true})
			return walk(string(name), b)
		})
	})
	if err != nil {
		panic(err)
	}
	return out
}

func verifC15BoltDumpModel(db *bolt.DB) []verifRefEnt {
	var out []verifRefEnt
	var walk func(dir string, b *verifBBkt)
	walk = func(dir string, b *verifBBkt) {
		for _, e := range b.ents {
			if e.sub != nil {
				out = append(out, verifRefEnt{dir: dir, k: e.k, bkt: true})
				sub := e.k
				if dir != "" {
					sub = dir + "/" + sub
				}
				walk(sub, e.sub)
			} else {
				out = append(out, verifRefEnt{dir: dir, k: e.k, v: append([]byte{}, e.v...)})
			}
		}
	}
	walk("", verifBDBs[db].root)
	return out
}

// ---------------------------------------------------------------------------------
// Flat reference model of the storage contract over bucket paths.
// ---------------------------------------------------------------------------------

type verifRef struct{ ents []verifRefEnt }

func verifJoinDir(path []string) string {
	s := ""
	for i, p := range path {
		if i > 0 {
			s += "/"
		}
		s += p
	}
	return s
}

func (r *verifRef) clone() *verifRef {
	c := &verifRef{ents: make([]verifRefEnt, len(r.ents))}
	for i, e := range r.ents {
		c.ents[i] = verifRefEnt{dir: e.dir, k: e.k, v: append([]byte{}, e.v...), bkt: e.bkt}
	}
	return c
}

func (r *verifRef) find(dir, k string) int {
	for i := range r.ents {
		if r.ents[i].dir == dir && r.ents[i].k == k {
			return i
		}
	}
	return -1
}

// dirExists: every element of the path is a nested bucket.
func (r *verifRef) dirExists(path []string) bool {
	for i := range path {
		j := r.find(verifJoinDir(path[:i]), path[i])
		if j < 0 || !r.ents[j].bkt {
			return false
		}
	}
	return true
}

// put: creates the buckets of the path as needed. ok=false: rejected (a path element or the
// key collides with an entry of the other kind); the caller then discards the transaction.
func (r *verifRef) put(path []string, k string, val []byte) bool {
	for i := range path {
		dir := verifJoinDir(path[:i])
		j := r.find(dir, path[i])
		if j < 0 {
			r.ents = append(r.ents, verifRefEnt{dir: dir, k: path[i], bkt: true})
		} else if !r.ents[j].bkt {
			return false
		}
	}
	dir := verifJoinDir(path)
	if j := r.find(dir, k); j >= 0 {
		if r.ents[j].bkt {
			return false
		}
		r.ents[j].v = append([]byte{}, val...)
		return true
	}
	r.ents = append(r.ents, verifRefEnt{dir: dir, k: k, v: append([]byte{}, val...)})
	return true
}

func (r *verifRef) get(path []string, k string) ([]byte, bool) {
	if !r.dirExists(path) {
		return nil, false
	}
	j := r.find(verifJoinDir(path), k)
	if j < 0 || r.ents[j].bkt {
		return nil, false
	}
	return r.ents[j].v, true
}

// del: a missing key (or bucket path) is not an error; a nested bucket goes with all it holds.
func (r *verifRef) del(path []string, k string) {
	if !r.dirExists(path) {
		return
	}
	dir := verifJoinDir(path)
	j := r.find(dir, k)
	if j < 0 {
		return
	}
	wasBkt := r.ents[j].bkt
	sub := verifJoinDir(append(append([]string{}, path...), k))
	var keep []verifRefEnt
	for i, e := range r.ents {
		if i == j {
			continue
		}
		if wasBkt && (e.dir == sub || verifHasPrefix(e.dir, sub+"/")) {
			continue
		}
		keep = append(keep, e)
	}
	r.ents = keep
}

// list: entries of the bucket whose key has the prefix, in key order; buckets with an empty value.
func (r *verifRef) list(path []string, prefix string) []verifRefEnt {
	if !r.dirExists(path) {
		return nil
	}
	dir := verifJoinDir(path)
	var out []verifRefEnt
	for _, e := range r.ents {
		if e.dir == dir && verifHasPrefix(e.k, prefix) {
			out = append(out, e)
		}
	}
	for i := 1; i < len(out); i++ {
		for j := i; j > 0 && out[j].k < out[j-1].k; j-- {
			out[j], out[j-1] = out[j-1], out[j]
		}
	}
	return out
}

// same: the dump (any order of directories) holds exactly the model's entries.
func verifRefSameAsDump(v *vrt.T, r *verifRef, dump []verifRefEnt, label string) {
	v.Assert(len(dump) == len(r.ents), label+": number of entries in the database")
	for _, e := range r.ents {
		found := false
		for _, d := range dump {
			if d.dir == e.dir && d.k == e.k {
				found = d.bkt == e.bkt && (e.bkt || string(d.v) == string(e.v))
				break
			}
		}
		v.Assert(found, label+": every entry of the model is in the database with its value")
	}
}

// ---------------------------------------------------------------------------------

var verifBoltKLen = 2

var verifBoltPaths = [][]string{{"n"}, {"n", "t"}, {"n", "u"}, {}, {"m"}}

// verifBoltKey: a key of 1..klen (2) symbolic bytes over {a,b,t}: keys that are prefixes of each
// other (a/ab), keys around stored ones, and the name of the nested bucket "t".
func verifBoltKey(v *vrt.T, name string, minLen int) string {
	n := minLen + v.Choose(name+" len", verifBoltKLen+1-minLen)
	s := v.String(name, n)
	for i := 0; i < len(s); i++ {
		v.Assume(s[i] == 'a' || s[i] == 'b' || s[i] == 't')
	}
	return s
}

// VerifC15BoltWrapper: inductive step of the Bolt-backed store. Pre-state: an arbitrary
// database over namespace bucket "n" (keys a, ab, b with symbolic values; nested buckets
// "t" and "u" with keys of their own) and an unrelated namespace "m". One transaction of
// 1..txops operations through the real wrapper - directly (Store(path...).Put/Get/...),
// or inside Update/View navigating with tx.Bucket - that commits or is abandoned by an
// error from the callback. Afterwards (and after reopening the database) the database
// holds exactly the reference model's entries and every read returned the model's answer.
func VerifC15BoltWrapper(v *vrt.T) {
	nkeys := v.Bound("nkeys", 2)
	tkeys := v.Bound("tkeys", 1)
	withU := v.Bound("u", 0) == 1
	withM := v.Bound("m", 0) == 1
	txops := v.Bound("txops", 1)
	verifBoltKLen = v.Bound("klen", 2)

	// arbitrary pre-state
	ref := &verifRef{}
	if v.Choose("n exists", 2) == 1 {
		ref.ents = append(ref.ents, verifRefEnt{dir: "", k: "n", bkt: true})
		for _, k := range []string{"a", "ab", "b"}[:nkeys] {
			if v.Choose("n/"+k, 2) == 1 {
				ref.ents = append(ref.ents, verifRefEnt{dir: "n", k: k, v: []byte{v.Byte("val")}})
			}
		}
		if v.Choose("n/t exists", 2) == 1 {
			ref.ents = append(ref.ents, verifRefEnt{dir: "n", k: "t", bkt: true})
			for _, k := range []string{"a", "b"}[:tkeys] {
				if v.Choose("n/t/"+k, 2) == 1 {
					ref.ents = append(ref.ents, verifRefEnt{dir: "n/t", k: k, v: []byte{v.Byte("val")}})
				}
			}
		}
		if withU && v.Choose("n/u exists", 2) == 1 {
			ref.ents = append(ref.ents, verifRefEnt{dir: "n", k: "u", bkt: true})
			if v.Choose("n/u/a", 2) == 1 {
				ref.ents = append(ref.ents, verifRefEnt{dir: "n/u", k: "a", v: []byte{v.Byte("val")}})
			}
		}
	}
	if withM && v.Choose("m exists", 2) == 1 {
		ref.ents = append(ref.ents, verifRefEnt{dir: "", k: "m", bkt: true}, verifRefEnt{dir: "m", k: "a", v: []byte{v.Byte("val")}})
	}
	db := verifC15BoltOpen()
	defer func() { verifC15BoltClose(db) }()
	verifC15BoltSeed(db, ref.ents)
	root := NewBolt(db)

	npaths := 4
	if withM {
		npaths = 5
	}
	direct := v.Choose("direct", 2) == 1
	nops := 1
	if !direct {
		nops = 1 + v.Choose("ops in tx", txops)
	}
	how := 0 // the callback returns nil / returns an error / panics after its operations
	if !direct {
		how = v.Choose("callback fails after its operations", 3)
	}
	abandon := how > 0
	errAbandon := errors.New("abandon")

	work := ref.clone() // the transaction's view
	rejected := false
	type readT struct {
		kind   int
		err    error
		kv     *KeyValue
		exists bool
		kvs    []*KeyValue
		wantV  []byte
		wantOK bool
		wantL  []verifRefEnt
	}
	var reads []readT

	// one operation against a Tx-like target; the wrapper's answer is recorded next to the model's
	readOnly := false
	doOp := func(put func(string, []byte) error, del func(string) error, get func(string) (*KeyValue, error), exists func(string) (bool, error), list func(string) ([]*KeyValue, error), path []string) error {
		var op int
		if readOnly {
			op = 2 + v.Choose("read op", 3)
		} else if op = v.Choose("op", 5); len(path) == 0 && op == 0 {
			op = 1 // a store without a bucket path cannot hold plain keys (documented: root bucket)
		}
		switch op {
		case 0:
			k := verifBoltKey(v, "key", 1)
			val := []byte{v.Byte("newval")}
			err := put(k, val)
			ok := work.put(path, k, val)
			v.Assert((err == nil) == ok, "put succeeds unless the key or a bucket of the path collides with an entry of the other kind")
			if !ok {
				rejected = true
			}
			return err
		case 1:
			k := verifBoltKey(v, "key", 1)
			err := del(k)
			work.del(path, k)
			v.Assert(err == nil, "delete of a present or absent key or bucket succeeds")
			return err
		case 2:
			k := verifBoltKey(v, "key", 1)
			kv, err := get(k)
			wv, wok := work.get(path, k)
			reads = append(reads, readT{kind: 2, err: err, kv: kv, wantV: append([]byte{}, wv...), wantOK: wok})
			if kv != nil {
				v.Assert(kv.Key == k, "get returns the key asked for")
			}
			return nil
		case 3:
			k := verifBoltKey(v, "key", 1)
			ex, err := exists(k)
			_, wok := work.get(path, k)
			reads = append(reads, readT{kind: 3, err: err, exists: ex, wantOK: wok})
			return nil
		default:
			p := verifBoltKey(v, "prefix", 0)
			kvs, err := list(p)
			reads = append(reads, readT{kind: 4, err: err, kvs: kvs, wantL: work.list(path, p)})
			return nil
		}
	}

	var err error
	if direct {
		path := verifBoltPaths[v.Choose("path", npaths)]
		var bs [][]byte
		for _, p := range path {
			bs = append(bs, []byte(p))
		}
		s := root.Store(bs...)
		err = doOp(s.(*Bolt).Put, s.(*Bolt).Delete, s.(*Bolt).Get, s.(*Bolt).Exists, s.(*Bolt).List, path)
	} else {
		// namespace store as the services hold it, sub-buckets reached with tx.Bucket
		nns := 2
		if withM {
			nns = 3
		}
		ns := v.Choose("namespace", nns)
		var s Interface
		var base []string
		switch ns {
		case 0:
			s, base = root.Store([]byte("n")), []string{"n"}
		case 1:
			s, base = root.Store(), []string{}
		default:
			s, base = root.Store([]byte("m")), []string{"m"}
		}
		writes := v.Choose("read-write transaction", 2) == 1
		readOnly = !writes
		body := func(bucket func(name []byte) (func(string, []byte) error, func(string) error, func(string) (*KeyValue, error), func(string) (bool, error), func(string) ([]*KeyValue, error))) error {
			for i := 0; i < nops; i++ {
				path := base
				var name []byte
				if sub := v.Choose("sub-bucket", 3); sub > 0 && len(base) > 0 {
					name = []byte([]string{"t", "u"}[sub-1])
					path = append(append([]string{}, base...), string(name))
				} else if sub > 0 {
					name = []byte("n") // from the root store into the namespace
					path = []string{"n"}
				}
				put, del, get, exists, list := bucket(name)
				if e := doOp(put, del, get, exists, list, path); e != nil {
					return e
				}
			}
			if how == 2 {
				panic(errAbandon)
			}
			if abandon {
				return errAbandon
			}
			return nil
		}
		// a panicking callback (recovered by the caller, as net/http does for a handler) is an abandoned transaction
		defer func() {
			if r := recover(); r != nil {
				if how != 2 || r != interface{}(errAbandon) {
					panic(r) // not the callback's own panic
				}
				verifRefSameAsDump(v, ref, verifC15BoltDump(db), "after a panic in the callback")
				db = verifC15BoltReopen(db)
				verifRefSameAsDump(v, ref, verifC15BoltDump(db), "after a panic in the callback and reopening")
				v.Reach("end")
			}
		}()
		if writes {
			err = s.Update(func(tx Tx) error {
				return body(func(name []byte) (func(string, []byte) error, func(string) error, func(string) (*KeyValue, error), func(string) (bool, error), func(string) ([]*KeyValue, error)) {
					t := tx
					if name != nil {
						t = tx.Bucket(name)
					}
					return t.Put, t.Delete, t.Get, t.Exists, t.List
				})
			})
		} else {
			err = s.View(func(tx ReadOnlyTx) error {
				return body(func(name []byte) (func(string, []byte) error, func(string) error, func(string) (*KeyValue, error), func(string) (bool, error), func(string) ([]*KeyValue, error)) {
					t := tx
					if name != nil {
						t = tx.Bucket(name)
					}
					ro := func(string, []byte) error { return nil }
					rod := func(string) error { return nil }
					return ro, rod, t.Get, t.Exists, t.List
				})
			})
		}
	}

	// every read answered from the transaction's own view
	for _, r := range reads {
		switch r.kind {
		case 2:
			if r.wantOK {
				v.Assert(r.err == nil && r.kv != nil && string(r.kv.Value) == string(r.wantV), "get returns the last value stored under the key in this bucket")
			} else {
				v.Assert(r.err == ErrNoKeyExists && r.kv == nil, "get of a key that is absent (or names a bucket) reports ErrNoKeyExists")
			}
		case 3:
			v.Assert(r.err == nil && r.exists == r.wantOK, "exists agrees with get")
		case 4:
			v.Assert(r.err == nil && len(r.kvs) == len(r.wantL), "list returns exactly the entries of the bucket with the prefix")
			if len(r.kvs) == len(r.wantL) {
				for i := range r.kvs {
					v.Assert(r.kvs[i].Key == r.wantL[i].k, "list is in key order")
					v.Assert(string(r.kvs[i].Value) == string(r.wantL[i].v), "list carries the stored values (empty for a nested bucket)")
				}
			}
		}
	}

	committed := !rejected && !abandon
	if abandon && !rejected {
		v.Assert(err == errAbandon, "the callback's error is returned")
	}
	if committed {
		v.Assert(err == nil, "a transaction whose operations all succeed commits")
		ref = work
	} else {
		v.Assert(err != nil, "a rejected or abandoned transaction reports an error")
	}
	v.Observe("outcome", committed, len(ref.ents))
	verifRefSameAsDump(v, ref, verifC15BoltDump(db), "after the transaction")
	db = verifC15BoltReopen(db)
	verifRefSameAsDump(v, ref, verifC15BoltDump(db), "after reopening")
	v.Reach("end")
}
