package storage

import (
	vrt "github.com/influxdata/kapacitor/zz_vrt"
)

// The small world of H1/H2: IDs (in byte order), some of them prefixes of each other, and
// secondary index values 'x', 'y' (, 'z'). The tiers use the first 3 (quick) or 4 IDs.
var verifAllIDs = []string{"a", "ab", "b", "ba"}
var verifIDs = verifAllIDs[:3]
var verifSecs = 2

func verifWorld(v *vrt.T) {
	verifIDs = verifAllIDs[:v.Bound("ids", 3)]
	verifSecs = v.Bound("secs", 2)
}

// verifModel is the abstract store: which IDs are present and their last stored value.
type verifModel struct {
	has [4]bool
	sec [4]byte
	pay [4]byte
}

// verifLayout writes the documented key layout of the model (indexed.go, comment of
// indexKey): /<prefix>/data/<id> -> encoded object, /<prefix>/indexes/<index>/<value> -> id,
// where the value of a non-unique index is <value>/<id>.
func verifLayout(md *verifModel) []verifKV {
	var kvs []verifKV
	for i, id := range verifIDs {
		if !md.has[i] {
			continue
		}
		kvs = verifInsert(kvs, "/p/data/"+id, verifEncode(id, md.sec[i], md.pay[i]))
		kvs = verifInsert(kvs, "/p/indexes/id/"+id, []byte(id))
		kvs = verifInsert(kvs, "/p/indexes/sec/"+string([]byte{md.sec[i]})+"/"+id, []byte(id))
	}
	return kvs
}

// verifArbitraryModel: presence by enumeration, index value symbolic in {x,y}, payload an
// arbitrary byte.
func verifArbitraryModel(v *vrt.T) *verifModel {
	md := &verifModel{}
	for i := range verifIDs {
		if v.Choose("present", 2) == 1 {
			md.has[i] = true
			md.sec[i] = 'x' + byte(v.IntRange("sec", 0, verifSecs-1))
			md.pay[i] = v.Byte("pay")
		}
	}
	return md
}

func verifAssertSame(v *vrt.T, got, want []verifKV) {
	v.Assert(len(got) == len(want), "store holds exactly the expected number of keys")
	if len(got) != len(want) {
		return
	}
	for i := range want {
		v.Assert(got[i].k == want[i].k, "store keys are exactly the expected keys")
		v.Assert(len(got[i].v) == len(want[i].v) && string(got[i].v) == string(want[i].v), "store values are exactly the expected values")
	}
}

// verifOrder returns the positions (into verifIDs) of the stored objects in the order of
// the given index: "id" = byte order of the ID, "sec" = by index value, ties by ID.
func verifOrder(md *verifModel, index string) []int {
	var out []int
	for i := range verifIDs { // verifIDs is in byte order
		if md.has[i] {
			out = append(out, i)
		}
	}
	if index == verifSecIndex {
		// stable insertion sort by sec
		for i := 1; i < len(out); i++ {
			for j := i; j > 0 && md.sec[out[j]] < md.sec[out[j-1]]; j-- {
				out[j], out[j-1] = out[j-1], out[j]
			}
		}
	}
	return out
}

func verifAssertObjects(v *vrt.T, md *verifModel, got []BinaryObject, want []int, label string) {
	v.Assert(len(got) == len(want), label+": number of objects")
	if len(got) != len(want) {
		return
	}
	for k, i := range want {
		o := got[k].(*verifObj)
		v.Assert(o.id == verifIDs[i] && o.sec == md.sec[i] && o.pay == md.pay[i], label+": object and value")
	}
}

// VerifC15Step: inductive step. Pre-state = the layout of an arbitrary model (this IS the
// invariant: data entries and index entries in bijection, nothing else under the prefix).
// One operation with a symbolic object and a symbolic fault position.
func VerifC15Step(v *vrt.T) {
	verifWorld(v)
	md := verifArbitraryModel(v)
	mem := &verifMem{kvs: verifLayout(md)}
	s := verifNewStore(mem)
	before := verifCloneKVs(mem.kvs)

	op := v.Choose("op", 5)
	k := v.Choose("id", len(verifIDs))
	o := &verifObj{id: verifIDs[k], sec: 'x' + byte(v.IntRange("newsec", 0, verifSecs-1)), pay: v.Byte("newpay")}
	mem.arm(v.IntRange("failAt", 0, v.Bound("maxfail", 13)), v.Bool("failCommit"))

	want := *md
	rejected := false
	var err error
	switch op {
	case 0:
		err = s.Create(o)
		rejected = md.has[k]
		if rejected && !mem.fired {
			v.Assert(err == ErrObjectExists, "create of an existing ID is rejected with ErrObjectExists")
		}
		want.has[k], want.sec[k], want.pay[k] = true, o.sec, o.pay
	case 1:
		err = s.Put(o)
		want.has[k], want.sec[k], want.pay[k] = true, o.sec, o.pay
	case 2:
		err = s.Replace(o)
		rejected = !md.has[k]
		if rejected && !mem.fired {
			v.Assert(err == ErrNoObjectExists, "replace of a missing ID is rejected with ErrNoObjectExists")
		}
		want.has[k], want.sec[k], want.pay[k] = true, o.sec, o.pay
	case 3:
		err = s.Delete(verifIDs[k])
		want.has[k], want.sec[k], want.pay[k] = false, 0, 0
	case 4:
		err = s.Rebuild()
	}
	v.Assert(mem.openTx == 0, "every transaction is finished")
	if !mem.fired {
		v.Assert((err != nil) == rejected, "without a storage failure an operation fails iff it is rejected")
	}
	if err != nil {
		want = *md
		verifAssertSame(v, mem.kvs, before)
	} else {
		verifAssertSame(v, mem.kvs, verifLayout(&want))
	}

	// API view of the resulting store (no faults any more)
	mem.arm(0, false)
	for i, id := range verifIDs {
		g, gerr := s.Get(id)
		if want.has[i] {
			v.Assert(gerr == nil, "get of a stored ID succeeds")
			if gerr == nil {
				x := g.(*verifObj)
				v.Assert(x.id == id && x.sec == want.sec[i] && x.pay == want.pay[i], "get returns the last value stored")
			}
		} else {
			v.Assert(gerr == ErrNoObjectExists, "get of an absent ID reports ErrNoObjectExists")
		}
	}
	l1, e1 := s.List(DefaultIDIndex, "", 0, 100)
	v.Assert(e1 == nil, "list by id succeeds")
	verifAssertObjects(v, &want, l1, verifOrder(&want, DefaultIDIndex), "id index")
	l2, e2 := s.List(verifSecIndex, "", 0, 100)
	v.Assert(e2 == nil, "list by sec succeeds")
	verifAssertObjects(v, &want, l2, verifOrder(&want, verifSecIndex), "sec index")

	v.Observe("result", err == nil, mem.fired, len(mem.kvs), len(l1), len(l2))
	v.Reach("end")
}
