package storage

import (
	"errors"

	bolt "go.etcd.io/bbolt"
)

// ---------------------------------------------------------------------------------
// In-harness storage backend: an ordered in-memory key/value map implementing the
// package's own Interface / TxOperator / Tx / ReadOnlyTx contracts (storage.go):
//   * keys kept in byte order, List(prefix) returns the keys with that prefix in key order
//     (what a Bolt cursor Seek/Next does),
//   * Get of a missing key gives ErrNoKeyExists, Delete of a missing key is not an error,
//   * a transaction works on a private copy; only Commit publishes it; Rollback after
//     Commit has no effect,
//   * fault injection: the failAt-th write (Put/Delete, counted from 1) of a read-write
//     transaction fails, or the Commit fails.
// View/Update go through the REAL DoView/DoUpdate wrappers.
// Bolt itself (files, nested buckets, reopen) is outside the claim.
// ---------------------------------------------------------------------------------

var (
	verifErrInjected = errors.New("verif: injected write failure")
	verifErrCommit   = errors.New("verif: injected commit failure")
	verifErrReadOnly = errors.New("verif: write in read-only transaction")
	verifErrDone     = errors.New("verif: transaction already finished")
	verifErrDecode   = errors.New("verif: short object encoding")
)

type verifKV struct {
	k string
	v []byte
}

type verifMem struct {
	kvs        []verifKV // committed contents, sorted by key
	failAt     int       // 1-based index of the write that fails; 0 = none
	failCommit bool
	writes     int  // writes attempted by read-write transactions since the last arm()
	fired      bool // an injected failure was delivered
	openTx     int  // transactions begun and not yet finished
}

func verifCloneKVs(in []verifKV) []verifKV {
	out := make([]verifKV, len(in))
	for i := range in {
		out[i] = verifKV{k: in[i].k, v: append([]byte(nil), in[i].v...)}
	}
	return out
}

func (m *verifMem) View(f func(ReadOnlyTx) error) error { return DoView(m, f) }
func (m *verifMem) Update(f func(Tx) error) error       { return DoUpdate(m, f) }
func (m *verifMem) Store(buckets ...[]byte) Interface   { return m }

func (m *verifMem) BeginReadOnlyTx() (ReadOnlyTx, error) {
	m.openTx++
	return &verifROTx{verifTx{m: m, kvs: verifCloneKVs(m.kvs)}}, nil
}

func (m *verifMem) BeginTx() (Tx, error) {
	m.openTx++
	return &verifTx{m: m, kvs: verifCloneKVs(m.kvs), writable: true}, nil
}

// arm resets the fault plan.
func (m *verifMem) arm(failAt int, failCommit bool) {
	m.failAt, m.failCommit, m.writes, m.fired = failAt, failCommit, 0, false
}

// set stores key=value directly in the committed state (used to build pre-states).
func (m *verifMem) set(key string, value []byte) {
	m.kvs = verifInsert(m.kvs, key, value)
}

func verifFind(kvs []verifKV, key string) int {
	for i := range kvs {
		if kvs[i].k == key {
			return i
		}
	}
	return -1
}

func verifInsert(kvs []verifKV, key string, value []byte) []verifKV {
	val := append([]byte(nil), value...)
	if i := verifFind(kvs, key); i >= 0 {
		kvs[i].v = val
		return kvs
	}
	pos := len(kvs)
	for i := range kvs {
		if key < kvs[i].k {
			pos = i
			break
		}
	}
	kvs = append(kvs, verifKV{})
	copy(kvs[pos+1:], kvs[pos:])
	kvs[pos] = verifKV{k: key, v: val}
	return kvs
}

type verifTx struct {
	m        *verifMem
	kvs      []verifKV
	writable bool
	done     bool
}

type verifROTx struct{ verifTx }

func (t *verifROTx) Bucket(name []byte) ReadOnlyTx { return t }

func (t *verifTx) Cursor() *bolt.Cursor  { return nil }
func (t *verifTx) Bucket(name []byte) Tx { return t }

func (t *verifTx) Get(key string) (*KeyValue, error) {
	i := verifFind(t.kvs, key)
	if i < 0 {
		return nil, ErrNoKeyExists
	}
	return &KeyValue{Key: key, Value: append([]byte(nil), t.kvs[i].v...)}, nil
}

func (t *verifTx) Exists(key string) (bool, error) {
	return verifFind(t.kvs, key) >= 0, nil
}

func verifHasPrefix(s, prefix string) bool {
	return len(s) >= len(prefix) && s[:len(prefix)] == prefix
}

func (t *verifTx) List(prefix string) ([]*KeyValue, error) {
	var out []*KeyValue
	for i := range t.kvs {
		if verifHasPrefix(t.kvs[i].k, prefix) {
			out = append(out, &KeyValue{Key: t.kvs[i].k, Value: append([]byte(nil), t.kvs[i].v...)})
		}
	}
	return out, nil
}

func (t *verifTx) write() error {
	if !t.writable {
		return verifErrReadOnly
	}
	if t.done {
		return verifErrDone
	}
	t.m.writes++
	if t.m.writes == t.m.failAt {
		t.m.fired = true
		return verifErrInjected
	}
	return nil
}

func (t *verifTx) Put(key string, value []byte) error {
	if err := t.write(); err != nil {
		return err
	}
	t.kvs = verifInsert(t.kvs, key, value)
	return nil
}

func (t *verifTx) Delete(key string) error {
	if err := t.write(); err != nil {
		return err
	}
	if i := verifFind(t.kvs, key); i >= 0 {
		t.kvs = append(t.kvs[:i], t.kvs[i+1:]...)
	}
	return nil
}

func (t *verifTx) Commit() error {
	if t.done {
		return verifErrDone
	}
	t.done = true
	t.m.openTx--
	if t.m.failCommit {
		t.m.fired = true
		return verifErrCommit
	}
	t.m.kvs = t.kvs
	return nil
}

func (t *verifTx) Rollback() error {
	if !t.done {
		t.done = true
		t.m.openTx--
	}
	return nil
}

// ---------------------------------------------------------------------------------
// Object type: (id, secondary index value, payload byte) with a trivial byte encoding.
// ---------------------------------------------------------------------------------

type verifObj struct {
	id  string
	sec byte
	pay byte
}

func (o *verifObj) ObjectID() string { return o.id }

func (o *verifObj) MarshalBinary() ([]byte, error) {
	return verifEncode(o.id, o.sec, o.pay), nil
}

func (o *verifObj) UnmarshalBinary(b []byte) error {
	if len(b) < 2 {
		return verifErrDecode
	}
	o.sec, o.pay, o.id = b[0], b[1], string(b[2:])
	return nil
}

func verifEncode(id string, sec, pay byte) []byte {
	return append([]byte{sec, pay}, id...)
}

const verifSecIndex = "sec"

// verifNewStore: an IndexedStore with prefix "p", the default unique ID index and a
// non-unique secondary index "sec" whose value is the object's one-byte sec field.
func verifNewStore(mem *verifMem) *IndexedStore {
	c := DefaultIndexedStoreConfig("p", func() BinaryObject { return new(verifObj) })
	c.Indexes = append(c.Indexes, Index{
		Name: verifSecIndex,
		ValueFunc: func(o BinaryObject) (string, error) {
			return string([]byte{o.(*verifObj).sec}), nil
		},
	})
	s, err := NewIndexedStore(mem, c)
	if err != nil {
		panic(err)
	}
	return s
}
