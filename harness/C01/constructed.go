package kapacitor

import (
	html "html/template"
	text "text/template"
	"time"

	"github.com/influxdata/kapacitor/alert"
	"github.com/influxdata/kapacitor/edge"
	"github.com/influxdata/kapacitor/expvar"
	"github.com/influxdata/kapacitor/models"
	"github.com/influxdata/kapacitor/pipeline"
	"github.com/influxdata/kapacitor/tick/ast"
	vrt "github.com/influxdata/kapacitor/zz_vrt"
)

// Engine-side replacements for the template constructors newAlertNode calls (text/template
// and html/template are reflection driven and not interpreted; rendering is replaced by
// verifC01RenderID / verifC01RenderMessageAndDetails as in the other C01 harnesses). The
// native replays run the real ones.
func verifC01TextNew(name string) *text.Template                           { return nil }
func verifC01TextParse(t *text.Template, s string) (*text.Template, error) { return t, nil }
func verifC01HtmlNew(name string) *html.Template                           { return nil }
func verifC01HtmlFuncs(t *html.Template, m html.FuncMap) *html.Template    { return t }
func verifC01HtmlParse(t *html.Template, s string) (*html.Template, error) { return t, nil }

// VerifC01Constructed: the node as the REAL newAlertNode builds it from a pipeline alert
// node with the documented reset example, for the history settings a script can give
// (.history(n), n = 0, 1, 2, 3 or the default 21; "Minimum value is 2": smaller ones are
// raised), flapping off: levels, events, times and durations of k points with symbolic
// values equal the reference.
func VerifC01Constructed(v *vrt.T) {
	pn := pipeline.VerifNewAlertNode(pipeline.StreamEdge)
	lam := func(s string) *ast.LambdaNode {
		ln, err := ast.ParseLambda(s)
		v.Assert(err == nil, "lambda parses")
		return ln
	}
	// the reset conditions may read another field than the level conditions
	// (.warn(lambda: "value" > 70).warnReset(lambda: "queue" < 60))
	otherField := v.Choose("reset conditions read another field", 2) == 1
	rl := func(l int) *ast.LambdaNode {
		if otherField {
			return lam([]string{"", `"queue" < 50`, `"queue" < 60`, `"queue" < 70`}[l])
		}
		return lam(verifC01DocLambdas[l][1])
	}
	pn.Info, pn.InfoReset = lam(verifC01DocLambdas[1][0]), rl(1)
	pn.Warn, pn.WarnReset = lam(verifC01DocLambdas[2][0]), rl(2)
	pn.Crit, pn.CritReset = lam(verifC01DocLambdas[3][0]), rl(3)
	if h := v.Choose("history", 5); h < 4 {
		pn.History = int64(h)
	}
	pn.Topic = verifC01Topic
	cfg := verifC01Cfg{anon: false, topic: true, history: pn.History}
	for l := alert.Info; l <= alert.Critical; l++ {
		cfg.level[l], cfg.reset[l] = true, true
	}
	if v.Choose("stateChangesOnly", 2) == 1 {
		cfg.sco = true
		cfg.ival = time.Duration(v.IntRange("interval", 0, 48))
		pn.IsStateChangesOnly, pn.StateChangesOnlyDuration = true, cfg.ival
	}
	cfg.noRec = v.Bool("noRecoveries")
	pn.NoRecoveriesFlag = cfg.noRec

	svc := &verifC01AlertSvc{}
	diag := &verifNopDiag{}
	tm := &TaskMaster{AlertService: svc, ServerInfo: verifC01Info{}}
	et := &ExecutingTask{tm: tm, Task: &Task{ID: "task"}}
	an, err := newAlertNode(et, pn, diag)
	v.Assert(err == nil && an != nil, "the alert node is created")
	if err != nil || an == nil {
		return
	}
	verifC01SetTemplates(an) // constant id/message/details, as in the other C01 harnesses
	// the statistics variables are registered by runAlert
	an.alertsTriggered, an.alertsInhibited, an.oksTriggered = &expvar.Int{}, &expvar.Int{}, &expvar.Int{}
	an.infosTriggered, an.warnsTriggered, an.critsTriggered, an.eventsDropped = &expvar.Int{}, &expvar.Int{}, &expvar.Int{}, &expvar.Int{}
	dims, tags := verifC01Group()
	state := an.newAlertState(tags)
	ref := &verifC01Ref{cfg: cfg}

	k := v.Bound("points", 3)
	t := v.Time("t0", verifT2020-32, verifT2020+32).UnixNano()
	for i := 0; i < k; i++ {
		if i > 0 {
			t += int64(v.IntRange("dt", 0, 40))
		}
		x := int64(v.IntRange("ivalue", 40, 90))
		y := x
		fields := models.Fields{"value": x}
		if otherField {
			y = int64(v.IntRange("queue", 40, 90))
			fields["queue"] = y
		}
		cond := [4]bool{false, x > 60, x > 70, x > 80}
		reset := [4]bool{false, y < 50, y < 60, y < 70}
		p := edge.NewPointMessage("m", "db", "rp", dims, fields, tags, time.Unix(0, t).UTC())
		before := len(svc.events)
		msg, err := state.Point(p)
		v.Assert(err == nil, "no error")
		wantLevel := ref.newLevel(cond, reset)
		v.Assert(state.currentLevel() == wantLevel, "level of the point is the documented one")
		emit, dur := ref.step(wantLevel, t)
		v.Observe("step", msg != nil, int(state.currentLevel()), len(svc.events)-before)
		verifC01CheckEvents(v, cfg, svc, before, emit, wantLevel, t, dur)
		v.Assert((msg != nil) == emit, "point forwarded downstream iff an event was sent")
	}
	v.Assert(diag.errors == 0, "no evaluation errors logged")
	v.Reach("end")
}
