package kapacitor

import (
	"bytes"
	"errors"
	html "html/template"
	"sync"
	text "text/template"
	"time"

	"github.com/influxdata/kapacitor/alert"
	"github.com/influxdata/kapacitor/edge"
	"github.com/influxdata/kapacitor/expvar"
	"github.com/influxdata/kapacitor/models"
	"github.com/influxdata/kapacitor/pipeline"
	"github.com/influxdata/kapacitor/tick/ast"
	"github.com/influxdata/kapacitor/tick/stateful"
	"github.com/influxdata/kapacitor/uuid"
	vrt "github.com/influxdata/kapacitor/zz_vrt"
)

// ---------------------------------------------------------------------------------
// Stubs of Kapacitor's own interfaces
// ---------------------------------------------------------------------------------

// verifC01Expr is a stateful.Expression standing for the lambda `"<name>"`: a reference
// to the boolean field <name> of the point. The real EvalPredicate/fillScope/ScopePool
// run; only the (reflection-free but large) expression compiler is replaced.
type verifC01Expr struct{ name string }

func (e *verifC01Expr) Reset() {}
func (e *verifC01Expr) Type(scope stateful.ReadOnlyScope) (ast.ValueType, error) {
	return ast.TBool, nil
}
func (e *verifC01Expr) EvalBool(scope *stateful.Scope) (bool, error) {
	x, err := scope.Get(e.name)
	if err != nil {
		return false, err
	}
	b, ok := x.(bool)
	if !ok {
		return false, errors.New("verif: field is missing or not a bool")
	}
	return b, nil
}
func (e *verifC01Expr) EvalFloat(scope *stateful.Scope) (float64, error) {
	return 0, errors.New("verif: not a float")
}
func (e *verifC01Expr) EvalInt(scope *stateful.Scope) (int64, error) {
	return 0, errors.New("verif: not an int")
}
func (e *verifC01Expr) EvalString(scope *stateful.Scope) (string, error) {
	return "", errors.New("verif: not a string")
}
func (e *verifC01Expr) EvalDuration(scope *stateful.Scope) (time.Duration, error) {
	return 0, errors.New("verif: not a duration")
}
func (e *verifC01Expr) Eval(scope *stateful.Scope) (interface{}, error) { return e.EvalBool(scope) }
func (e *verifC01Expr) CopyReset() stateful.Expression                  { return &verifC01Expr{name: e.name} }

// verifC01AlertSvc is the TaskMaster.AlertService seen by the alert node: it records
// the events handed over for the handlers of the node's topics.
type verifC01AlertSvc struct {
	events []alert.Event
}

func (s *verifC01AlertSvc) Collect(event alert.Event) error {
	s.events = append(s.events, event)
	return nil
}
func (s *verifC01AlertSvc) UpdateEvent(topic string, event alert.EventState) error { return nil }
func (s *verifC01AlertSvc) EventState(topic, event string) (alert.EventState, bool, error) {
	return alert.EventState{}, false, nil
}
func (s *verifC01AlertSvc) RegisterAnonHandler(topic string, h alert.Handler)   {}
func (s *verifC01AlertSvc) DeregisterAnonHandler(topic string, h alert.Handler) {}
func (s *verifC01AlertSvc) CloseTopic(topic string) error                       { return nil }
func (s *verifC01AlertSvc) DeleteTopic(topic string) error                      { return nil }
func (s *verifC01AlertSvc) RestoreTopic(topic string) error                     { return nil }
func (s *verifC01AlertSvc) IsInhibited(name string, tags models.Tags) bool      { return false }
func (s *verifC01AlertSvc) AddInhibitor(*alert.Inhibitor)                       {}
func (s *verifC01AlertSvc) RemoveInhibitor(*alert.Inhibitor)                    {}

// verifC01Handler only makes the node own an anonymous topic (hasAnonTopic).
type verifC01Handler struct{}

func (verifC01Handler) Handle(event alert.Event) {}

// verifC01Info is the vars.Infoer needed by the real ID/message templates (native replay only).
type verifC01Info struct{}

func (verifC01Info) ClusterID() uuid.UUID     { return uuid.Nil }
func (verifC01Info) ServerID() uuid.UUID      { return uuid.Nil }
func (verifC01Info) Hostname() string         { return "h" }
func (verifC01Info) Version() string          { return "v" }
func (verifC01Info) Product() string          { return "p" }
func (verifC01Info) Platform() string         { return "l" }
func (verifC01Info) NumTasks() int64          { return 0 }
func (verifC01Info) NumEnabledTasks() int64   { return 0 }
func (verifC01Info) NumSubscriptions() int64  { return 0 }
func (verifC01Info) Uptime() time.Duration    { return 0 }

// ---------------------------------------------------------------------------------
// Templates: text/template is not encodable. Natively the real templates (constant
// texts) are parsed and executed; under the engine the three functions below are
// replaced through "overrides" in harness.json by the constant functions next to them.
// ---------------------------------------------------------------------------------

const (
	verifC01ID      = "alert-id"
	verifC01Message = "msg"
	verifC01Details = "det"
)

func verifC01SetTemplates(n *AlertNode) {
	n.idTmpl = text.Must(text.New("id").Parse(verifC01ID))
	n.messageTmpl = text.Must(text.New("message").Parse(verifC01Message))
	n.detailsTmpl = html.Must(html.New("details").Parse(verifC01Details))
	n.bufPool = sync.Pool{New: func() interface{} { return new(bytes.Buffer) }}
}
func verifC01SetTemplatesNop(n *AlertNode) {}

func verifC01RenderID(n *AlertNode, name string, group models.GroupID, tags models.Tags) (string, error) {
	return verifC01ID, nil
}
func verifC01RenderMessageAndDetails(n *AlertNode, id, name string, t time.Time, group models.GroupID, tags models.Tags, fields models.Fields, level alert.Level, d time.Duration) (string, string, error) {
	return verifC01Message, verifC01Details, nil
}

// ---------------------------------------------------------------------------------
// Node construction
// ---------------------------------------------------------------------------------

// verifC01Cfg is the part of the alert node configuration that the property ranges over.
type verifC01Cfg struct {
	level [4]bool // level[l]: a condition is configured for level l (1..3)
	reset [4]bool // reset[l]: a reset condition is configured for level l
	sco   bool    // stateChangesOnly
	ival  time.Duration
	noRec bool
	all   bool
}

var verifC01LevelNames = [4]string{"", "info", "warn", "crit"}
var verifC01ResetNames = [4]string{"", "infoReset", "warnReset", "critReset"}

// verifC01Node builds the AlertNode exactly as newAlertNode leaves it (levels/levelResets
// indexed by level with their scope pools, history >= 2), without services and handlers.
func verifC01Node(cfg verifC01Cfg, svc *verifC01AlertSvc, diag *verifNopDiag) *AlertNode {
	pn := &pipeline.AlertNode{AlertNodeData: &pipeline.AlertNodeData{
		History:                  2,
		NoRecoveriesFlag:         cfg.noRec,
		IsStateChangesOnly:       cfg.sco,
		StateChangesOnlyDuration: cfg.ival,
		AllFlag:                  cfg.all,
	}}
	tm := &TaskMaster{AlertService: svc, ServerInfo: verifC01Info{}}
	et := &ExecutingTask{tm: tm, Task: &Task{ID: "task"}}
	an := &AlertNode{
		node:      node{et: et, diag: diag},
		a:         pn,
		anonTopic: "main:task:alert2",
		handlers:  []alert.Handler{verifC01Handler{}},
	}
	verifC01SetTemplates(an)
	an.levels = make([]stateful.Expression, alert.Critical+1)
	an.scopePools = make([]stateful.ScopePool, alert.Critical+1)
	an.levelResets = make([]stateful.Expression, alert.Critical+1)
	an.lrScopePools = make([]stateful.ScopePool, alert.Critical+1)
	for l := alert.Info; l <= alert.Critical; l++ {
		if cfg.level[l] {
			an.levels[l] = &verifC01Expr{name: verifC01LevelNames[l]}
			an.scopePools[l] = stateful.NewScopePool([]string{verifC01LevelNames[l]})
			if cfg.reset[l] {
				an.levelResets[l] = &verifC01Expr{name: verifC01ResetNames[l]}
				an.lrScopePools[l] = stateful.NewScopePool([]string{verifC01ResetNames[l]})
			}
		}
	}
	an.alertsTriggered = &expvar.Int{}
	an.alertsInhibited = &expvar.Int{}
	an.oksTriggered = &expvar.Int{}
	an.infosTriggered = &expvar.Int{}
	an.warnsTriggered = &expvar.Int{}
	an.critsTriggered = &expvar.Int{}
	an.eventsDropped = &expvar.Int{}
	return an
}

// verifC01ChooseCfg enumerates the structure of the configuration.
func verifC01ChooseCfg(v *vrt.T) verifC01Cfg {
	var cfg verifC01Cfg
	// per level: absent / condition / condition + reset (newAlertNode compiles a reset
	// only for a configured level)
	ci := v.Choose("info", 3)
	cw := v.Choose("warn", 3)
	cc := v.Choose("crit", 3)
	cfg.level[alert.Info], cfg.reset[alert.Info] = ci >= 1, ci == 2
	cfg.level[alert.Warning], cfg.reset[alert.Warning] = cw >= 1, cw == 2
	cfg.level[alert.Critical], cfg.reset[alert.Critical] = cc >= 1, cc == 2
	switch v.Choose("stateChangesOnly", 3) {
	case 1:
		cfg.sco = true
	case 2:
		cfg.sco = true
		cfg.ival = time.Duration(v.IntRange("interval", 1, 48))
	}
	cfg.noRec = v.Choose("noRecoveries", 2) == 1
	return cfg
}

// ---------------------------------------------------------------------------------
// Reference semantics (DESIGN.md Appendix A, pipeline/alert.go documentation)
// ---------------------------------------------------------------------------------

type verifC01Ref struct {
	cfg       verifC01Cfg
	level     alert.Level // current level of the ID
	lastEmit  int64       // time of the last emitted event (valid if emitted)
	emitted   bool
	leftOK    int64 // time at which the ID last left OK
}

// newLevel: highest configured level >= L whose condition holds; otherwise L while its
// reset condition is configured and false; otherwise the highest configured level < L
// whose condition holds; otherwise OK.
func (r *verifC01Ref) newLevel(cond, reset [4]bool) alert.Level {
	L := r.level
	for l := alert.Critical; l >= alert.Info && l >= L; l-- {
		if r.cfg.level[l] && cond[l] {
			return l
		}
	}
	if L != alert.OK && r.cfg.reset[L] && !reset[L] {
		return L
	}
	for l := L - 1; l >= alert.Info; l-- {
		if r.cfg.level[l] && cond[l] {
			return l
		}
	}
	return alert.OK
}

// step returns whether an event reaches the handlers for a point (batch) of level l at
// time t, and the event's duration.
func (r *verifC01Ref) step(l alert.Level, t int64) (emit bool, dur int64) {
	prev := r.level
	changed := l != prev
	expired := !changed && r.cfg.ival != 0 && r.emitted && t-r.lastEmit >= int64(r.cfg.ival)
	r.level = l
	if !(l != alert.OK || changed) {
		return false, 0
	}
	if r.cfg.sco && !changed && !expired {
		return false, 0
	}
	if prev == alert.OK {
		r.leftOK = t
	}
	r.lastEmit, r.emitted = t, true
	if l == alert.OK && r.cfg.noRec {
		return false, 0
	}
	return true, t - r.leftOK
}

// ---------------------------------------------------------------------------------
// H1: stream form
// ---------------------------------------------------------------------------------

func verifC01Group() (models.Dimensions, models.Tags) {
	return models.Dimensions{TagNames: []string{"host"}}, models.Tags{"host": "a"}
}

// verifC01Fields puts the step's condition bits into the point's fields under the names
// the configured expressions refer to.
func verifC01Fields(v *vrt.T, cfg verifC01Cfg) (models.Fields, [4]bool, [4]bool) {
	var cond, reset [4]bool
	f := models.Fields{}
	for l := alert.Info; l <= alert.Critical; l++ {
		if cfg.level[l] {
			cond[l] = v.Bool("cond")
			f[verifC01LevelNames[l]] = cond[l]
		}
		if cfg.reset[l] {
			reset[l] = v.Bool("reset")
			f[verifC01ResetNames[l]] = reset[l]
		}
	}
	return f, cond, reset
}

// VerifC01Stream drives the alert state of one alert ID with k points whose condition
// bits and times are symbolic and compares what reaches the handlers (and what is
// forwarded downstream) with the reference state machine.
func VerifC01Stream(v *vrt.T) {
	k := v.Bound("points", 3)
	cfg := verifC01ChooseCfg(v)
	svc := &verifC01AlertSvc{}
	diag := &verifNopDiag{}
	an := verifC01Node(cfg, svc, diag)
	dims, tags := verifC01Group()
	state := an.newAlertState(tags)
	ref := &verifC01Ref{cfg: cfg}

	t := v.Time("t0", verifT2020-32, verifT2020+32).UnixNano()
	for i := 0; i < k; i++ {
		if i > 0 {
			t += int64(v.IntRange("dt", 0, 40))
		}
		fields, cond, reset := verifC01Fields(v, cfg)
		p := edge.NewPointMessage("m", "db", "rp", dims, fields, tags, time.Unix(0, t).UTC())
		before := len(svc.events)
		msg, err := state.Point(p)
		v.Assert(err == nil, "no error")

		wantLevel := ref.newLevel(cond, reset)
		v.Assert(state.currentLevel() == wantLevel, "level of the point is the documented one")
		emit, dur := ref.step(wantLevel, t)
		got := len(svc.events) - before
		v.Observe("events", got, int(state.currentLevel()))
		if emit {
			v.Assert(got == 1, "an event reaches the handlers exactly when documented (missing or duplicated)")
		} else {
			v.Assert(got == 0, "an event reaches the handlers exactly when documented (unexpected event)")
		}
		v.Assert((msg != nil) == emit, "point forwarded downstream iff an event was sent")
		if emit && got == 1 {
			ev := svc.events[before]
			v.Observe("event", int(ev.State.Level), ev.State.Time.UnixNano(), int64(ev.State.Duration))
			v.Assert(ev.State.Level == wantLevel, "event carries the level")
			v.Assert(ev.State.Time.UnixNano() == t, "event carries the time of the triggering point")
			v.Assert(int64(ev.State.Duration) == dur, "event duration is the time since the ID left OK")
			v.Assert(ev.State.ID == verifC01ID && ev.Topic == an.anonTopic, "event id/topic")
			v.Assert(ev.Data.Recoverable == !cfg.noRec, "recoverable flag")
		}
	}
	v.Assert(diag.errors == 0, "no evaluation errors logged")
	v.Reach("end")
}
