package kapacitor

import (
	"bytes"
	"errors"
	html "html/template"
	"sync"
	text "text/template"
	"time"

	"github.com/influxdata/kapacitor/alert"
	"github.com/influxdata/kapacitor/edge"
	"github.com/influxdata/kapacitor/expvar"
	"github.com/influxdata/kapacitor/models"
	"github.com/influxdata/kapacitor/pipeline"
	"github.com/influxdata/kapacitor/tick/ast"
	"github.com/influxdata/kapacitor/tick/stateful"
	"github.com/influxdata/kapacitor/uuid"
	vrt "github.com/influxdata/kapacitor/zz_vrt"
)

// ---------------------------------------------------------------------------------
// Stubs of Kapacitor's own interfaces
// ---------------------------------------------------------------------------------

// verifC01Expr is a stateful.Expression standing for the lambda `"<name>"`: a reference
// to the boolean field <name> of the point. The real EvalPredicate/fillScope/ScopePool
// run; only the expression compiler/evaluator (property C04) is replaced. As with the
// real evaluator, a missing or non-boolean field is an evaluation error.
type verifC01Expr struct{ name string }

func (e *verifC01Expr) Reset() {}
func (e *verifC01Expr) Type(scope stateful.ReadOnlyScope) (ast.ValueType, error) {
	return ast.TBool, nil
}
func (e *verifC01Expr) EvalBool(scope *stateful.Scope) (bool, error) {
	x, err := scope.Get(e.name)
	if err != nil {
		return false, err
	}
	b, ok := x.(bool)
	if !ok {
		return false, errors.New("verif: field is missing or not a bool")
	}
	return b, nil
}
func (e *verifC01Expr) EvalFloat(scope *stateful.Scope) (float64, error) {
	return 0, errors.New("verif: not a float")
}
func (e *verifC01Expr) EvalInt(scope *stateful.Scope) (int64, error) {
	return 0, errors.New("verif: not an int")
}
func (e *verifC01Expr) EvalString(scope *stateful.Scope) (string, error) {
	return "", errors.New("verif: not a string")
}
func (e *verifC01Expr) EvalDuration(scope *stateful.Scope) (time.Duration, error) {
	return 0, errors.New("verif: not a duration")
}
func (e *verifC01Expr) Eval(scope *stateful.Scope) (interface{}, error) { return e.EvalBool(scope) }
func (e *verifC01Expr) CopyReset() stateful.Expression                  { return &verifC01Expr{name: e.name} }

// verifC01AlertSvc is the TaskMaster.AlertService seen by the alert node: it records
// the events handed over for the handlers of the node's topics.
type verifC01AlertSvc struct {
	events []alert.Event
}

func (s *verifC01AlertSvc) Collect(event alert.Event) error {
	s.events = append(s.events, event)
	return nil
}
func (s *verifC01AlertSvc) UpdateEvent(topic string, event alert.EventState) error { return nil }
func (s *verifC01AlertSvc) EventState(topic, event string) (alert.EventState, bool, error) {
	return alert.EventState{}, false, nil
}
func (s *verifC01AlertSvc) RegisterAnonHandler(topic string, h alert.Handler)   {}
func (s *verifC01AlertSvc) DeregisterAnonHandler(topic string, h alert.Handler) {}
func (s *verifC01AlertSvc) CloseTopic(topic string) error                       { return nil }
func (s *verifC01AlertSvc) DeleteTopic(topic string) error                      { return nil }
func (s *verifC01AlertSvc) RestoreTopic(topic string) error                     { return nil }
func (s *verifC01AlertSvc) IsInhibited(name string, tags models.Tags) bool      { return false }
func (s *verifC01AlertSvc) AddInhibitor(*alert.Inhibitor)                       {}
func (s *verifC01AlertSvc) RemoveInhibitor(*alert.Inhibitor)                    {}

// on returns the events collected for one topic from position from on.
func (s *verifC01AlertSvc) on(topic string, from int) []alert.Event {
	var evs []alert.Event
	for _, e := range s.events[from:] {
		if e.Topic == topic {
			evs = append(evs, e)
		}
	}
	return evs
}

// verifC01Handler only makes the node own an anonymous topic (hasAnonTopic).
type verifC01Handler struct{}

func (verifC01Handler) Handle(event alert.Event) {}

// verifC01Info is the vars.Infoer needed by the real ID/message templates (native replay only).
type verifC01Info struct{}

func (verifC01Info) ClusterID() uuid.UUID    { return uuid.Nil }
func (verifC01Info) ServerID() uuid.UUID     { return uuid.Nil }
func (verifC01Info) Hostname() string        { return "h" }
func (verifC01Info) Version() string         { return "v" }
func (verifC01Info) Product() string         { return "p" }
func (verifC01Info) Platform() string        { return "l" }
func (verifC01Info) NumTasks() int64         { return 0 }
func (verifC01Info) NumEnabledTasks() int64  { return 0 }
func (verifC01Info) NumSubscriptions() int64 { return 0 }
func (verifC01Info) Uptime() time.Duration   { return 0 }

// ---------------------------------------------------------------------------------
// Templates: text/template is not encodable. Natively the real templates (constant
// texts) are parsed and executed; under the engine the three functions below are
// replaced through "overrides" in harness.json by the constant functions next to them.
// ---------------------------------------------------------------------------------

const (
	verifC01ID      = "alert-id"
	verifC01Message = "msg"
	verifC01Details = "det"
	verifC01Topic   = "user-topic"
	verifC01Anon    = "main:task:alert2"
)

func verifC01SetTemplates(n *AlertNode) {
	n.idTmpl = text.Must(text.New("id").Parse(verifC01ID))
	n.messageTmpl = text.Must(text.New("message").Parse(verifC01Message))
	n.detailsTmpl = html.Must(html.New("details").Parse(verifC01Details))
	n.bufPool = sync.Pool{New: func() interface{} { return new(bytes.Buffer) }}
}
func verifC01SetTemplatesNop(n *AlertNode) {}

func verifC01RenderID(n *AlertNode, name string, group models.GroupID, tags models.Tags) (string, error) {
	return verifC01ID, nil
}
func verifC01RenderMessageAndDetails(n *AlertNode, id, name string, t time.Time, group models.GroupID, tags models.Tags, fields models.Fields, level alert.Level, d time.Duration) (string, string, error) {
	return verifC01Message, verifC01Details, nil
}

// ---------------------------------------------------------------------------------
// Node construction
// ---------------------------------------------------------------------------------

// verifC01Cfg is the part of the alert node configuration that the property ranges over.
type verifC01Cfg struct {
	level             [4]bool // level[l]: a condition is configured for level l (1..3)
	reset             [4]bool // reset[l]: a reset condition is configured for level l
	sco               bool    // stateChangesOnly
	ival              time.Duration
	noRec             bool
	all               bool
	anon              bool // handlers on the node itself (anonymous topic)
	topic             bool // user topic
	history           int64
	augment           int // 0 none, 1 all six tag/field options, 2 levelField+durationField, 3 idTag
	flap              bool
	flapLow, flapHigh float64
}

var verifC01LevelNames = [4]string{"", "info", "warn", "crit"}
var verifC01ResetNames = [4]string{"", "infoReset", "warnReset", "critReset"}

// Level names as documented (pipeline/alert.go: "Level -- one of OK, INFO, WARNING or CRITICAL").
var verifC01LevelText = [4]string{"OK", "INFO", "WARNING", "CRITICAL"}

// verifC01Node builds the AlertNode exactly as newAlertNode leaves it (levels/levelResets
// indexed by level with their scope pools, history >= 2), without the handler services.
func verifC01Node(cfg verifC01Cfg, svc *verifC01AlertSvc, diag *verifNopDiag) *AlertNode {
	data := &pipeline.AlertNodeData{
		History:                  cfg.history,
		NoRecoveriesFlag:         cfg.noRec,
		IsStateChangesOnly:       cfg.sco,
		StateChangesOnlyDuration: cfg.ival,
		AllFlag:                  cfg.all,
		UseFlapping:              cfg.flap,
		FlapLow:                  cfg.flapLow,
		FlapHigh:                 cfg.flapHigh,
	}
	switch cfg.augment {
	case 1:
		data.LevelTag, data.LevelField, data.IdTag, data.IdField, data.DurationField, data.MessageField = "lt", "level", "it", "id", "dur", "message"
	case 2:
		data.LevelField, data.DurationField = "level", "dur"
	case 3:
		data.IdTag = "it"
	}
	tm := &TaskMaster{AlertService: svc, ServerInfo: verifC01Info{}}
	et := &ExecutingTask{tm: tm, Task: &Task{ID: "task"}}
	an := &AlertNode{
		node:      node{et: et, diag: diag},
		a:         &pipeline.AlertNode{AlertNodeData: data},
		anonTopic: verifC01Anon,
	}
	if cfg.anon {
		an.handlers = []alert.Handler{verifC01Handler{}}
	}
	if cfg.topic {
		an.topic = verifC01Topic
	}
	verifC01SetTemplates(an)
	an.levels = make([]stateful.Expression, alert.Critical+1)
	an.scopePools = make([]stateful.ScopePool, alert.Critical+1)
	an.levelResets = make([]stateful.Expression, alert.Critical+1)
	an.lrScopePools = make([]stateful.ScopePool, alert.Critical+1)
	for l := alert.Info; l <= alert.Critical; l++ {
		if cfg.level[l] {
			an.levels[l] = &verifC01Expr{name: verifC01LevelNames[l]}
			an.scopePools[l] = stateful.NewScopePool([]string{verifC01LevelNames[l]})
			if cfg.reset[l] {
				an.levelResets[l] = &verifC01Expr{name: verifC01ResetNames[l]}
				an.lrScopePools[l] = stateful.NewScopePool([]string{verifC01ResetNames[l]})
			}
		}
	}
	an.alertsTriggered = &expvar.Int{}
	an.alertsInhibited = &expvar.Int{}
	an.oksTriggered = &expvar.Int{}
	an.infosTriggered = &expvar.Int{}
	an.warnsTriggered = &expvar.Int{}
	an.critsTriggered = &expvar.Int{}
	an.eventsDropped = &expvar.Int{}
	return an
}

// Variants of the parts of the configuration that do not interact with the state
// machine: where events go, the history length (flapping off) and what is added to
// forwarded data.
var verifC01Variants = []verifC01Cfg{
	{anon: true, topic: true, history: 2, augment: 1},
	{anon: true, topic: false, history: 3, augment: 0},
	{anon: false, topic: true, history: 5, augment: 2},
	{anon: false, topic: false, history: 4, augment: 3},
}

// Level tables (info, warn, crit: 0 absent, 1 condition, 2 condition + reset) for the
// harnesses that do not enumerate all 27 combinations (bound "leveltables" = number of
// rows used; 0 = all 27 combinations).
var verifC01LevelTables = [][3]int{{2, 2, 2}, {1, 1, 1}, {0, 0, 1}, {1, 2, 0}, {0, 1, 2}}

// verifC01ChooseCfg enumerates the structure of the configuration; data-like parts
// (interval, noRecoveries) are symbolic.
func verifC01ChooseCfg(v *vrt.T, batch bool) verifC01Cfg {
	cfg := verifC01Variants[v.Choose("variant", v.Bound("variants", 1))]
	// per level: absent / condition / condition + reset (newAlertNode compiles a reset
	// only for a configured level)
	var ci, cw, cc int
	if nt := v.Bound("leveltables", 0); nt > 0 {
		tab := verifC01LevelTables[v.Choose("levels", nt)]
		ci, cw, cc = tab[0], tab[1], tab[2]
	} else {
		ci = v.Choose("info", 3)
		cw = v.Choose("warn", 3)
		cc = v.Choose("crit", 3)
	}
	cfg.level[alert.Info], cfg.reset[alert.Info] = ci >= 1, ci == 2
	cfg.level[alert.Warning], cfg.reset[alert.Warning] = cw >= 1, cw == 2
	cfg.level[alert.Critical], cfg.reset[alert.Critical] = cc >= 1, cc == 2
	if v.Choose("stateChangesOnly", 2) == 1 {
		cfg.sco = true
		cfg.ival = time.Duration(v.IntRange("interval", 0, 48)) // 0 = no interval
	}
	cfg.noRec = v.Bool("noRecoveries")
	if batch {
		cfg.all = v.Choose("all", 2) == 1
	}
	return cfg
}

// ---------------------------------------------------------------------------------
// Reference semantics (DESIGN.md Appendix A, pipeline/alert.go documentation)
// ---------------------------------------------------------------------------------

type verifC01Ref struct {
	cfg      verifC01Cfg
	level    alert.Level // current level of the ID
	lastEmit int64       // time of the last emitted event (valid if emitted)
	emitted  bool
	leftOK   int64 // time at which the ID last left OK
}

// newLevel: highest configured level >= L whose condition holds; otherwise L while its
// reset condition is configured and false; otherwise the highest configured level < L
// whose condition holds; otherwise OK.
func (r *verifC01Ref) newLevel(cond, reset [4]bool) alert.Level {
	L := r.level
	for l := alert.Critical; l >= alert.Info && l >= L; l-- {
		if r.cfg.level[l] && cond[l] {
			return l
		}
	}
	if L != alert.OK && r.cfg.reset[L] && !reset[L] {
		return L
	}
	for l := L - 1; l >= alert.Info; l-- {
		if r.cfg.level[l] && cond[l] {
			return l
		}
	}
	return alert.OK
}

// step returns whether an event reaches the handlers for a point (batch) of level l at
// time t, and the event's duration.
func (r *verifC01Ref) step(l alert.Level, t int64) (emit bool, dur int64) {
	prev := r.level
	changed := l != prev
	// interval elapsed since the last event (trivially so if there never was one; that
	// can only happen when flap detection suppressed the events so far)
	expired := !changed && r.cfg.ival != 0 && (!r.emitted || t-r.lastEmit >= int64(r.cfg.ival))
	r.level = l
	if !(l != alert.OK || changed) {
		return false, 0
	}
	if r.cfg.sco && !changed && !expired {
		return false, 0
	}
	if prev == alert.OK {
		r.leftOK = t
	}
	r.lastEmit, r.emitted = t, true
	if l == alert.OK && r.cfg.noRec {
		return false, 0
	}
	return true, t - r.leftOK
}

// ---------------------------------------------------------------------------------
// Shared pieces
// ---------------------------------------------------------------------------------

func verifC01Group() (models.Dimensions, models.Tags) {
	return models.Dimensions{TagNames: []string{"host"}}, models.Tags{"host": "a"}
}

// verifC01Fields puts the step's condition bits into the point's fields under the names
// the configured expressions refer to. With missing != 0 a level condition's field may
// be absent (evaluation error: the condition does not hold).
func verifC01Fields(v *vrt.T, cfg verifC01Cfg, missing bool, seq int64) (models.Fields, [4]bool, [4]bool) {
	var cond, reset [4]bool
	f := models.Fields{"seq": seq}
	for l := alert.Info; l <= alert.Critical; l++ {
		if cfg.level[l] {
			if missing && v.Choose("missing", 2) == 1 {
				cond[l] = false
			} else {
				cond[l] = v.Bool("cond")
				f[verifC01LevelNames[l]] = cond[l]
			}
		}
		if cfg.reset[l] {
			reset[l] = v.Bool("reset")
			f[verifC01ResetNames[l]] = reset[l]
		}
	}
	return f, cond, reset
}

// verifC01CheckEvents: every configured topic got exactly one event (none when !emit)
// since position from, carrying level, time, duration, id. The first event is compared
// with the reference, a second topic's event with the first one (same assertion by
// transitivity, but syntactically trivial for the solver).
// Returns the duration to look for in forwarded data: the event's (just asserted equal to
// the reference) when there is one, the reference's otherwise.
func verifC01CheckEvents(v *vrt.T, cfg verifC01Cfg, svc *verifC01AlertSvc, from int, emit bool, level alert.Level, t, dur int64) int64 {
	topics := [2]string{verifC01Anon, verifC01Topic}
	on := [2]bool{cfg.anon, cfg.topic}
	total := 0
	var firstEv *alert.Event
	for i := 0; i < 2; i++ {
		evs := svc.on(topics[i], from)
		if !on[i] {
			v.Assert(len(evs) == 0, "no event on a topic that is not configured")
			continue
		}
		if emit {
			total++
			v.Assert(len(evs) == 1, "an event reaches the handlers exactly when documented (missing or duplicated)")
		} else {
			v.Assert(len(evs) == 0, "an event reaches the handlers exactly when documented (unexpected event)")
		}
		if emit && len(evs) == 1 {
			ev := evs[0]
			if firstEv == nil {
				v.Observe("event", int(ev.State.Level), ev.State.Time.UnixNano(), int64(ev.State.Duration))
				v.Assert(ev.State.Level == level, "event carries the level")
				v.Assert(ev.State.Time.UnixNano() == t, "event carries the time of the triggering point")
				v.Assert(int64(ev.State.Duration) == dur, "event duration is the time since the ID left OK")
				v.Assert(ev.Data.Recoverable == !cfg.noRec, "recoverable flag")
				firstEv = &evs[0]
			} else {
				v.Assert(ev.State.Level == firstEv.State.Level && ev.State.Time.Equal(firstEv.State.Time) &&
					ev.State.Duration == firstEv.State.Duration && ev.Data.Recoverable == firstEv.Data.Recoverable,
					"both topics get the same event")
			}
			v.Assert(ev.State.ID == verifC01ID && ev.State.Message == verifC01Message, "event id/message")
		}
	}
	v.Assert(len(svc.events)-from == total, "nothing else collected")
	if firstEv != nil {
		return int64(firstEv.State.Duration)
	}
	return dur
}

// verifC01CheckAugmented: fields/tags of forwarded data = original ones plus the
// configured event-state tags/fields.
func verifC01CheckAugmented(v *vrt.T, cfg verifC01Cfg, fields, orig models.Fields, tags models.Tags, level alert.Level, dur int64) {
	nf, nt := len(orig), 1
	for name, val := range orig {
		v.Assert(fields[name] == val, "forwarded data keeps its fields")
	}
	v.Assert(tags["host"] == "a", "forwarded data keeps its tags")
	if cfg.augment == 1 || cfg.augment == 2 {
		nf += 2
		v.Assert(fields["level"] == interface{}(verifC01LevelText[level]), "levelField")
		v.Assert(fields["dur"] == interface{}(dur), "durationField")
	}
	if cfg.augment == 1 {
		nf += 2
		nt += 2
		v.Assert(fields["id"] == interface{}(verifC01ID) && fields["message"] == interface{}(verifC01Message), "idField/messageField")
		v.Assert(tags["lt"] == verifC01LevelText[level] && tags["it"] == verifC01ID, "levelTag/idTag")
	}
	if cfg.augment == 3 {
		nt++
		v.Assert(tags["it"] == verifC01ID, "idTag")
	}
	v.Assert(len(fields) == nf && len(tags) == nt, "nothing else added to forwarded data")
}

// ---------------------------------------------------------------------------------
// H1: stream form
// ---------------------------------------------------------------------------------

// VerifC01Stream drives the alert state of one alert ID with k points whose condition
// bits and times are symbolic and compares what reaches the handlers (and what is
// forwarded downstream) with the reference state machine.
func VerifC01Stream(v *vrt.T) {
	k := v.Bound("points", 3)
	missing := v.Bound("missing", 0) != 0
	cfg := verifC01ChooseCfg(v, false)
	svc := &verifC01AlertSvc{}
	diag := &verifNopDiag{}
	an := verifC01Node(cfg, svc, diag)
	dims, tags := verifC01Group()
	state := an.newAlertState(tags)
	ref := &verifC01Ref{cfg: cfg}

	t := v.Time("t0", verifT2020-32, verifT2020+32).UnixNano()
	for i := 0; i < k; i++ {
		if i > 0 {
			t += int64(v.IntRange("dt", 0, 40))
		}
		fields, cond, reset := verifC01Fields(v, cfg, missing, int64(i))
		nfields := len(fields)
		p := edge.NewPointMessage("m", "db", "rp", dims, fields, tags, time.Unix(0, t).UTC())
		before := len(svc.events)
		msg, err := state.Point(p)
		v.Assert(err == nil, "no error")

		wantLevel := ref.newLevel(cond, reset)
		v.Assert(state.currentLevel() == wantLevel, "level of the point is the documented one")
		emit, dur := ref.step(wantLevel, t)
		v.Observe("step", msg != nil, int(state.currentLevel()), len(svc.events)-before)
		dur = verifC01CheckEvents(v, cfg, svc, before, emit, wantLevel, t, dur)
		v.Assert((msg != nil) == emit, "point forwarded downstream iff an event was sent")
		if emit && msg != nil {
			fp, ok := msg.(edge.PointMessage)
			v.Assert(ok, "forwarded message is a point")
			v.Assert(fp.Time().UnixNano() == t && fp.Name() == "m" && fp.GroupID() == p.GroupID(), "forwarded point keeps time/name/group")
			v.Assert(len(p.Fields()) == nfields && len(p.Tags()) == 1, "received point not modified")
			verifC01CheckAugmented(v, cfg, fp.Fields(), p.Fields(), fp.Tags(), wantLevel, dur)
		}
	}
	if !missing {
		v.Assert(diag.errors == 0, "no evaluation errors logged")
	}
	v.Reach("end")
}

// ---------------------------------------------------------------------------------
// H2: batch form
// ---------------------------------------------------------------------------------

// VerifC01Batch drives the alert state of one alert ID with batches of 0..n points:
// the batch level is the highest point level (lowest with all()), each point level
// determined against the ID's level before the batch; the event time is the time of the
// first point with the highest level, or the batch time with all() or when the level is OK.
func VerifC01Batch(v *vrt.T) {
	nb := v.Bound("batches", 2)
	maxpts := v.Bound("maxpts", 2)
	cfg := verifC01ChooseCfg(v, true)
	svc := &verifC01AlertSvc{}
	diag := &verifNopDiag{}
	an := verifC01Node(cfg, svc, diag)
	_, tags := verifC01Group()
	state := an.newAlertState(tags)
	ref := &verifC01Ref{cfg: cfg}

	t := v.Time("t0", verifT2020-32, verifT2020+32).UnixNano()
	seq := int64(0)
	for j := 0; j < nb; j++ {
		n := v.Choose("npoints", maxpts+1)
		var pts []edge.BatchPointMessage
		var orig []models.Fields
		var nfields []int
		var times []int64
		var levels []alert.Level
		for i := 0; i < n; i++ {
			t += int64(v.IntRange("dt", 0, 24))
			fields, cond, reset := verifC01Fields(v, cfg, false, seq)
			seq++
			pts = append(pts, edge.NewBatchPointMessage(fields, tags, time.Unix(0, t).UTC()))
			orig = append(orig, fields)
			nfields = append(nfields, len(fields))
			times = append(times, t)
			levels = append(levels, ref.newLevel(cond, reset)) // all against the level before the batch
		}
		t += int64(v.IntRange("dt", 0, 24))
		tmax := t
		begin := edge.NewBeginBatchMessage("m", tags, false, time.Unix(0, tmax).UTC(), n)
		before := len(svc.events)
		var msg edge.Message
		var err error
		if j%2 == 0 {
			// as it arrives over an edge: begin, points, end
			msg, err = state.BeginBatch(begin)
			v.Assert(msg == nil && err == nil, "begin batch")
			for _, bp := range pts {
				msg, err = state.BatchPoint(bp)
				v.Assert(msg == nil && err == nil, "batch point")
			}
			msg, err = state.EndBatch(edge.NewEndBatchMessage())
		} else {
			msg, err = state.BufferedBatch(edge.NewBufferedBatchMessage(begin, pts, edge.NewEndBatchMessage()))
		}
		v.Assert(err == nil, "no error")
		if n == 0 {
			v.Assert(msg == nil && len(svc.events) == before && state.currentLevel() == ref.level, "empty batch changes nothing")
			continue
		}
		// reference: batch level and time
		wantLevel := levels[0]
		first := 0
		for i := 1; i < n; i++ {
			if cfg.all {
				if levels[i] < wantLevel {
					wantLevel = levels[i]
				}
			} else if levels[i] > wantLevel {
				wantLevel = levels[i]
				first = i
			}
		}
		wantT := times[first]
		if cfg.all || wantLevel == alert.OK {
			wantT = tmax
		}
		v.Assert(state.currentLevel() == wantLevel, "level of the batch is the documented one")
		emit, dur := ref.step(wantLevel, wantT)
		v.Observe("step", msg != nil, int(state.currentLevel()), len(svc.events)-before)
		dur = verifC01CheckEvents(v, cfg, svc, before, emit, wantLevel, wantT, dur)
		v.Assert((msg != nil) == emit, "batch forwarded downstream iff an event was sent")
		if emit && msg != nil {
			fb, ok := msg.(edge.BufferedBatchMessage)
			v.Assert(ok, "forwarded message is a batch")
			v.Assert(fb.Time().UnixNano() == tmax && fb.Name() == "m" && len(fb.Points()) == n, "forwarded batch keeps time/name/size")
			if len(fb.Points()) == n {
				for i, bp := range fb.Points() {
					v.Assert(bp.Time().UnixNano() == times[i], "forwarded batch point keeps its time")
					v.Assert(len(pts[i].Fields()) == nfields[i] && len(pts[i].Tags()) == 1, "received batch point not modified")
					verifC01CheckAugmented(v, cfg, bp.Fields(), orig[i], bp.Tags(), wantLevel, dur)
				}
			}
			v.Assert(len(begin.Tags()) == 1, "received batch not modified")
			bt := fb.Tags()
			switch cfg.augment {
			case 1:
				v.Assert(len(bt) == 3 && bt["host"] == "a" && bt["lt"] == verifC01LevelText[wantLevel] && bt["it"] == verifC01ID, "forwarded batch tags = group tags + levelTag/idTag")
			case 3:
				v.Assert(len(bt) == 2 && bt["host"] == "a" && bt["it"] == verifC01ID, "forwarded batch tags = group tags + idTag")
			default:
				v.Assert(len(bt) == 1 && bt["host"] == "a", "forwarded batch tags = group tags")
			}
		}
	}
	v.Assert(diag.errors == 0, "no evaluation errors logged")
	v.Reach("end")
}

// ---------------------------------------------------------------------------------
// H3: history length and flap detection
// ---------------------------------------------------------------------------------

var verifC01FlapThresholds = [][2]float64{{0.25, 0.5}, {0.1, 0.3}, {0.5, 0.9}}

// VerifC01Flapping: flap detection on, history 2..5. The documentation does not define
// the exact (weighted) percentage of state changes, so the flapping flag itself is taken
// from the implementation and only its documented frame is asserted (a recorded history
// without any state change has percentage 0: below every positive low threshold, never
// above high). Decided relative to that flag: levels as documented; while not flapping
// events are emitted exactly by the reference rule; while flapping no non-OK event is
// sent (what happens to a recovery while flapping is undocumented and differs between
// stream and batch form: not constrained); every event that is sent carries the level,
// the time of the triggering point and duration = time since the ID last left OK.
func VerifC01Flapping(v *vrt.T) {
	k := v.Bound("points", 4)
	cfg := verifC01ChooseCfg(v, false)
	cfg.flap = true
	cfg.history = int64(2 + v.Choose("history", v.Bound("histories", 4)))
	th := verifC01FlapThresholds[v.Choose("thresholds", v.Bound("thresholds", 2))]
	cfg.flapLow, cfg.flapHigh = th[0], th[1]
	batch := v.Choose("form", 2) == 1
	svc := &verifC01AlertSvc{}
	diag := &verifNopDiag{}
	an := verifC01Node(cfg, svc, diag)
	dims, tags := verifC01Group()
	state := an.newAlertState(tags)
	ref := &verifC01Ref{cfg: cfg}
	hist := make([]alert.Level, cfg.history) // recorded history, oldest first; starts all OK

	t := v.Time("t0", verifT2020-32, verifT2020+32).UnixNano()
	for i := 0; i < k; i++ {
		if i > 0 {
			t += int64(v.IntRange("dt", 0, 40))
		}
		fields, cond, reset := verifC01Fields(v, cfg, false, int64(i))
		before := len(svc.events)
		var msg edge.Message
		var err error
		if batch {
			begin := edge.NewBeginBatchMessage("m", tags, false, time.Unix(0, t).UTC(), 1)
			pts := []edge.BatchPointMessage{edge.NewBatchPointMessage(fields, tags, time.Unix(0, t).UTC())}
			msg, err = state.BufferedBatch(edge.NewBufferedBatchMessage(begin, pts, edge.NewEndBatchMessage()))
		} else {
			msg, err = state.Point(edge.NewPointMessage("m", "db", "rp", dims, fields, tags, time.Unix(0, t).UTC()))
		}
		v.Assert(err == nil, "no error")
		l := ref.newLevel(cond, reset)
		v.Assert(state.currentLevel() == l, "level of the point is the documented one")

		// documented frame of the flapping flag
		hist = append(hist[1:], l)
		steady := true
		for _, h := range hist {
			if h != l {
				steady = false
			}
		}
		flapping := state.flapping
		if steady {
			v.Assert(!flapping, "no state change in the recorded history: not flapping")
		}

		// reference step relative to the flapping flag
		prev := ref.level
		changed := l != prev
		expired := !changed && cfg.ival != 0 && (!ref.emitted || t-ref.lastEmit >= int64(cfg.ival))
		ref.level = l
		if prev == alert.OK && l != alert.OK {
			ref.leftOK = t
		}
		want := (l != alert.OK || changed) && !(cfg.sco && !changed && !expired)
		got := len(svc.events) - before
		v.Observe("step", int(l), flapping, got)
		sent := false
		if flapping && l == alert.OK {
			// recovery while flapping: unconstrained, but never an event without a recovery
			if !(want && !cfg.noRec) {
				v.Assert(got == 0 && msg == nil, "an event reaches the handlers exactly when documented (unexpected event)")
			}
			sent = got > 0 || (want && cfg.noRec && batch)
		} else if flapping {
			v.Assert(got == 0 && msg == nil, "no non-OK event while flapping")
		} else {
			sent = want
			if want && !(l == alert.OK && cfg.noRec) {
				v.Assert(got == 2 && msg != nil, "an event reaches the handlers exactly when documented (missing or duplicated)")
			} else {
				v.Assert(got == 0 && msg == nil, "an event reaches the handlers exactly when documented (unexpected event)")
			}
		}
		if sent {
			ref.lastEmit, ref.emitted = t, true
		}
		if got > 0 {
			verifC01CheckEvents(v, cfg, svc, before, true, l, t, t-ref.leftOK)
		}
	}
	v.Reach("end")
}

// ---------------------------------------------------------------------------------
// H4: real compiled lambdas (the documented reset example)
// ---------------------------------------------------------------------------------

// The example of pipeline/alert.go: info > 60 reset < 50, warn > 70 reset < 60,
// crit > 80 reset < 70.
var verifC01DocLambdas = [4][2]string{{}, {`"value" > 60`, `"value" < 50`}, {`"value" > 70`, `"value" < 60`}, {`"value" > 80`, `"value" < 70`}}

// verifC01UseLambdas replaces the stub expressions of an all-levels-with-resets node by
// expressions compiled from the documented lambdas, the way newAlertNode does it.
func verifC01UseLambdas(v *vrt.T, an *AlertNode) {
	for l := alert.Info; l <= alert.Critical; l++ {
		for r := 0; r < 2; r++ {
			ln, err := ast.ParseLambda(verifC01DocLambdas[l][r])
			v.Assert(err == nil, "lambda parses")
			se, err := stateful.NewExpression(ln.Expression)
			v.Assert(err == nil, "lambda compiles")
			pool := stateful.NewScopePool(ast.FindReferenceVariables(ln.Expression))
			if r == 0 {
				an.levels[l], an.scopePools[l] = se, pool
			} else {
				an.levelResets[l], an.lrScopePools[l] = se, pool
			}
		}
	}
}

// VerifC01Lambdas: the stream state machine with the real expression evaluator on the
// documented threshold lambdas and a symbolic numeric field "value" per point.
// mode 0: k arbitrary values (any float64 incl. NaN/Inf, or int64 in 40..90).
// mode 1: the documented worked example 61 73 64 85 62 56 47, each value moved by an
// arbitrary amount in [-0.5, 0.5]: INFO WARNING WARNING CRITICAL INFO INFO OK.
func VerifC01Lambdas(v *vrt.T) {
	cfg := verifC01Variants[0]
	for l := alert.Info; l <= alert.Critical; l++ {
		cfg.level[l], cfg.reset[l] = true, true
	}
	mode := v.Choose("mode", 2)
	k := v.Bound("points", 3)
	doc := []float64{61, 73, 64, 85, 62, 56, 47}
	docLevels := []alert.Level{alert.Info, alert.Warning, alert.Warning, alert.Critical, alert.Info, alert.Info, alert.OK}
	asInt := false
	if mode == 0 {
		asInt = v.Choose("int", 2) == 1
		if v.Choose("stateChangesOnly", 2) == 1 {
			cfg.sco = true
			cfg.ival = time.Duration(v.IntRange("interval", 0, 48))
		}
		cfg.noRec = v.Bool("noRecoveries")
	} else {
		k = len(doc)
	}
	svc := &verifC01AlertSvc{}
	diag := &verifNopDiag{}
	an := verifC01Node(cfg, svc, diag)
	verifC01UseLambdas(v, an)
	dims, tags := verifC01Group()
	state := an.newAlertState(tags)
	ref := &verifC01Ref{cfg: cfg}

	t := v.Time("t0", verifT2020-32, verifT2020+32).UnixNano()
	for i := 0; i < k; i++ {
		if i > 0 {
			t += int64(v.IntRange("dt", 0, 40))
		}
		var cond, reset [4]bool
		fields := models.Fields{}
		if asInt {
			x := int64(v.IntRange("ivalue", 40, 90))
			fields["value"] = x
			cond = [4]bool{false, x > 60, x > 70, x > 80}
			reset = [4]bool{false, x < 50, x < 60, x < 70}
		} else {
			x := v.Float64("value")
			if mode == 1 {
				v.Assume(x >= doc[i]-0.5)
				v.Assume(x <= doc[i]+0.5)
			}
			fields["value"] = x
			cond = [4]bool{false, x > 60, x > 70, x > 80}
			reset = [4]bool{false, x < 50, x < 60, x < 70}
		}
		p := edge.NewPointMessage("m", "db", "rp", dims, fields, tags, time.Unix(0, t).UTC())
		before := len(svc.events)
		msg, err := state.Point(p)
		v.Assert(err == nil, "no error")
		wantLevel := ref.newLevel(cond, reset)
		if mode == 1 {
			v.Assert(wantLevel == docLevels[i], "reference reproduces the documented example")
		}
		v.Assert(state.currentLevel() == wantLevel, "level of the point is the documented one")
		emit, dur := ref.step(wantLevel, t)
		v.Observe("step", msg != nil, int(state.currentLevel()), len(svc.events)-before)
		verifC01CheckEvents(v, cfg, svc, before, emit, wantLevel, t, dur)
		v.Assert((msg != nil) == emit, "point forwarded downstream iff an event was sent")
	}
	v.Assert(diag.errors == 0, "no evaluation errors logged")
	if mode == 1 {
		v.Reach("documented example")
	}
	v.Reach("end")
}
