package alert

import (
	"time"

	"github.com/influxdata/kapacitor/alert"
	kexpvar "github.com/influxdata/kapacitor/expvar"
	"github.com/influxdata/kapacitor/keyvalue"
	vrt "github.com/influxdata/kapacitor/zz_vrt"
)

func verifC09NewStatistic(name string, tags map[string]string) (string, *kexpvar.Map) {
	m := &kexpvar.Map{}
	m.Init()
	return "verif-stat", m
}
func verifC09DeleteStatistic(key string) {}

type verifC09Diag struct{ errors int }

func (d *verifC09Diag) Error(msg string, err error, ctx ...keyvalue.T) { d.errors++ }

type verifC09Rec struct{ ids []int }

func (r *verifC09Rec) Handle(e alert.Event) { r.ids = append(r.ids, int(e.State.Duration)) }

type verifC09Ev struct {
	level, prev alert.Level
	hasHost     bool
	host        string
	name, task  string
	dur         time.Duration
}

// Match expressions and their meaning, written from the handler documentation:
// level(), changed(), name(), taskName(), alertDuration() and tag references; an event that
// lacks a referenced tag does not match.
var verifC09Matches = []struct {
	expr string
	ref  func(e verifC09Ev) (match bool)
}{
	{`level() >= WARNING`, func(e verifC09Ev) bool { return e.level >= alert.Warning }},
	{`changed() == TRUE`, func(e verifC09Ev) bool { return e.level != e.prev }},
	{`"host" == 'a'`, func(e verifC09Ev) bool { return e.hasHost && e.host == "a" }},
	{`"host" == 'a' AND level() > INFO`, func(e verifC09Ev) bool { return e.hasHost && e.host == "a" && e.level > alert.Info }},
	{`level() == CRITICAL OR "host" != 'b'`, func(e verifC09Ev) bool { return e.hasHost && (e.level == alert.Critical || e.host != "b") }},
	{`name() == 'c' OR taskName() == 't'`, func(e verifC09Ev) bool { return e.name == "c" || e.task == "t" }},
	{`changed() == TRUE AND level() == OK`, func(e verifC09Ev) bool { return e.level != e.prev && e.level == alert.OK }},
}

// VerifC09Match: a handler with a match condition receives exactly the events of its topic
// for which the condition holds for THAT event (level, previous level, name, task name and
// the event's own tags), in order; nothing carries over from earlier events.
func VerifC09Match(v *vrt.T) {
	m := verifC09Matches[v.Choose("expr", len(verifC09Matches))]
	rec := &verifC09Rec{}
	diag := &verifC09Diag{}
	mh, err := newMatchHandler(m.expr, rec, diag)
	v.Assert(err == nil, "match expression compiles")
	if err != nil {
		return
	}
	ts := alert.NewTopics(0)
	ts.RegisterHandler("t", mh)
	k := v.Bound("events", 3)
	last := map[string]alert.Level{}
	var want []int
	for i := 0; i < k; i++ {
		id := []string{"a", "b"}[v.Choose("id", 2)]
		e := verifC09Ev{level: alert.Level(v.IntRange("lvl", 0, 3)), name: v.String("name", 1), task: v.String("task", 1)}
		e.prev = last[id] // zero value OK when the ID is new
		tags := map[string]string{}
		if v.Choose("hashost", 2) == 1 {
			e.hasHost = true
			e.host = v.String("host", 1)
			tags["host"] = e.host
		}
		// the position of the event is carried in Duration so that the recorder can identify it
		ev := alert.Event{Topic: "t", State: alert.EventState{ID: id, Level: e.level, Duration: time.Duration(i)},
			Data: alert.EventData{Name: e.name, TaskName: e.task, Tags: tags}}
		v.Assert(ts.Collect(ev) == nil, "collect succeeds")
		last[id] = e.level
		if m.ref(e) {
			want = append(want, i)
		}
	}
	v.Goroutines()
	v.Observe("delivered", len(rec.ids))
	v.Assert(len(rec.ids) == len(want), "the handler receives exactly the matching events")
	if len(rec.ids) == len(want) {
		for i := range want {
			v.Assert(rec.ids[i] == want[i], "matching events arrive in order")
		}
	}
	v.Reach("end")
}
