package alert

import (
	vrt "github.com/influxdata/kapacitor/zz_vrt"
)

// VerifC09Less: the comparator that keeps a topic's events ordered must be a strict weak
// order that puts every higher level before every lower one; otherwise sort.Sort may leave
// a higher-level event behind a lower one and MaxLevel()/EventStates(min) are wrong.
func VerifC09Less(v *vrt.T) {
	mk := func(i string) *EventState {
		n := v.Choose("idlen"+i, 3)
		return &EventState{ID: v.String("id"+i, n), Level: Level(v.IntRange("lvl"+i, 0, 3))}
	}
	a, b, c := mk("a"), mk("b"), mk("c")
	s := sortedStates{a, b, c}
	v.Observe("less01", s.Less(0, 1))
	v.Assert(!s.Less(0, 0), "irreflexive")
	v.Assert(!(s.Less(0, 1) && s.Less(1, 0)), "asymmetric")
	v.Assert(!(s.Less(0, 1) && s.Less(1, 2)) || s.Less(0, 2), "transitive")
	if a.Level > b.Level {
		v.Assert(s.Less(0, 1), "higher level sorts first")
		v.Assert(!s.Less(1, 0), "lower level never sorts before higher")
	}
	v.Reach("end")
}
