package alert

import (
	"errors"
	"time"

	"github.com/influxdata/kapacitor/alert"
	"github.com/influxdata/kapacitor/keyvalue"
	"github.com/influxdata/kapacitor/services/storage"
	vrt "github.com/influxdata/kapacitor/zz_vrt"
)

// verifC09SvcDiag is the service diagnostic: counts errors only.
type verifC09SvcDiag struct{ errors int }

func (d *verifC09SvcDiag) WithHandlerContext(ctx ...keyvalue.T) HandlerDiagnostic { return d }
func (d *verifC09SvcDiag) MigratingHandlerSpecs()                                 {}
func (d *verifC09SvcDiag) FoundHandlerRows(length int)                            {}
func (d *verifC09SvcDiag) FoundNewHandler(key string)                             {}
func (d *verifC09SvcDiag) CreatingNewHandlers(length int)                         {}
func (d *verifC09SvcDiag) MigratingOldHandlerSpec(id string)                      {}
func (d *verifC09SvcDiag) Error(msg string, err error, ctx ...keyvalue.T)         { d.errors++ }
func (d *verifC09SvcDiag) Info(msg string, ctx ...keyvalue.T)                     {}

// verifC09DAO is the handler spec store with the documented contract of HandlerSpecDAO:
// Create fails when the ID exists, Replace when it does not, Delete never.
type verifC09DAO struct{ specs map[string]HandlerSpec }

func (d *verifC09DAO) Get(topic, id string) (HandlerSpec, error) {
	s, ok := d.specs[fullID(topic, id)]
	if !ok {
		return HandlerSpec{}, ErrNoHandlerSpecExists
	}
	return s, nil
}
func (d *verifC09DAO) Create(h HandlerSpec) error {
	if _, ok := d.specs[h.ObjectID()]; ok {
		return ErrHandlerSpecExists
	}
	d.specs[h.ObjectID()] = h
	return nil
}
func (d *verifC09DAO) Replace(h HandlerSpec) error {
	if _, ok := d.specs[h.ObjectID()]; !ok {
		return ErrNoHandlerSpecExists
	}
	d.specs[h.ObjectID()] = h
	return nil
}
func (d *verifC09DAO) Delete(topic, id string) error {
	delete(d.specs, fullID(topic, id))
	return nil
}
func (d *verifC09DAO) List(topic, pattern string, offset, limit int) ([]HandlerSpec, error) {
	return nil, errors.New("not used")
}
func (d *verifC09DAO) GetTx(tx storage.ReadOperator, topic, id string) (HandlerSpec, error) {
	return d.Get(topic, id)
}
func (d *verifC09DAO) CreateTx(tx storage.Tx, h HandlerSpec) error  { return d.Create(h) }
func (d *verifC09DAO) ReplaceTx(tx storage.Tx, h HandlerSpec) error { return d.Replace(h) }
func (d *verifC09DAO) DeleteTx(tx storage.Tx, topic, id string) error {
	return d.Delete(topic, id)
}
func (d *verifC09DAO) ListTx(tx storage.ReadOperator, topic, pattern string, offset, limit int) ([]HandlerSpec, error) {
	return d.List(topic, pattern, offset, limit)
}
func (d *verifC09DAO) Rebuild() error { return nil }

// Engine-side replacement of HandlerSpec.Validate (two regular expressions): the
// documented character classes for the IDs this harness uses (ASCII letters, digits, - . _
// and : in topics).
func verifC09Validate(h HandlerSpec) error {
	ok := func(s string, colon bool) bool {
		if len(s) == 0 {
			return false
		}
		for i := 0; i < len(s); i++ {
			c := s[i]
			if !(c >= 'a' && c <= 'z' || c >= 'A' && c <= 'Z' || c >= '0' && c <= '9' || c == '-' || c == '.' || c == '_' || colon && c == ':') {
				return false
			}
		}
		return true
	}
	if !ok(h.Topic, true) || !ok(h.ID, false) {
		return errors.New("invalid topic or handler ID")
	}
	if h.Kind == "" {
		return errors.New("handler Kind must not be empty")
	}
	return nil
}

// Engine-side replacement of decodeOptions (mapstructure, reflection driven) for the
// publish handler options of this harness.
func verifC09DecodeOptions(options map[string]interface{}, c interface{}) error {
	pc, ok := c.(*PublishHandlerConfig)
	if !ok {
		return errors.New("harness: only publish handlers")
	}
	ts, ok := options["topics"].([]string)
	if !ok {
		return errors.New("harness: topics must be a list of strings")
	}
	pc.Topics = ts
	return nil
}

var verifC09HandlerIDs = []string{"h1", "h2"}
var verifC09Targets = []string{"o1", "o2"}
var verifC09SpecMatches = []string{"", "level() >= WARNING"}

type verifC09SpecModel struct {
	present bool
	target  int
	match   int
}

// VerifC09HandlerSpecs: through any sequence of handler registrations, updates (also
// renaming ones) and removals on a topic, every event collected on the topic is handed
// exactly once to each handler registered at that moment (observed through publish
// handlers republishing to two recording topics), and to no handler that was removed or
// replaced.
func VerifC09HandlerSpecs(v *vrt.T) {
	diag := &verifC09SvcDiag{}
	s := NewService(diag, nil, 0)
	s.specsDAO = &verifC09DAO{specs: map[string]HandlerSpec{}}
	recs := []*verifC09Rec{{}, {}}
	for i, t := range verifC09Targets {
		s.RegisterAnonHandler(t, recs[i])
	}
	var model [2]verifC09SpecModel
	spec := func(id, target, match int) HandlerSpec {
		return HandlerSpec{ID: verifC09HandlerIDs[id], Topic: "src", Kind: "publish", Match: verifC09SpecMatches[match],
			Options: map[string]interface{}{"topics": []string{verifC09Targets[target]}}}
	}
	k := v.Bound("ops", 4)
	events := 0
	for i := 0; i < k; i++ {
		switch v.Choose("op", 4) {
		case 0: // POST handler
			id, target, match := v.Choose("id", 2), v.Choose("target", 2), v.Choose("match", 2)
			err := s.RegisterHandlerSpec(spec(id, target, match))
			v.Assert((err == nil) == !model[id].present, "registering fails exactly when the ID is taken")
			if err == nil {
				model[id] = verifC09SpecModel{true, target, match}
			}
		case 1: // PUT/PATCH handler: the API reads the old spec first (404 when absent)
			old, id, target := v.Choose("old", 2), v.Choose("id", 2), v.Choose("target", 2)
			if !model[old].present {
				continue
			}
			match := 1 - model[old].match // every update changes the match condition
			err := s.UpdateHandlerSpec(spec(old, model[old].target, model[old].match), spec(id, target, match))
			v.Assert((err == nil) == (id == old || !model[id].present), "updating fails exactly when the new ID is taken by another handler")
			if err == nil {
				model[old] = verifC09SpecModel{}
				model[id] = verifC09SpecModel{true, target, match}
			}
		case 2: // DELETE handler
			id := v.Choose("id", 2)
			v.Assert(s.DeregisterHandlerSpec("src", verifC09HandlerIDs[id]) == nil, "removing succeeds")
			model[id] = verifC09SpecModel{}
		default: // an event on the topic
			lvl := alert.Level(v.IntRange("lvl", 0, 3))
			events++
			ev := alert.Event{Topic: "src", State: alert.EventState{ID: "a", Level: lvl, Duration: time.Duration(events)}}
			before := [2]int{len(recs[0].ids), len(recs[1].ids)}
			v.Assert(s.Collect(ev) == nil, "collect succeeds")
			v.Goroutines()
			var want [2]int
			for _, m := range model {
				if m.present && (m.match == 0 || lvl >= alert.Warning) {
					want[m.target]++
				}
			}
			for t := range recs {
				got := recs[t].ids[before[t]:]
				v.Assert(len(got) == want[t], "the event is handed exactly once to each handler registered now, and to no other")
				for _, g := range got {
					v.Assert(g == events, "only the collected event is handed on")
				}
			}
		}
	}
	v.Assert(diag.errors == 0, "no errors logged")
	v.Observe("delivered", len(recs[0].ids), len(recs[1].ids))
	v.Reach("end")
}
