package alert

import (
	"github.com/influxdata/kapacitor/alert"
	vrt "github.com/influxdata/kapacitor/zz_vrt"
)

// VerifC09ConcurrentClosedTopic: a topic whose alert node was stopped is closed; the next
// event published to it restores it from the store. Two tasks publish to the closed topic
// concurrently (goroutine switches explored at every lock acquisition): whatever the
// interleaving, the topic is restored once and both events are in its state afterwards -
// no event already collected is wiped by a second restore.
func VerifC09ConcurrentClosedTopic(v *vrt.T) {
	db := verifC08NewDB(&verifC08Node{})
	s := verifC08Start(v, db)
	// history before the stop: ID "c" firing (persisted)
	v.Assert(s.Collect(alert.Event{Topic: "t", State: alert.EventState{ID: "c", Level: alert.Warning, Message: "m"}}) == nil, "collect")
	v.Assert(s.CloseTopic("t") == nil, "topic closed")

	lvlA, lvlB := alert.Level(v.IntRange("lvlA", 1, 3)), alert.Level(v.IntRange("lvlB", 1, 3))
	done := make(chan struct{}, 2)
	start := make(chan struct{})
	go func() {
		<-start
		s.Collect(alert.Event{Topic: "t", State: alert.EventState{ID: "a", Level: lvlA, Message: "a"}})
		done <- struct{}{}
	}()
	go func() {
		<-start
		s.Collect(alert.Event{Topic: "t", State: alert.EventState{ID: "b", Level: lvlB, Message: "b"}})
		done <- struct{}{}
	}()
	close(start)
	<-done
	<-done
	t, ok := s.topics.Topic("t")
	v.Assert(ok, "the topic is open again")
	if !ok {
		return
	}
	sa, okA := t.EventState("a")
	sb, okB := t.EventState("b")
	sc, okC := t.EventState("c")
	v.Observe("present", okA, okB, okC)
	v.Assert(okA && okB, "both published events are in the topic state")
	v.Assert(okC && sc.Level == alert.Warning, "the state from before the stop is restored")
	if okA && okB {
		v.Assert(sa.Level == lvlA && sb.Level == lvlB, "each ID holds its own level")
		max := alert.Warning
		if lvlA > max {
			max = lvlA
		}
		if lvlB > max {
			max = lvlB
		}
		v.Assert(t.MaxLevel() == max, "topic level is the maximum")
	}
	v.Reach("end")
}
