package alert

import (
	kexpvar "github.com/influxdata/kapacitor/expvar"
	vrt "github.com/influxdata/kapacitor/zz_vrt"
)

// Overrides for server/vars (uuid / process-global registry are not encodable and are not
// part of the property).
func verifNewStatistic(name string, tags map[string]string) (string, *kexpvar.Map) {
	m := &kexpvar.Map{}
	m.Init()
	return "verif-stat", m
}
func verifDeleteStatistic(key string) {}

// VerifC09UpdateStep: inductive step of Topic.updateEvent from an arbitrary valid topic
// (n <= 3 events, symbolic 1-byte IDs and levels, `sorted` ordered as the comparator
// orders it), one update with symbolic ID (existing or new) and level.
func VerifC09UpdateStep(v *vrt.T) {
	n := v.Choose("n", 4)
	t := &Topic{id: "t", events: map[string]*EventState{}, collected: new(kexpvar.Int)}
	var model []EventState
	for i := 0; i < n; i++ {
		e := &EventState{ID: v.String("id", 1), Level: Level(v.IntRange("lvl", 0, 3)), Message: "m"}
		if i > 0 {
			p := t.sorted[i-1]
			// strictly increasing in the comparator's order => distinct IDs, valid `sorted`
			v.Assume(p.Level > e.Level || (p.Level == e.Level && p.ID < e.ID))
			for _, q := range t.sorted {
				v.Assume(q.ID != e.ID) // one state per ID
			}
		}
		t.events[e.ID] = e
		t.sorted = append(t.sorted, e)
		model = append(model, *e)
	}
	upd := EventState{ID: v.String("newid", 1), Level: Level(v.IntRange("newlvl", 0, 3)), Message: "new"}
	prev, hasPrev := t.updateEvent(upd)

	// reference
	wantPrev, wantHas := EventState{}, false
	found := false
	for i := range model {
		if model[i].ID == upd.ID {
			wantPrev, wantHas = model[i], true
			model[i] = upd
			found = true
		}
	}
	if !found {
		model = append(model, upd)
	}
	v.Assert(hasPrev == wantHas, "previous state reported iff the ID was known")
	if hasPrev && wantHas {
		v.Assert(prev.Level == wantPrev.Level && prev.ID == wantPrev.ID && prev.Message == wantPrev.Message, "previous state is the preceding state of that ID")
	}
	v.Assert(len(t.sorted) == len(model) && len(t.events) == len(model), "one entry per ID")
	max := OK
	for _, m := range model {
		if m.Level > max {
			max = m.Level
		}
		cur, ok := t.events[m.ID]
		v.Assert(ok && cur.Level == m.Level && cur.Message == m.Message, "map holds the last state of every ID")
		inSorted := 0
		for _, s := range t.sorted {
			if s == cur {
				inSorted++
			}
		}
		v.Assert(inSorted == 1, "sorted lists every event exactly once")
	}
	v.Observe("max", int(t.MaxLevel()))
	v.Assert(t.MaxLevel() == max, "topic level is the maximum event level")
	min := Level(v.IntRange("min", 0, 3))
	got := t.EventStates(min)
	cnt := 0
	for _, m := range model {
		e, ok := got[m.ID]
		if m.Level >= min {
			cnt++
			v.Assert(ok && e.Level == m.Level, "listing with a minimum level returns every event at or above it")
		} else {
			v.Assert(!ok, "listing with a minimum level returns no event below it")
		}
	}
	v.Assert(len(got) == cnt, "listing returns nothing else")
	for i := 1; i < len(t.sorted); i++ {
		p, e := t.sorted[i-1], t.sorted[i]
		v.Assert(p.Level > e.Level || (p.Level == e.Level && p.ID < e.ID), "sorted invariant re-established")
	}
	v.Reach("end")
}

type verifSeen struct {
	topic, id string
	level     Level
	prevLevel Level
	prevKnown bool
}

type verifRecHandler struct {
	name string
	seen []verifSeen
}

func (h *verifRecHandler) Handle(e Event) {
	h.seen = append(h.seen, verifSeen{e.Topic, e.State.ID, e.State.Level, e.previousState.Level, e.previousState.ID != ""})
}

// VerifC09Delivery: every event collected on a topic is handed exactly once, FIFO, with the
// right previous state, to each handler registered on that topic at that moment, and to no
// handler of another topic.
func VerifC09Delivery(v *vrt.T) {
	ts := NewTopics(0)
	topics := []string{"t1", "t2"}
	hs := []*verifRecHandler{{name: "h1"}, {name: "h2"}}
	want := [2][2][]verifSeen{} // want[handler][topic]: FIFO is per handler registration (one buffer per topic)
	reg := [2][2]bool{}         // reg[topic][handler]
	last := []map[string]Level{{}, {}}
	k := v.Bound("ops", 4)
	for step := 0; step < k; step++ {
		ti := v.Choose("topic", 2)
		switch v.Choose("op", 4) {
		case 0, 1: // collect (twice as likely to be chosen structurally; both alternatives are explored)
			id := v.String("id", 1)
			lvl := Level(v.IntRange("lvl", 0, 3))
			err := ts.Collect(Event{Topic: topics[ti], State: EventState{ID: id, Level: lvl}})
			v.Assert(err == nil, "collect succeeds")
			pl, known := last[ti][id]
			for hi := 0; hi < 2; hi++ {
				if reg[ti][hi] {
					want[hi][ti] = append(want[hi][ti], verifSeen{topics[ti], id, lvl, pl, known})
				}
			}
			last[ti][id] = lvl
		case 2:
			hi := v.Choose("handler", 2)
			ts.RegisterHandler(topics[ti], hs[hi])
			reg[ti][hi] = true
		case 3:
			hi := v.Choose("handler", 2)
			ts.DeregisterHandler(topics[ti], hs[hi])
			reg[ti][hi] = false
		}
	}
	v.Goroutines() // let the buffered handlers drain
	for hi := 0; hi < 2; hi++ {
		v.Observe("delivered", len(hs[hi].seen))
		for ti := 0; ti < 2; ti++ {
			var got []verifSeen
			for _, g := range hs[hi].seen {
				if g.topic == topics[ti] {
					got = append(got, g)
				}
			}
			w := want[hi][ti]
			v.Assert(len(got) == len(w), "handler received exactly the events of its topic while registered")
			if len(got) == len(w) {
				for i := range w {
					v.Assert(got[i].id == w[i].id && got[i].level == w[i].level, "events of a topic arrive in collection order")
					v.Assert(got[i].prevKnown == w[i].prevKnown && (!w[i].prevKnown || got[i].prevLevel == w[i].prevLevel), "previous level is the level of the preceding event with the same ID")
				}
			}
		}
	}
	v.Reach("end")
}

// VerifC09ConcurrentCollect: two tasks publish their first event to the same (new) topic
// concurrently, a third party registers a handler; goroutine switches are explored at every
// lock acquisition (bounded number of preemptions). Whatever the interleaving: one topic,
// both events counted and visible, each with the right previous state, and a registered
// handler is not lost.
func VerifC09ConcurrentCollect(v *vrt.T) {
	ts := NewTopics(0)
	h := &verifRecHandler{name: "h"}
	idA, idB := v.String("idA", 1), v.String("idB", 1)
	lvlA, lvlB := Level(v.IntRange("lvlA", 0, 3)), Level(v.IntRange("lvlB", 0, 3))
	withReg := v.Choose("register", 2) == 1
	done := make(chan struct{}, 3)
	start := make(chan struct{}) // released together so that the native run really races
	n := 2
	go func() {
		<-start
		ts.Collect(Event{Topic: "t", State: EventState{ID: idA, Level: lvlA, Message: "a"}})
		done <- struct{}{}
	}()
	go func() {
		<-start
		ts.Collect(Event{Topic: "t", State: EventState{ID: idB, Level: lvlB, Message: "b"}})
		done <- struct{}{}
	}()
	if withReg {
		n = 3
		go func() {
			<-start
			ts.RegisterHandler("t", h)
			done <- struct{}{}
		}()
	}
	close(start)
	for i := 0; i < n; i++ {
		<-done
	}
	t, ok := ts.Topic("t")
	v.Assert(ok, "topic exists")
	if !ok {
		return
	}
	v.Observe("collected", t.Collected())
	v.Assert(t.Collected() == 2, "both events are counted on the one topic")
	sa, okA := t.EventState(idA)
	sb, okB := t.EventState(idB)
	v.Assert(okA && okB, "both events are visible in the topic state")
	if idA != idB && okA && okB {
		v.Assert(sa.Level == lvlA && sb.Level == lvlB, "each ID holds its own level")
		max := lvlA
		if lvlB > max {
			max = lvlB
		}
		v.Assert(t.MaxLevel() == max, "topic level is the maximum")
	}
	if withReg {
		// the handler must be attached to the surviving topic: a later event reaches it
		ts.Collect(Event{Topic: "t", State: EventState{ID: "z", Level: Critical}})
		v.Goroutines()
		got := false
		for _, s := range h.seen {
			if s.id == "z" {
				got = true
			}
		}
		v.Assert(got, "a handler registered during the race receives later events")
	}
	v.Reach("end")
}

// verifBlockedHandler never returns from its first Handle until released.
type verifBlockedHandler struct {
	release chan struct{}
	seen    int
}

func (h *verifBlockedHandler) Handle(e Event) {
	<-h.release
	h.seen++
}

// VerifC09Saturation: a handler whose buffer is full (a slow or blocked handler: events for
// it are dropped, as documented) does not affect the other handlers of the topic: they
// still receive every collected event exactly once, in order. The topics use the smallest
// event buffer the daemon accepts (MinimumEventBufferSize); the blocked handler is
// registered before or after the recording one; the buffer overflows by `extra` events.
func VerifC09Saturation(v *vrt.T) {
	ts := NewTopics(MinimumEventBufferSize)
	blocked := &verifBlockedHandler{release: make(chan struct{})}
	rec := &verifRecHandler{name: "rec"}
	if v.Choose("blocked handler registered first", 2) == 1 {
		ts.RegisterHandler("t", blocked)
		ts.RegisterHandler("t", rec)
	} else {
		ts.RegisterHandler("t", rec)
		ts.RegisterHandler("t", blocked)
	}
	extra := v.Bound("extra", 3)
	k := MinimumEventBufferSize + 1 + extra // one event is held by the blocked Handle call
	var lvls []Level
	for i := 0; i < k; i++ {
		lvl := Warning
		if i >= k-extra {
			lvl = Level(v.IntRange("lvl", 0, 3)) // the events past the full buffer
		}
		lvls = append(lvls, lvl)
		// the error of a full buffer is reported to the collector; the event is collected
		_ = ts.Collect(Event{Topic: "t", State: EventState{ID: "a", Level: lvl}})
		if i%100 == 99 || i >= k-extra-2 {
			v.Goroutines() // the recording handler keeps up (its own buffer never fills)
		}
	}
	v.Goroutines()
	v.Observe("delivered", len(rec.seen))
	v.Assert(len(rec.seen) == k, "the other handler receives every collected event although one handler's buffer is full")
	if len(rec.seen) == k {
		for i := k - extra; i < k; i++ {
			v.Assert(rec.seen[i].level == lvls[i], "in collection order")
		}
	}
	st, ok := ts.Topic("t")
	v.Assert(ok && st.Collected() == int64(k), "every event is counted as collected")
	close(blocked.release)
	v.Goroutines()
	v.Reach("end")
}
