package udf

import (
	"io"
	"math"

	"github.com/influxdata/kapacitor/edge"
	"github.com/influxdata/kapacitor/models"
	"github.com/influxdata/kapacitor/udf/agent"
	vrt "github.com/influxdata/kapacitor/zz_vrt"
)

// verifGen generates symbolic points / batches and remembers whether any string handed
// out is not valid UTF-8 (the class of the known finding C19-udf-non-utf8-string).
type verifGen struct {
	v    *vrt.T
	high byte // OR of all string bytes handed out
}

// str: a string of one arbitrary byte. (A 1-byte string is valid UTF-8 iff the byte is
// < 0x80; collected without branching.)
func (g *verifGen) str(s string) string {
	g.high |= s[0]
	return s
}

func (g *verifGen) badUTF8() bool { return g.high&0x80 != 0 }

const verifTimeSpan = int64(1) << 62 // instants within +-2^62 ns of the epoch (1823..2116)

// value: a field value of kind k (the four kinds of the UDF protocol), arbitrary content.
func (g *verifGen) value(k int) interface{} {
	switch k {
	case 0:
		return g.v.Int64("int value")
	case 1:
		return g.v.Float64("float value")
	case 2:
		return g.str(g.v.String("string value", 1))
	default:
		return g.v.Bool("bool value")
	}
}

// verifSameValue: same dynamic type and same value (floats bit for bit, so that NaN
// payloads and the sign of zero count).
func verifSameValue(a, b interface{}) bool {
	switch x := a.(type) {
	case int64:
		y, ok := b.(int64)
		return ok && x == y
	case float64:
		y, ok := b.(float64)
		return ok && math.Float64bits(x) == math.Float64bits(y)
	case string:
		y, ok := b.(string)
		return ok && x == y
	case bool:
		y, ok := b.(bool)
		return ok && x == y
	}
	return false
}

func verifSameFields(a, b models.Fields) bool {
	if len(a) != len(b) {
		return false
	}
	for k, x := range a {
		y, ok := b[k]
		if !ok || !verifSameValue(x, y) {
			return false
		}
	}
	return true
}

func verifSameTags(a, b models.Tags) bool {
	if len(a) != len(b) {
		return false
	}
	for k, x := range a {
		y, ok := b[k]
		if !ok || x != y {
			return false
		}
	}
	return true
}

func verifSameDims(a, b models.Dimensions) bool {
	if a.ByName != b.ByName || len(a.TagNames) != len(b.TagNames) {
		return false
	}
	for i := range a.TagNames {
		if a.TagNames[i] != b.TagNames[i] {
			return false
		}
	}
	return true
}

// verifEchoAll plays the echo UDF: every frame the server wrote is read back with
// agent.ReadMessage and answered with the same data message, which the server handles.
func verifEchoAll(v *vrt.T, s *Server, out *verifOut) {
	r := &verifByteReader{data: out.data}
	var buf []byte
	for {
		req := new(agent.Request)
		err := agent.ReadMessage(&buf, r, req)
		if err == io.EOF {
			return
		}
		v.Assert(err == nil, "every frame written by the server is a readable request")
		resp := verifEcho(req)
		v.Assert(resp != nil, "the server wrote a data message")
		v.Assert(s.handleResponse(resp) == nil, "the echoed message is accepted")
	}
}

type verifByteReader struct {
	data []byte
	pos  int
}

func (r *verifByteReader) Read(p []byte) (int, error) {
	if r.pos == len(r.data) {
		return 0, io.EOF
	}
	n := copy(p, r.data[r.pos:])
	r.pos += n
	return n, nil
}

func (r *verifByteReader) ReadByte() (byte, error) {
	if r.pos == len(r.data) {
		return 0, io.EOF
	}
	b := r.data[r.pos]
	r.pos++
	return b, nil
}

// VerifC19PointFidelity: stream points sent through an echoing UDF (writePoint -> frames
// -> echo -> handleResponse) come back identical and in order (C19, stream part).
func VerifC19PointFidelity(v *vrt.T) {
	verifWire = nil
	g := &verifGen{v: v}
	s, out, _ := verifNewServer()
	n := v.Bound("points", 2)
	var sent []edge.PointMessage
	for i := 0; i < n; i++ {
		var p edge.PointMessage
		if i == 0 {
			// the rich point: every attribute arbitrary, every shape
			tags := models.Tags{}
			var dims models.Dimensions
			switch v.Choose("tags", 3) {
			case 1: // a tag that is not a dimension
				tags[g.str(v.String("tag key", 1))] = g.str(v.String("tag value", 1))
			case 2: // grouped by a tag
				k := g.str(v.String("tag key", 1))
				tags[k] = g.str(v.String("tag value", 1))
				dims.TagNames = []string{k}
			}
			dims.ByName = v.Bool("by name")
			fields := models.Fields{}
			fields[g.str(v.String("field key", 1))] = g.value(v.Choose("kind", 4))
			if k2 := v.Choose("second field", 5); k2 > 0 {
				fields["g"] = g.value(k2 - 1)
			}
			p = edge.NewPointMessage(
				g.str(v.String("name", 1)), g.str(v.String("db", 1)), g.str(v.String("rp", 1)),
				dims, fields, tags, v.Time("time", -verifTimeSpan, verifTimeSpan))
		} else {
			p = edge.NewPointMessage(
				g.str(v.String("name", 1)), "db", "rp", models.Dimensions{},
				models.Fields{"x": v.Int64("x")}, nil, v.Time("time", -verifTimeSpan, verifTimeSpan))
		}
		err := s.writePoint(p)
		v.AssertKnown(err == nil, "the point is sent to the UDF", g.badUTF8(), "C19-udf-non-utf8-string")
		sent = append(sent, p)
	}
	// Stop() first announces the shutdown (closes s.stopping) and then closes the UDF's
	// input and waits for the reader to drain: responses that arrive in between (a UDF that
	// flushes when its input closes) are still delivered.
	stopping := v.Choose("responses arrive while the server is stopping", 2) == 1
	if stopping {
		close(s.stopping)
	}
	verifEchoAll(v, s, out)
	got := verifCollect(s)
	v.Assert(len(got) == len(sent), "as many points come back as were sent")
	for i, m := range got {
		q, ok := m.(edge.PointMessage)
		v.Assert(ok, "a point comes back as a point")
		p := sent[i]
		v.Assert(q.Name() == p.Name(), "same name")
		v.Assert(q.Database() == p.Database(), "same database")
		v.Assert(q.RetentionPolicy() == p.RetentionPolicy(), "same retention policy")
		v.Assert(q.GroupID() == p.GroupID(), "same group")
		v.Assert(verifSameDims(q.Dimensions(), p.Dimensions()), "same dimensions")
		v.Assert(verifSameTags(q.Tags(), p.Tags()), "same tags")
		v.Assert(verifSameFields(p.Fields(), q.Fields()), "same field names, values and types")
		v.Assert(q.Time().Equal(p.Time()), "same time")
	}
	v.Observe("points", len(got), got[0].(edge.PointMessage).Time(), string(got[0].(edge.PointMessage).GroupID()))
	if !stopping {
		close(s.stopping)
	}
	v.Reach("end")
}

// VerifC19BatchFidelity: batches sent through an echoing UDF (writeBufferedBatch ->
// frames -> echo -> handleResponse) come back as the same batches: same name, group,
// tags, dimensions, tmax, the same points in order, and the same batch boundaries
// (C19, batch part).
func VerifC19BatchFidelity(v *vrt.T) {
	verifWire = nil
	g := &verifGen{v: v}
	s, out, _ := verifNewServer()
	nb := v.Bound("batches", 2)
	maxpts := v.Bound("batchpoints", 2)
	var sent []edge.BufferedBatchMessage
	for i := 0; i < nb; i++ {
		var gtags models.Tags
		np := 0
		if i == 0 {
			if v.Bool("grouped") {
				gtags = models.Tags{g.str(v.String("group key", 1)): g.str(v.String("group value", 1))}
			}
			np = v.Choose("batch points", maxpts+1)
		} else {
			np = v.Choose("batch points", 2)
		}
		var pts []edge.BatchPointMessage
		for j := 0; j < np; j++ {
			tags := gtags.Copy()
			fields := models.Fields{}
			if i == 0 && j == 0 {
				if v.Bool("extra tag") {
					tags["x"] = g.str(v.String("extra tag value", 1))
				}
				fields[g.str(v.String("field key", 1))] = g.value(v.Choose("kind", 4))
				if k2 := v.Choose("second field", 5); k2 > 0 {
					fields["g"] = g.value(k2 - 1)
				}
			} else {
				fields["x"] = v.Int64("x")
			}
			pts = append(pts, edge.NewBatchPointMessage(fields, tags, v.Time("time", -verifTimeSpan, verifTimeSpan)))
		}
		b := edge.NewBufferedBatchMessage(
			edge.NewBeginBatchMessage(g.str(v.String("name", 1)), gtags, v.Bool("by name"), v.Time("tmax", -verifTimeSpan, verifTimeSpan), np),
			pts, edge.NewEndBatchMessage())
		err := s.writeBufferedBatch(b)
		v.AssertKnown(err == nil, "the batch is sent to the UDF", g.badUTF8(), "C19-udf-non-utf8-string")
		sent = append(sent, b)
	}
	verifEchoAll(v, s, out)
	got := verifCollect(s)
	v.Assert(len(got) == len(sent), "as many batches come back as were sent")
	npts := 0
	for i, m := range got {
		q, ok := m.(edge.BufferedBatchMessage)
		v.Assert(ok, "a batch comes back as a batch")
		p := sent[i]
		v.Assert(q.Name() == p.Name(), "same name")
		v.Assert(q.GroupID() == p.GroupID(), "same group")
		v.Assert(verifSameDims(q.Dimensions(), p.Dimensions()), "same dimensions")
		v.Assert(verifSameTags(q.Tags(), p.Tags()), "same tags")
		v.Assert(q.Time().Equal(p.Time()), "same tmax")
		v.Assert(len(q.Points()) == len(p.Points()), "same batch boundaries")
		for j, qp := range q.Points() {
			pp := p.Points()[j]
			v.Assert(verifSameFields(pp.Fields(), qp.Fields()), "same field names, values and types")
			v.Assert(verifSameTags(qp.Tags(), pp.Tags()), "same point tags")
			v.Assert(qp.Time().Equal(pp.Time()), "same point time")
			npts++
		}
	}
	v.Observe("batches", len(got), npts, got[0].(edge.BufferedBatchMessage).Time(), string(got[0].(edge.BufferedBatchMessage).GroupID()))
	close(s.stopping)
	v.Reach("end")
}
