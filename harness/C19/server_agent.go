package udf

import (
	"bufio"
	"errors"
	"io"
	"time"

	"github.com/influxdata/kapacitor/edge"
	"github.com/influxdata/kapacitor/models"
	"github.com/influxdata/kapacitor/udf/agent"
	vrt "github.com/influxdata/kapacitor/zz_vrt"
	"google.golang.org/protobuf/proto"
)

// Engine-side protobuf replacement for BOTH directions (requests and responses): the
// message is remembered in a side table, the frame payload is a one-byte reference. Every
// decode hands out a fresh top-level message (as the real runtime fills the target).
var verifWireBoth []proto.Message

func verifBothMarshal(m proto.Message) ([]byte, error) {
	switch x := m.(type) {
	case *agent.Request:
		verifWireBoth = append(verifWireBoth, &agent.Request{Message: x.Message})
	case *agent.Response:
		verifWireBoth = append(verifWireBoth, &agent.Response{Message: x.Message})
	default:
		return nil, errors.New("verif: message type not modelled")
	}
	return []byte{byte(len(verifWireBoth) - 1)}, nil
}

func verifBothUnmarshal(b []byte, m proto.Message) error {
	if len(b) != 1 || int(b[0]) >= len(verifWireBoth) {
		return errors.New("verif: unknown frame")
	}
	switch dst := m.(type) {
	case *agent.Request:
		src, ok := verifWireBoth[b[0]].(*agent.Request)
		if !ok {
			return errors.New("verif: a response where a request was expected")
		}
		dst.Message = src.Message
	case *agent.Response:
		src, ok := verifWireBoth[b[0]].(*agent.Response)
		if !ok {
			return errors.New("verif: a request where a response was expected")
		}
		dst.Message = src.Message
	}
	return nil
}

// verifMirror is the echoing UDF built on the real agent library.
type verifMirror struct {
	a    *agent.Agent
	snap []byte
}

func (h *verifMirror) Info() (*agent.InfoResponse, error) {
	return &agent.InfoResponse{Wants: agent.EdgeType_STREAM, Provides: agent.EdgeType_STREAM}, nil
}
func (h *verifMirror) Init(r *agent.InitRequest) (*agent.InitResponse, error) {
	return &agent.InitResponse{Success: true}, nil
}
func (h *verifMirror) Snapshot() (*agent.SnapshotResponse, error) {
	return &agent.SnapshotResponse{Snapshot: h.snap}, nil
}
func (h *verifMirror) Restore(r *agent.RestoreRequest) (*agent.RestoreResponse, error) {
	h.snap = r.Snapshot
	return &agent.RestoreResponse{Success: true}, nil
}
func (h *verifMirror) BeginBatch(b *agent.BeginBatch) error { return nil }
func (h *verifMirror) EndBatch(b *agent.EndBatch) error     { return nil }
func (h *verifMirror) Point(p *agent.Point) error {
	h.a.Responses <- &agent.Response{Message: &agent.Response_Point{Point: p}}
	return nil
}
func (h *verifMirror) Stop() { close(h.a.Responses) }

// VerifC19ServerAgent: a real udf.Server connected by pipes to an in-process echo UDF
// built on the real agent library (all reader/writer goroutines of both sides, the framing
// in both directions): init, k points with symbolic values interleaved with a keepalive
// request and a snapshot request at a chosen position: every point comes back identical,
// in order; the snapshot returns the bytes the UDF supplied; stop completes on both sides.
func VerifC19ServerAgent(v *vrt.T) {
	verifWireBoth = nil
	sr, aw := io.Pipe() // agent -> server
	ar, sw := io.Pipe() // server -> agent
	a := agent.New(ar, aw)
	snap := []byte{v.Byte("snapshot byte"), 7}
	a.Handler = &verifMirror{a: a, snap: snap}
	v.Assert(a.Start() == nil, "agent started")
	waitErr := make(chan error, 1)
	go func() { waitErr <- a.Wait() }() // the UDF process' main: start, then wait
	s := NewServer("task", "node", bufio.NewReader(sr), sw, &verifDiag{}, 0, nil, nil)
	v.Assert(s.Start() == nil, "server started")
	v.Assert(s.Init(nil) == nil, "init acknowledged")

	k := v.Bound("points", 2)
	when := v.Choose("keepalive and snapshot before point", k+1)
	var keepaliveSent, overlap chan struct{}
	overlapOK := false
	for i := 0; i <= k; i++ {
		if i == when {
			if v.Choose("keepalive", 2) == 1 {
				// as runKeepalive does it (which is part of requestsGroup: Stop waits for it
				// before closing the requests channel - the harness waits for the hand-over
				// before it calls Stop)
				keepaliveSent = make(chan struct{})
				go func() {
					s.requests <- &agent.Request{Message: &agent.Request_Keepalive{Keepalive: &agent.KeepaliveRequest{Time: 5}}}
					close(keepaliveSent)
				}()
			}
			if i < k && v.Choose("snapshot overlaps the next point", 2) == 1 {
				// the snapshot is requested while the next point is already on its way: the
				// snapshot response is followed closely by the point's response
				overlap = make(chan struct{})
				go func() {
					got, err := s.Snapshot()
					overlapOK = err == nil && len(got) == 2 && got[0] == snap[0] && got[1] == 7
					close(overlap)
				}()
			} else {
				got, err := s.Snapshot()
				v.Assert(err == nil && len(got) == 2 && got[0] == snap[0] && got[1] == 7, "snapshot returns the bytes the UDF supplied")
			}
		}
		if i == k {
			break
		}
		x := v.Int64("value")
		p := edge.NewPointMessage("m", "db", "rp", models.Dimensions{}, models.Fields{"x": x}, models.Tags{"h": "a"}, time.Unix(0, int64(1000+i)).UTC())
		s.In() <- p
		m := <-s.Out()
		q, ok := m.(edge.PointMessage)
		v.Assert(ok && q.Name() == "m" && q.Fields()["x"] == interface{}(x) && q.Tags()["h"] == "a" && q.Time().UnixNano() == int64(1000+i), "the point comes back identical, in order")
		if overlap != nil {
			<-overlap
			v.Assert(overlapOK, "snapshot returns the bytes the UDF supplied (requested while a point was on its way)")
			overlap = nil
		}
	}
	if keepaliveSent != nil {
		<-keepaliveSent
	}
	v.Assert(s.Stop() == nil, "stop completes without error")
	v.Assert(<-waitErr == nil, "the agent terminates without error")
	v.Assert(v.Goroutines() == 0, "no goroutine left on either side")
	v.Reach("end")
}
