package agent

import (
	"bufio"
	"io"

	vrt "github.com/influxdata/kapacitor/zz_vrt"
)

// Payload lengths: both sides of the 1->2 byte (127|128) and 2->3 byte (16383|16384)
// boundary of the varint length prefix. The tier bound "lens" says how many are used.
var verifFrameLens = []int{0, 1, 127, 128, 129, 2, 126, 130, 255, 256, 300, 16384, 16383}

// verifFramePayload: a payload of n bytes; the first, the last and the middle byte are
// arbitrary (sym), the others a fixed non-constant pattern.
func verifFramePayload(n int, sym []byte) []byte {
	p := make([]byte, n)
	for i := range p {
		p[i] = byte(i*7 + 1)
	}
	if n >= 1 {
		p[0] = sym[0]
	}
	if n >= 2 {
		p[n-1] = sym[1]
	}
	if n >= 3 {
		p[n/2] = sym[2]
	}
	return p
}

// VerifC19Framing: two messages written back to back with WriteMessage are read back by
// ReadMessage as the same two payloads with the same boundaries, then io.EOF, however the
// byte stream is fragmented into reads (C19, framing part).
func VerifC19Framing(v *vrt.T) {
	nl := v.Bound("lens", 5)
	l1 := verifFrameLens[v.Choose("len1", nl)]
	l2 := verifFrameLens[v.Choose("len2", nl)]
	p1 := verifFramePayload(l1, v.Bytes("p1", min(l1, 3)))
	p2 := verifFramePayload(l2, v.Bytes("p2", min(l2, 3)))
	// a third, short message after the two (a keepalive after data): a reader that takes
	// more than the current frame swallows its bytes
	third := v.Choose("third", 2) == 1
	p3 := []byte{}
	if third {
		p3 = v.Bytes("p3", 1)
	}

	w := &verifSink{}
	err1 := WriteMessage(&verifMsg{payload: p1}, w)
	err2 := WriteMessage(&verifMsg{payload: p2}, w)
	v.Assert(err1 == nil && err2 == nil, "WriteMessage succeeds")
	if third {
		v.Assert(WriteMessage(&verifMsg{payload: p3}, w) == nil, "WriteMessage succeeds")
	}
	v.Observe("stream", len(w.data))

	// the reading side: the stream arrives in fragments; as in udf.go the reader may be
	// a bufio.Reader (default size 4096, or the minimum 16) on top of the pipe.
	fr := &verifFragReader{v: v, data: w.data, short: v.Bound("short", 3), empty: v.Bound("empty", 1)}
	var r ByteReadReader = fr
	switch v.Choose("reader", 3) {
	case 1:
		r = bufio.NewReaderSize(fr, 16)
	case 2:
		r = bufio.NewReader(fr)
	}
	var buf []byte // shared receive buffer, as Server.responseBuf
	m1, m2, m3 := &verifMsg{}, &verifMsg{}, &verifMsg{}
	e1 := ReadMessage(&buf, r, m1)
	v.Assert(e1 == nil, "first message is read without error")
	v.Assert(verifSameBytes(m1.payload, p1), "first message read back identical")
	e2 := ReadMessage(&buf, r, m2)
	v.Assert(e2 == nil, "second message is read without error")
	v.Assert(verifSameBytes(m2.payload, p2), "second message read back identical")
	if third {
		mt := &verifMsg{}
		et := ReadMessage(&buf, r, mt)
		v.Assert(et == nil, "third message is read without error")
		v.Assert(verifSameBytes(mt.payload, p3), "third message read back identical")
	}
	e3 := ReadMessage(&buf, r, m3)
	v.Assert(e3 == io.EOF, "the stream ends exactly after the last message")
	v.Observe("got", len(m1.payload), len(m2.payload), e3 == io.EOF)
	if l1 > 0 {
		v.Observe("first byte", m1.payload[0])
	}
	v.Reach("end")
}
