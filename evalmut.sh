#!/bin/bash
# evalmut.sh <property-id> <patch.diff> [tier] : run a check against a scratch worktree of /repo with a seeded change applied.
# Prints the verdict; never touches /repo itself.
set -uo pipefail
id="$1"; diff="$2"; tier="${3:-quick}"
W=/tmp/evalrepo-$$
git -C /repo worktree add -q --detach "$W" HEAD || exit 3
trap 'git -C /repo worktree remove --force "$W" >/dev/null 2>&1' EXIT
if ! git -C "$W" apply "$diff"; then echo "PATCH-DOES-NOT-APPLY"; exit 3; fi
cd /verif
VERIF_EVIDENCE_DIR=/tmp/evalmut-ev-$$ VERIF_REPLAY_DIR=/tmp/evalmut-rp-$$ VERIF_REPO="$W" timeout ${EVAL_TIMEOUT:-1800} ./check "$id" "$tier" ${EVAL_ARGS:-} > /tmp/evalmut-$$.log 2>&1
rc=$?
grep -E "^VIOLATION|^KNOWN-FINDING|^OK |CHECK-BROKEN|^  - |^  harness=" /tmp/evalmut-$$.log | cut -c1-260 | head -20
echo "EXIT=$rc"
rm -rf /tmp/evalmut-$$.log /tmp/evalmut-ev-$$ /tmp/evalmut-rp-$$
