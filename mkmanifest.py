#!/usr/bin/env python3
"""Regenerates MANIFEST.json from the table below (kept in one place so that the
not_applicable list is always the complement of the claimed checks)."""
import json, os
HERE = os.path.dirname(os.path.abspath(__file__))
props = [json.loads(l)["id"] for l in open(os.path.join(HERE, "properties.jsonl"))]

TECH = "bounded symbolic execution of the real Go code (go/ssa interpreter, own engine) + SMT (z3 5.1): per-path verdict over all symbolic input values; counterexamples replayed natively"
NOTE = ("Trusted: the gosym interpreter and its intrinsics (validated on every run by replaying sampled solver models natively and comparing observations), "
        "z3, go/ssa, the stub libflux, and the reference oracle written in the harness. Bounds (sizes, steps, byte counts) are per harness in the evidence file; "
        "nothing outside them is claimed. Goroutine interleavings are not explored.")

claimed = {
 "C01": ("DESIGN.md §4 C01", "Real alertState.Point/BatchPoint/BufferedBatch/determineLevel/addEvent/triggered/updateExpired/updateFlapping with stub level expressions reading symbolic condition bits, symbolic times/intervals, all 27 level/reset configurations, stateChangesOnly, noRecoveries, all(), history 2..5, flapping, against a reference step function written from the documentation: level, emission, event level/time/duration, forwarded point; the documented worked example with real lambdas."),
 "C11": ("DESIGN.md §4 C11", "influxqlGroup receivers driven directly (nodes built through the real pipeline chaining methods) for count/sum/min/max/first/last/mean/spread (batch and stream), median/mode/percentile/distinct/stddev typing, elapsed/difference/cumulativeSum/movingAverage, with symbolic int64/float64 values, two consecutive batches with the kind chosen per batch, usePointTimes and as(): value, kind, time, name, tags, empty-batch rule; kind history numeric -> string/bool -> numeric. Known findings: median midpoint overflow, float movingAverage drift (InfluxDB reducers)."),
 "C10": ("DESIGN.md §4 C10", "One harness per node (default, delete, shift, sample, derivative, changeDetect, where, stateCount/stateDuration, eval, groupBy point and batch, flatten, combine) calling the node's real receiver methods on symbolic points (field kinds by Choose, symbolic values/tags/times) against the documented transformation, plus the frame property (every input message, its field map and tag map unchanged after the call)."),
 "C18": ("DESIGN.md §4 C18", "Stream recording path end to end: WritePointForRecording -> bytes -> ReplayStreamFromIO (bufio.Scanner, line-protocol parser, replay loop interpreted) with symbolic bytes in one attribute at a time, small symbolic ints, boundary values; identical db/rp/name/tags/fields (values and kinds) and the time rule. Known finding for the line-oriented format with an exact class. Batch recordings (JSON) are outside."),
 "C19": ("DESIGN.md §4 C19", "Framing: WriteMessage/ReadMessage over arbitrary read fragmentation with payload lengths around the varint boundary; data fidelity writePoint/writeBufferedBatch -> Request -> echoed Response -> handleResponse for symbolic points and batches (all field kinds, bitwise floats, group/dimensions/tags/time/batch boundaries). Protobuf wire encoding is overridden under the engine and real in the native replays. Known finding for non-UTF-8 strings."),
 "C02": ("DESIGN.md §4 C02", "Real forkPoint/newFork/delFork fork table, real stream source and FromNode.matches driven by symbolic db/rp/measurement bytes and a Choose-structured history of task start/stop and writes: each from() sink holds exactly the points written while its task ran that it declared and selects, once, in order; other tasks' start/stop cannot change it. FromNode.matches/Point against the filter reference with symbolic predicate results."),
 "C06": ("DESIGN.md §4 C06", "ToGroupID injectivity decided over all tag value bytes (known finding recorded with an exact class predicate); groupedConsumer dispatch against a reference call log; non-interference of stateful nodes (stateCount, stateDuration, derivative, changeDetect, sample, window, where) under every interleaving of two groups with symbolic data, versus the solo run."),
 "C08": ("DESIGN.md §4 C08", "services/alert persistence over an in-harness transactional store with a snapshot per commit: symbolic event levels/times, crash at every transaction boundary (or close-and-restore), restart: every ID resumes at its last recorded non-OK level and continuing yields the same topic state and handler (level, previous level) notifications as the uninterrupted run. Topics.UpdateEvent/RestoreTopic kernels."),
 "C13": ("DESIGN.md §4 C13", "parse(format(parse(x))) Equal parse(x) and format stability for every accepted text built from literal/token contexts plus N arbitrary bytes; operator precedence/parenthesisation round trip with operators given as arbitrary bytes; code-built duration nodes (known finding for sub-microsecond durations). Pipeline->TICKscript and JSON round trips are outside (reflection/encoding/json)."),
 "C14": ("DESIGN.md §4 C14", "Narrow kernel only (last sentence of C14): updateAllAssociatedTasks over in-harness DAOs with a symbolic failure position: all associated tasks carry the new template or all exactly their previous definition. Everything else in C14 (API histories, restarts, Bolt) is outside the claim."),
 "C15": ("DESIGN.md §4 C15", "IndexedStore over an in-harness ordered transactional store with symbolic write/commit faults: inductive step for Create/Put/Replace/Delete/Rebuild (bijection of data and indexes, Get, atomicity), List/ReverseList with symbolic pattern bytes, offset and limit against a reference slice, key injectivity for symbolic IDs (known finding for '.'/'..'). Bolt itself is outside."),
 "C16": ("DESIGN.md §4 C16", "QueryNode.Queries(start,stop) equals the list of live ticks (every/align tables, symbolic start and span) with [tick-offset-period, tick-offset) bounds; live doQuery loop with symbolic ticks; query text re-parsed and evaluated on a symbolic row: selected iff user condition AND start<=t<stop; checkDBRPs. cron schedules and real tickers are outside."),
 "C04": ("DESIGN.md §4 C04", "Compiled lambda expressions `a op b` over the full operator x operand-kind matrix with fully symbolic values equal an independent typed reference (value, kind, error-ness); history independence of the re-specialisation cache (evaluate on S1 then S2, kinds changing); AND/OR short-circuit. Function library beyond strSubstring, regex matching, depth > 2 are outside (see evidence)."),
 "C05": ("DESIGN.md §4 C05", "Kernels of the no-crash property decided per entry point: ast.Parse/ParseLambda on 27 contexts with N arbitrary inserted bytes (no panic in any goroutine, node xor error, lexer goroutine gone on return, termination within the unwinding budget); further kernels (evaluator faults, node runner, UDF peer messages) as listed in the evidence file. Only these entry points are claimed."),
 "C03": ("DESIGN.md §4 C03", "Time windows: for a table of period/every/align/fillPeriod configurations and every bounded non-decreasing timestamp sequence the solver shows each emission is on the reference schedule with exactly the points in [T-period,T); the ring buffer is covered for histories of any length by an inductive step from an arbitrary valid state; count windows likewise."),
 "C12": ("DESIGN.md §4 C12", "CircularQueue (join/union buffering): inductive step from an arbitrary valid state against an abstract FIFO. (union/join merge-order harnesses: see evidence for what is currently encoded.)"),
 "C20": ("DESIGN.md §4 C20", "AuthorizeAction equals an independent nearest-granted-ancestor reference for all privilege tables over a small path universe and all resources of bounded length; DatabaseResource injectivity decided by the solver over all byte values (known finding recorded)."),
 "C09": ("DESIGN.md §4 C09", "Within the stated bounds the solver shows for every symbolic input (levels, ID bytes, operation choice) that the topic ordering comparator is a strict weak order refining level order, and that one arbitrary update of an arbitrary valid topic keeps sorted/MaxLevel/EventStates/previous-state consistent (inductive step, so histories of any length)."),
}
NA = {
 "C07": "graceful stop/drain is a property of the relative timing of node goroutines, edge buffers, tickers and blocked senders across a whole executing task at the instant of stop; it has no sequential kernel, the solver has nothing to decide in that schedule space, and the engine's bounded preemption (lock points, blocking points of small harnesses) cannot cover it meaningfully (DESIGN.md §8)",
 "C17": "scheduler guarantees (exactly once, in order, never concurrently, promptly) are schedule/timer properties of a timer-driven loop with per-ID worker goroutines, a mock clock that itself uses goroutines and sleeps, and a generated cron library; not encodable by bounded symbolic execution of data paths, and Item.Less alone would be a token check (DESIGN.md §8)",
}
checks = []
for p in props:
    if p in claimed:
        ref, text = claimed[p]
        checks.append({
            "property_id": p,
            "quick_cmd": f"./check {p} quick",
            "thorough_cmd": f"./check {p} thorough",
            "evidence_file": f"/verif/evidence/{p}.json",
            "replay_cmd_template": f"./check {p} quick --replay {{path}}",
            "engine": "gosym",
            "level_claimed": {"category": "model_checking", "text": text, "design_ref": ref},
            "level_note": NOTE,
            "technique": TECH,
        })
na = [{"property_id": p, "reason": NA.get(p, "check not built yet in this session (planned: see DESIGN.md §4); not claimed until its harness runs clean")} for p in props if p not in claimed]
m = {
 "version": 1,
 "setup_cmd": "./setup.sh",
 "hooks": {"guard": "verif", "enable": "no hooks in /repo: harnesses and the harness runtime are injected with go/packages and `go test -overlay` overlays (files /repo/**/zz_verif_*.go, /repo/zz_vrt/), /repo is never modified by a check",
           "baseline_off_cmd": "cd /repo && GOFLAGS=-mod=mod go test -vet=off -count=1 ./alert/... ./auth/... ./clock/... ./services/bigpanda/... ./services/config/override/... ./services/httppost/... ./tick/... ./timer/... ./udf/agent/... ./waiter/...",
           "source_commits": [], "add_only": True},
 "engines": [{"name": "gosym", "path": "/verif/engine", "serves_properties": sorted(claimed), "kind_free_text": "forking symbolic interpreter for go/ssa (concrete heap shape, symbolic scalars as SMT bit-vector/FP terms), decisions and assertions discharged by z3-new 5.1.0 over a persistent process per worker; native replay of every counterexample and of sampled path models via go test -overlay"}],
 "checks": checks,
 "not_applicable": na,
 "notes": "exit 0 = held within bounds; exit 1 + VIOLATION line = natively confirmed counterexample; exit 2 = machinery problem (unsupported construct, solver unknown, truncated exploration, vacuous harness, non-reproducing counterexample) and never a verdict. Known findings: /verif/known_findings.json.",
}
json.dump(m, open(os.path.join(HERE, "MANIFEST.json"), "w"), indent=1)
print("claimed:", sorted(claimed), "n/a:", [x["property_id"] for x in na])
