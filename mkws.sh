#!/bin/bash
# mkws.sh <name>: private workspace for parallel harness development:
#   /tmp/ws/<name>/verif  (git worktree of /verif on branch ws-<name>)
#   /tmp/ws/<name>/repo   (git worktree of /repo, detached at HEAD)
set -euo pipefail
n="$1"; d=/tmp/ws/$n; mkdir -p "$d"
git -C /verif worktree add -q -B "ws-$n" "$d/verif" HEAD
git -C /repo worktree add -q --detach "$d/repo" HEAD
( cd "$d/verif" && VERIF_REPO="$d/repo" ./setup.sh )
echo "workspace $d ready: cd $d/verif && VERIF_REPO=$d/repo ./check Cxx quick"
