#!/bin/bash
# confirmmut.sh <worktree> <n>: confirm that demo<n> passes on the clean tree, fails with mut<n>.diff, and that the patched tree builds and passes the baseline suite.
set -uo pipefail
W="$1"; n="$2"
export GOFLAGS=-mod=mod GOPROXY=off PKG_CONFIG_PATH=/tmp/fluxstub CGO_LDFLAGS='-O2 -g -L/tmp/fluxstub'
cd "$W" || exit 3
git checkout -q -- . ; 
first=$(head -8 demo${n}_test.go.txt | tr "\n" " ")
dir=$(echo "$first" | grep -oE '\./[A-Za-z0-9_/-]+/?' | tail -1)
[ -z "$dir" ] && dir=./
case "$first" in *"root"*|*"package kapacitor"*) [ -z "$dir" ] && dir=./ ;; esac
run=$(echo "$first" | grep -oE 'go test .*$' | sed -E "s/ +(package |\/\/|\*\/|\().*\$//")
[ "$dir" = "" ] && { echo "cannot parse first line: $first"; exit 3; }
cp demo${n}_test.go.txt "$dir/zz_demo${n}_test.go"
echo "--- clean tree: $run"
( eval "timeout 900 $run" ) > /tmp/cm_clean.log 2>&1; c1=$?
tail -3 /tmp/cm_clean.log
git apply mut${n}.diff || { echo "patch does not apply"; rm -f "$dir/zz_demo${n}_test.go"; exit 3; }
echo "--- patched tree: $run"
( eval "timeout 900 $run" ) > /tmp/cm_mut.log 2>&1; c2=$?
tail -3 /tmp/cm_mut.log
rm -f "$dir/zz_demo${n}_test.go"
echo "--- baseline suite on patched tree"
timeout 1500 go test -vet=off -count=1 ./alert/... ./auth/... ./clock/... ./services/bigpanda/... ./services/config/override/... ./services/httppost/... ./tick/... ./timer/... ./udf/agent/... ./waiter/... > /tmp/cm_base.log 2>&1; c3=$?
grep -v "no test files" /tmp/cm_base.log | grep -v "^ok" | head -5
files=$(git diff --name-only | xargs -n1 dirname | sort -u | sed 's|^|./|')
go build $files > /tmp/cm_build.log 2>&1; c4=$?
git checkout -q -- .
echo "RESULT clean_demo_exit=$c1 (want 0) mutated_demo_exit=$c2 (want !=0) baseline_exit=$c3 (want 0) build_exit=$c4 (want 0)"
