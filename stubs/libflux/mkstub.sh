#!/bin/bash
# Builds a stub libflux.a (every flux_* symbol aborts) and a flux.pc so that the cgo
# package github.com/influxdata/flux/libflux/go/libflux links offline. No property touches Flux.
set -euo pipefail
OUT=${1:-/verif/build/libflux}
mkdir -p "$OUT"
R="${VERIF_REPO:-/repo}"
MC=$(cd "$R" && GOFLAGS=-mod=mod GOPROXY=off go env GOMODCACHE)
FLUXV=$(cd "$R" && awk '$1=="github.com/influxdata/flux"{print $2}' go.mod | head -1)
INC="$MC/github.com/influxdata/flux@$FLUXV/libflux/include"
H="$INC/influxdata/flux.h"
{
  echo '#include <stdlib.h>'
  grep -oE '\bflux_[a-z0-9_]+ *\(' "$H" | tr -d ' (' | sort -u | while read f; do
    echo "void $f(void){abort();}"
  done
} > "$OUT/fluxstub.c"
cc -c -O1 -o "$OUT/fluxstub.o" "$OUT/fluxstub.c"
ar rcs "$OUT/libflux.a" "$OUT/fluxstub.o"
cat > "$OUT/flux.pc" <<PC
Name: flux
Description: stub libflux for offline verification builds
Version: ${FLUXV#v}
Cflags: -I$INC
Libs: -L$OUT -lflux
PC
echo "stub libflux in $OUT"
