#!/usr/bin/env python3
"""mergekf.py <branch> old=new ... : merge known_findings.json of a workspace branch into ours
(run during a conflicted `git merge <branch>`), rewriting fix commit ids to the cherry-picked ones."""
import json, subprocess, sys
br = sys.argv[1]
remap = dict(a.split('=') for a in sys.argv[2:])
ours = json.loads(subprocess.check_output(['git', '-C', '/verif', 'show', 'HEAD:known_findings.json']))
theirs = json.loads(subprocess.check_output(['git', '-C', '/verif', 'show', br + ':known_findings.json']))
ids = {f['id'] for f in ours['findings']}
for f in theirs['findings']:
    if f['id'] not in ids:
        ours['findings'].append(f)
def tail(x): return x.split(' ', 3)[-1]
have = {tail(x) for x in ours['fixed']}
for x in theirs['fixed']:
    for a, b in remap.items():
        x = x.replace(a, b)
    if tail(x) not in have:
        ours['fixed'].append(x)
        have.add(tail(x))
json.dump(ours, open('/verif/known_findings.json', 'w'), indent=1)
print(len(ours['findings']), 'open;', len(ours['fixed']), 'fixed')
