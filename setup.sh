#!/bin/bash
# Builds the verification machinery from files on disk only (offline).
set -euo pipefail
cd "$(dirname "$0")"
V="$PWD"
R="${VERIF_REPO:-/repo}"
export GOFLAGS=-mod=mod GOPROXY=off
unset GOTOOLCHAIN GOSUMDB || true
mkdir -p build evidence replays
VERIF_REPO="$R" ./stubs/libflux/mkstub.sh "$V/build/libflux" >/dev/null
( cd engine && GOTOOLCHAIN=local go1.26.8 build -o ../build/gosym ./cmd/gosym )
# warm the build cache for the packages the checks load and replay against
( cd "$R" && CGO_LDFLAGS="-O2 -g -L$V/build/libflux" PKG_CONFIG_PATH="$V/build/libflux" go build . ./alert ./edge ./models ./pipeline ./services/alert ./services/storage ./services/task_store ./udf ./udf/agent ./tick/... ./auth ./services/httpd >/dev/null 2>&1 || true )
echo "setup ok"
