// Package vrt is the harness runtime. Under the symbolic engine (gosym) every method of
// T is intercepted: inputs become SMT variables, Assert becomes a solver query. Compiled
// natively (replay), the same calls read the recorded values of one solver model from a
// JSON file, in call order, so that a counterexample found by the solver is re-run
// against the real compiled code.
package vrt

import (
	"encoding/hex"
	"encoding/json"
	"fmt"
	"math"
	"os"
	"runtime"
	"strconv"
	"strings"
	"time"
)

type Input struct {
	Name  string `json:"name"`
	Kind  string `json:"kind"`
	Bits  int    `json:"bits,omitempty"`
	Value string `json:"value"`
}

type Replay struct {
	Property string         `json:"property"`
	Harness  string         `json:"harness"`
	Kind     string         `json:"kind"`
	Label    string         `json:"label"`
	Msg      string         `json:"msg"`
	Bounds   map[string]int `json:"bounds"`
	Inputs   []Input        `json:"inputs"`
	Observed []string       `json:"observations"`
	// Repeat > 1: the counterexample depends on a goroutine schedule found by the engine
	// (preemption at lock acquisitions); natively the run is repeated up to Repeat times
	// (or 25 s) under the real scheduler until the outcome is not "ok".
	Repeat int `json:"repeat,omitempty"`
}

// T carries the replay state of one harness run.
type T struct {
	r       *Replay
	pos     int
	Obs     []string
	Failed  []string // labels of failed assertions
	Reached []string
	Desync  string
	baseGor int
	fast    bool
}

// assertFailed is thrown (panic) by Assert so that the harness stops at the first
// failed assertion, as the engine's violation report does.
type assertFailed struct{ label string }

func Load(path string) (*Replay, error) {
	data, err := os.ReadFile(path)
	if err != nil {
		return nil, err
	}
	r := &Replay{}
	if err := json.Unmarshal(data, r); err != nil {
		return nil, err
	}
	return r, nil
}

func NewReplay(r *Replay) *T {
	return &T{r: r, baseGor: runtime.NumGoroutine()}
}

type desync struct{ msg string }

func (t *T) next(kind, name string) Input {
	if t.pos >= len(t.r.Inputs) {
		t.Desync = fmt.Sprintf("replay has %d inputs, harness asked for more (%s %s)", len(t.r.Inputs), kind, name)
		panic(desync{t.Desync})
	}
	in := t.r.Inputs[t.pos]
	t.pos++
	if in.Kind != kind || in.Name != name {
		t.Desync = fmt.Sprintf("input %d is %s %q, harness asked for %s %q", t.pos-1, in.Kind, in.Name, kind, name)
		panic(desync{t.Desync})
	}
	return in
}

func (t *T) i64(kind, name string) int64 {
	in := t.next(kind, name)
	v, err := strconv.ParseInt(in.Value, 10, 64)
	if err != nil {
		panic(desync{"bad int " + in.Value})
	}
	return v
}
func (t *T) u64(kind, name string) uint64 {
	in := t.next(kind, name)
	v, err := strconv.ParseUint(in.Value, 10, 64)
	if err != nil {
		panic(desync{"bad uint " + in.Value})
	}
	return v
}

func (t *T) Bool(name string) bool       { return t.next("bool", name).Value == "true" }
func (t *T) Int64(name string) int64     { return t.i64("int", name) }
func (t *T) Int(name string) int         { return int(t.i64("int", name)) }
func (t *T) Int32(name string) int32     { return int32(t.i64("int", name)) }
func (t *T) Int16(name string) int16     { return int16(t.i64("int", name)) }
func (t *T) Int8(name string) int8       { return int8(t.i64("int", name)) }
func (t *T) Uint64(name string) uint64   { return t.u64("uint", name) }
func (t *T) Uint32(name string) uint32   { return uint32(t.u64("uint", name)) }
func (t *T) Uint16(name string) uint16   { return uint16(t.u64("uint", name)) }
func (t *T) Uint8(name string) uint8     { return uint8(t.u64("uint", name)) }
func (t *T) Byte(name string) byte       { return uint8(t.u64("uint", name)) }
func (t *T) Float64(name string) float64 { return math.Float64frombits(t.u64("float", name)) }

// IntRange returns a symbolic int constrained to lo <= x <= hi.
func (t *T) IntRange(name string, lo, hi int) int {
	v := int(t.i64("int", name))
	if v < lo || v > hi {
		panic(desync{fmt.Sprintf("IntRange %s: %d outside [%d,%d]", name, v, lo, hi)})
	}
	return v
}

// Choose returns a value in [0,n): an enumeration, every alternative explored.
func (t *T) Choose(name string, n int) int {
	v := int(t.i64("choose", name))
	if v < 0 || v >= n {
		panic(desync{fmt.Sprintf("Choose %s: %d outside [0,%d)", name, v, n)})
	}
	return v
}

// String returns a string of exactly n arbitrary bytes.
func (t *T) String(name string, n int) string { return string(t.Bytes(name, n)) }

// Bytes returns a slice of exactly n arbitrary bytes.
func (t *T) Bytes(name string, n int) []byte {
	in := t.next("bytes", name)
	b, err := hex.DecodeString(in.Value)
	if err != nil || len(b) != n {
		panic(desync{fmt.Sprintf("Bytes %s: want %d bytes, replay has %q", name, n, in.Value)})
	}
	return b
}

// Time returns an arbitrary instant (UTC) with lo <= t <= hi (Unix nanoseconds).
func (t *T) Time(name string, lo, hi int64) time.Time {
	v := t.i64("time", name)
	if v < lo || v > hi {
		panic(desync{fmt.Sprintf("Time %s: %d outside range", name, v)})
	}
	return time.Unix(0, v).UTC()
}

// Bound returns a tier-dependent constant from harness.json (def when absent).
func (t *T) Bound(name string, def int) int {
	if v, ok := t.r.Bounds[name]; ok {
		return v
	}
	return def
}

func (t *T) Assume(c bool) {
	if !c {
		panic(desync{"assumption false under replay"})
	}
}

// Assert states the property. A failing assertion ends the harness run.
func (t *T) Assert(c bool, label string) {
	if !c {
		t.Failed = append(t.Failed, label)
		panic(assertFailed{label})
	}
}

// AssertKnown is Assert for a property with a recorded known finding: inClass is the
// predicate (over the inputs) of the recorded class of failing inputs, id its identifier
// in known_findings.json. Violations inside the class are reported as KNOWN-FINDING,
// any violation outside it as a new VIOLATION.
func (t *T) AssertKnown(c bool, label string, inClass bool, id string) {
	if !c {
		t.Failed = append(t.Failed, label)
		panic(assertFailed{label})
	}
}

func (t *T) Fail(label string) { t.Assert(false, label) }

// Reach marks a point that at least one explored path must reach (vacuity witness).
func (t *T) Reach(label string) { t.Reached = append(t.Reached, label) }

// Observe records scalar values for translation validation: the engine's prediction of
// these values under a model must equal what the native run prints.
func (t *T) Observe(label string, vals ...interface{}) {
	var sb strings.Builder
	sb.WriteString(label)
	sb.WriteByte(':')
	for _, v := range vals {
		sb.WriteByte(' ')
		sb.WriteString(render(v))
	}
	t.Obs = append(t.Obs, sb.String())
}

func render(v interface{}) string {
	switch x := v.(type) {
	case nil:
		return "nil"
	case bool:
		return strconv.FormatBool(x)
	case int:
		return strconv.FormatInt(int64(x), 10)
	case int8:
		return strconv.FormatInt(int64(x), 10)
	case int16:
		return strconv.FormatInt(int64(x), 10)
	case int32:
		return strconv.FormatInt(int64(x), 10)
	case int64:
		return strconv.FormatInt(x, 10)
	case uint:
		return strconv.FormatUint(uint64(x), 10)
	case uint8:
		return strconv.FormatUint(uint64(x), 10)
	case uint16:
		return strconv.FormatUint(uint64(x), 10)
	case uint32:
		return strconv.FormatUint(uint64(x), 10)
	case uint64:
		return strconv.FormatUint(x, 10)
	case float64:
		b := math.Float64bits(x)
		if x != x {
			b = 0x7ff8000000000001
		}
		return fmt.Sprintf("f64:%016x", b)
	case float32:
		return fmt.Sprintf("f32:%08x", math.Float32bits(x))
	case string:
		return strconv.Quote(x)
	case []byte:
		return strconv.Quote(string(x))
	case time.Time:
		if x.IsZero() {
			return "t:zero"
		}
		return fmt.Sprintf("t:%d", x.UnixNano())
	case time.Duration:
		return strconv.FormatInt(int64(x), 10)
	}
	return fmt.Sprintf("<%T>", v)
}

// Goroutines lets every other goroutine run until it ends or blocks and returns how
// many goroutines started since the harness began are still alive.
func (t *T) Goroutines() int {
	n := 0
	if t.fast {
		// stress replay of a schedule-dependent counterexample: settle quickly (the count
		// is stable for a few scheduler rounds)
		last, stable := -1, 0
		for i := 0; i < 400 && stable < 8; i++ {
			runtime.Gosched()
			n = runtime.NumGoroutine() - t.baseGor
			if n <= 0 {
				return 0
			}
			if n == last {
				stable++
			} else {
				stable = 0
			}
			last = n
			time.Sleep(50 * time.Microsecond)
		}
		return n
	}
	for i := 0; i < 200; i++ {
		runtime.Gosched()
		n = runtime.NumGoroutine() - t.baseGor
		if n <= 0 {
			return 0
		}
		time.Sleep(time.Millisecond)
	}
	return n
}

// Outcome of a native run.
type Outcome struct {
	File    string   `json:"file"`
	Outcome string   `json:"outcome"` // ok | assert:<label> | panic:<msg> | desync:<msg> | timeout
	Obs     []string `json:"observations"`
	Reached []string `json:"reached"`
}

// RunNative runs harness f on the replay and classifies what happened.
func RunNative(r *Replay, f func(*T)) (out Outcome) {
	if r.Repeat > 1 {
		deadline := time.Now().Add(25 * time.Second)
		for i := 0; i < r.Repeat && time.Now().Before(deadline); i++ {
			out = runNativeOnce(r, f)
			// a run that takes another schedule than the engine's may leave the recorded path
			// (and ask for inputs the replay does not have): that iteration did not reproduce
			if out.Outcome != "ok" && !strings.HasPrefix(out.Outcome, "desync:") {
				return out
			}
		}
		if strings.HasPrefix(out.Outcome, "desync:") {
			out.Outcome = "ok"
		}
		return out
	}
	return runNativeOnce(r, f)
}

func runNativeOnce(r *Replay, f func(*T)) (out Outcome) {
	t := NewReplay(r)
	t.fast = r.Repeat > 1
	done := make(chan struct{})
	go func() {
		defer close(done)
		defer func() {
			if p := recover(); p != nil {
				switch x := p.(type) {
				case assertFailed:
					out.Outcome = "assert:" + x.label
				case desync:
					out.Outcome = "desync:" + x.msg
				default:
					out.Outcome = "panic:" + fmt.Sprint(p)
				}
			}
		}()
		t.baseGor = runtime.NumGoroutine()
		f(t)
		out.Outcome = "ok"
	}()
	select {
	case <-done:
	case <-time.After(20 * time.Second):
		out.Outcome = "timeout"
	}
	out.Obs = t.Obs
	out.Reached = t.Reached
	return out
}

// ---------- non-forking connectives for oracles ----------
//
// Go's && and || are control flow: under the engine each one forks the path. The
// functions below evaluate all their (already computed) arguments and are intercepted by
// the engine as ONE symbolic term, so that an oracle such as "the result is one of the
// n inputs and not greater than any of them" costs one solver query instead of 2^n paths.

// Or is a[0] || a[1] || ... without short-circuit (false for no arguments).
func Or(a ...bool) bool {
	r := false
	for _, x := range a {
		r = r || x
	}
	return r
}

// And is a[0] && a[1] && ... without short-circuit (true for no arguments).
func And(a ...bool) bool {
	r := true
	for _, x := range a {
		r = r && x
	}
	return r
}

// SameF64 reports whether a and b are the same float64 result: a == b (so +0 and -0 are
// the same) or both are NaN.
func SameF64(a, b float64) bool { return a == b || (a != a && b != b) }
