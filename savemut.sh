#!/bin/bash
# savemut.sh <worktree> <n> <seed-id> <property> : keep a confirmed seeded change under /verif/seeded/<seed-id>/
set -euo pipefail
W="$1"; n="$2"; sid="$3"; prop="$4"
d=/verif/seeded/$sid; mkdir -p "$d"
cp "$W/mut$n.diff" "$d/patch.diff"
cp "$W/demo${n}_test.go.txt" "$d/demo_test.go.txt"
[ -f "$W/NOTES.md" ] && cp "$W/NOTES.md" "$d/NOTES_from_author.md"
[ -f "$d/meta.json" ] || cat > "$d/meta.json" <<M
{"seed": "$sid", "property": "$prop", "needs_to_manifest": "", "confirmed": "demo passes on the clean tree and fails with patch.diff; patched tree builds and passes the baseline suite (confirmmut.sh)", "check_result": "", "caught_by": ""}
M
echo saved $d
