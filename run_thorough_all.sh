#!/bin/bash
# runs every claimed property's thorough tier sequentially and prints a summary (used with `vp run`)
cd "$(dirname "$0")"
./setup.sh >/dev/null || exit 2
for p in ${@:-C04 C20 C15 C14 C18 C16 C19 C09 C12 C13 C03 C06 C02 C08 C10 C11 C01 C05}; do
  s=$(date +%s)
  timeout ${THOROUGH_TIMEOUT:-5400} ./check $p thorough > thorough_$p.log 2>&1
  echo "$p exit=$? $(( $(date +%s)-s ))s $(grep -E '^OK|^VIOLATION|CHECK-BROKEN' thorough_$p.log | head -2 | tr '\n' ' ' | cut -c1-200)"
done
