// gosym: bounded symbolic execution of the real Kapacitor code (go/ssa) with an SMT
// solver. See /verif/DESIGN.md.
package main

import (
	"bytes"
	"encoding/json"
	"flag"
	"fmt"
	"os"
	"os/exec"
	"path/filepath"
	"sort"
	"strconv"
	"strings"
	"time"

	"golang.org/x/tools/go/ssa"

	"gosym/sym"
)

var (
	verifDir = "/verif"
	repoDir  = "/repo"
)

const modPath = "github.com/influxdata/kapacitor"

type TierCfg struct {
	Bounds       map[string]int `json:"bounds"`
	MaxPaths     int            `json:"max_paths"`
	MaxInstr     int64          `json:"max_instr"`
	MaxDecisions int            `json:"max_decisions"`
	MaxAlloc     int            `json:"max_alloc"`
	MaxFanout    int            `json:"max_fanout"`
	TimeoutMs    int            `json:"solver_timeout_ms"`
	BudgetS      float64        `json:"budget_s"`
	PreemptAtSync  bool         `json:"preempt_at_sync"`
	RaceMaps       bool         `json:"race_maps"`
	MaxPreemptions int          `json:"max_preemptions"`
	ReverseMaps  bool           `json:"reverse_maps"`
	Skip         bool           `json:"skip"`
}

type HarnessCfg struct {
	Name      string            `json:"name"`
	Func      string            `json:"func"`
	Pkg       string            `json:"pkg"` // import path relative to the module ("" = root)
	Claim     string            `json:"claim"`
	Overrides map[string]string `json:"overrides"`
	Quick     TierCfg           `json:"quick"`
	Thorough  TierCfg           `json:"thorough"`
	Encoded   []string          `json:"encoded"` // functions the harness is about (reported)
	Outside   []string          `json:"outside"`
}

type OverlayFile struct {
	Src string `json:"src"` // relative to /verif/harness
	Dst string `json:"dst"` // relative to /repo
}

type PropCfg struct {
	Property    string        `json:"property"`
	Roots       []string      `json:"roots"`
	Overlay     []OverlayFile `json:"overlay"`
	Harnesses   []HarnessCfg  `json:"harnesses"`
	Assumptions []string      `json:"assumptions"`
	NoInitOK    []string      `json:"no_init_ok"`
}

type KnownFinding struct {
	Property string `json:"property"`
	ID       string `json:"id"`
	Harness  string `json:"harness"`
	Label    string `json:"label"`
	Kind     string `json:"kind"`
	What     string `json:"what"`
	Status   string `json:"status"` // "open" or "fixed: <commit>"
}

func fatal(code int, format string, args ...any) {
	fmt.Fprintf(os.Stderr, "gosym: "+format+"\n", args...)
	os.Exit(code)
}

func main() {
	prop := flag.String("prop", "", "property id (directory under /verif/harness)")
	tier := flag.String("tier", "quick", "quick|thorough")
	only := flag.String("harness", "", "run only this harness (name)")
	workers := flag.Int("workers", 16, "worker count")
	solver := flag.String("solver", "z3-new", "z3-new|z3|cvc5")
	noNative := flag.Bool("no-native", false, "skip native replay/validation (debugging only; never registered)")
	replayFile := flag.String("replay", "", "replay a recorded counterexample natively and exit")
	verbose := flag.Bool("v", false, "verbose")
	dbgMaxPaths := flag.Int("max-paths", 0, "debugging: override max_paths")
	dbgBounds := flag.String("bounds", "", "debugging: override bounds, k=v,k=v")
	dbgDump := flag.Int("dump-paths", 0, "debugging: print the inputs of the first N finished paths")
	flag.Parse()
	if v := os.Getenv("VERIF_DIR"); v != "" {
		verifDir = v
	}
	if v := os.Getenv("VERIF_REPO"); v != "" {
		repoDir = v
	}
	if t := os.Getenv("VERIF_TIER"); t != "" && *tier == "" {
		*tier = t
	}
	seed := int64(1)
	if s := os.Getenv("VERIF_SEED"); s != "" {
		if v, err := strconv.ParseInt(s, 10, 64); err == nil {
			seed = v
		}
	}
	if *prop == "" {
		fatal(2, "-prop required")
	}
	t0 := time.Now()
	pc := &PropCfg{}
	data, err := os.ReadFile(filepath.Join(verifDir, "harness", *prop, "harness.json"))
	if err != nil {
		fatal(2, "%v", err)
	}
	if err := json.Unmarshal(data, pc); err != nil {
		fatal(2, "harness.json: %v", err)
	}

	// overlay
	overlay := map[string][]byte{}
	addOv := func(src, dst string) {
		b, err := os.ReadFile(src)
		if err != nil {
			fatal(2, "overlay: %v", err)
		}
		overlay[filepath.Join(repoDir, dst)] = b
	}
	addOv(filepath.Join(verifDir, "rt/vrt/vrt.go"), "zz_vrt/vrt.go")
	for _, o := range pc.Overlay {
		addOv(filepath.Join(verifDir, "harness", o.Src), o.Dst)
	}

	if *replayFile != "" {
		os.Exit(replayOnly(pc, overlay, *replayFile))
	}

	// load
	patSet := map[string]bool{}
	var patterns []string
	add := func(p string) {
		if !patSet[p] {
			patSet[p] = true
			patterns = append(patterns, p)
		}
	}
	for _, r := range defaultRoots {
		add(r)
	}
	add(modPath + "/zz_vrt")
	for _, r := range pc.Roots {
		add(r)
	}
	for _, h := range pc.Harnesses {
		add(pkgPath(h.Pkg))
	}
	tl := time.Now()
	ld, err := loadProgram(patterns, overlay)
	if err != nil {
		fatal(2, "load: %v", err)
	}
	loadS := time.Since(tl).Seconds()
	if *verbose {
		fmt.Fprintf(os.Stderr, "loaded %d root packages in %.1fs\n", len(ld.roots), loadS)
	}

	known := loadKnown()
	type hres struct {
		cfg  HarnessCfg
		tc   TierCfg
		ex   *sym.Explorer
		wall float64
	}
	var results []*hres
	broken := []string{}
	for _, h := range pc.Harnesses {
		if *only != "" && h.Name != *only {
			continue
		}
		tc := h.Quick
		if *tier == "thorough" {
			tc = mergeTier(h.Quick, h.Thorough)
		}
		if tc.Skip {
			continue
		}
		sp := ld.pkgs[pkgPath(h.Pkg)]
		if sp == nil {
			fatal(2, "harness %s: package %s not loaded", h.Name, pkgPath(h.Pkg))
		}
		fn := sp.Func(h.Func)
		if fn == nil {
			fatal(2, "harness %s: function %s not found in %s", h.Name, h.Func, pkgPath(h.Pkg))
		}
		cfg := &sym.Config{
			MaxInstr: def64(tc.MaxInstr, 3_000_000), MaxAlloc: defInt(tc.MaxAlloc, 4096), MaxFanout: defInt(tc.MaxFanout, 64),
			MaxDecisions: defInt(tc.MaxDecisions, 2000), MaxPaths: defInt(tc.MaxPaths, 200000), ReverseMaps: tc.ReverseMaps,
			Bounds: tc.Bounds, Solver: *solver, TimeoutMs: defInt(tc.TimeoutMs, 60000), Workers: *workers, Seed: seed,
			Samples: 4, MaxViolPerLabel: 2, NoInitOK: map[string]bool{}, BudgetS: tc.BudgetS, Progress: *verbose, PreemptAtSync: tc.PreemptAtSync, RaceMaps: tc.RaceMaps, MaxPreemptions: defInt(tc.MaxPreemptions, 3),
		}
		if *tier == "thorough" {
			cfg.Samples = 12
		}
		for _, p := range pc.NoInitOK {
			cfg.NoInitOK[p] = true
		}
		if *dbgMaxPaths > 0 {
			cfg.MaxPaths = *dbgMaxPaths
		}
		if *dbgBounds != "" {
			nb := map[string]int{}
			for k, v := range cfg.Bounds {
				nb[k] = v
			}
			for _, kv := range strings.Split(*dbgBounds, ",") {
				if k, v, ok := strings.Cut(kv, "="); ok {
					n, _ := strconv.Atoi(v)
					nb[k] = n
				}
			}
			cfg.Bounds = nb
		}
		cfg.Samples = max(cfg.Samples, *dbgDump)
		for target, repl := range h.Overrides {
			rf := sp.Func(repl)
			if rf == nil {
				fatal(2, "harness %s: override function %s not found", h.Name, repl)
			}
			cfg.SetOverride(target, rf)
		}
		ex := sym.NewExplorer(ld.prog, fn, h.Func, cfg)
		th := time.Now()
		if err := ex.Run(); err != nil {
			fatal(2, "harness %s: %v", h.Name, err)
		}
		for i, smp := range ex.Samples {
			if i >= *dbgDump {
				break
			}
			var parts []string
			for _, in := range smp.Inputs {
				parts = append(parts, in.Name+"="+in.Val)
			}
			fmt.Fprintf(os.Stderr, "PATH %v decisions=%d\n", parts, len(smp.Trace))
		}
		r := &hres{cfg: h, tc: tc, ex: ex, wall: time.Since(th).Seconds()}
		results = append(results, r)
		st := &ex.Stats
		fmt.Printf("harness %-28s paths=%d %v pruned=%d+%dq quickfeasible=%d decisions=%d queries=%d (sat %d unsat %d unknown %d) trivial-asserts=%d solver-asserts=%d solve=%.1fs wall=%.1fs\n",
			h.Name, st.Paths, st.ByOutcome, st.Pruned, st.QuickPruned, st.QuickFeasible, st.Decisions, st.Queries, st.QuerySat, st.QueryUnsat, st.QueryUnknown, st.Trivial, st.AssertsSym, st.SolveTime.Seconds(), r.wall)
		// machinery health: these make the check BROKEN (exit 2), never "held"
		if n := st.ByOutcome["unsupported"]; n > 0 {
			broken = append(broken, fmt.Sprintf("%s: %d unsupported paths, e.g. %s", h.Name, n, first(st.Unsupported)))
		}
		if n := st.ByOutcome["engine"]; n > 0 {
			broken = append(broken, fmt.Sprintf("%s: %d engine errors, e.g. %s", h.Name, n, first(st.Engine)))
		}
		if n := st.ByOutcome["inconclusive"] + st.ByOutcome["inconclusive-assert"]; n > 0 {
			broken = append(broken, fmt.Sprintf("%s: %d inconclusive solver answers, e.g. %s", h.Name, n, first(st.Inconclusive)))
		}
		if *verbose {
			for _, x := range st.Infeasible {
				fmt.Fprintln(os.Stderr, "  infeasible: "+x)
			}
		}
		if st.Truncated {
			broken = append(broken, fmt.Sprintf("%s: path budget %d or wall budget %.0fs exhausted (exploration truncated)", h.Name, cfg.MaxPaths, cfg.BudgetS))
		}
		if len(st.Reached) == 0 {
			broken = append(broken, fmt.Sprintf("%s: vacuous — no path reached a Reach() witness", h.Name))
		}
	}
	if len(results) == 0 {
		fatal(2, "no harness selected")
	}

	// ---------- native confirmation ----------
	replayDir := filepath.Join(verifDir, "replays", *prop)
	if d := os.Getenv("VERIF_REPLAY_DIR"); d != "" {
		replayDir = filepath.Join(d, *prop)
	}
	os.MkdirAll(replayDir, 0o755)
	if *only == "" {
		if old, _ := filepath.Glob(filepath.Join(replayDir, "*.json")); old != nil {
			for _, f := range old {
				os.Remove(f)
			}
		}
	}
	type pending struct {
		file   string
		h      *hres
		viol   *sym.Violation
		sample *sym.Sample
	}
	var pend []pending
	byPkg := map[string][]string{} // pkg -> harness funcs
	for _, r := range results {
		byPkg[r.cfg.Pkg] = append(byPkg[r.cfg.Pkg], r.cfg.Func)
		for i, v := range r.ex.Viol {
			f := filepath.Join(replayDir, fmt.Sprintf("%s-%s-%d.json", r.cfg.Name, sanitize(v.Label), i))
			rep := 0
			if v.Sched {
				rep = 200000
			}
			writeReplayN(f, *prop, r.cfg.Func, v.Kind, v.Label, v.Msg, r.tc.Bounds, v.Inputs, v.Observed, rep)
			pend = append(pend, pending{file: f, h: r, viol: v})
		}
		for i := range r.ex.Samples {
			s := &r.ex.Samples[i]
			f := filepath.Join(replayDir, fmt.Sprintf("sample-%s-%d.json", r.cfg.Name, i))
			writeReplay(f, *prop, r.cfg.Func, "sample", "", "", r.tc.Bounds, s.Inputs, s.Obs)
			pend = append(pend, pending{file: f, h: r, sample: s})
		}
	}
	validated := 0
	var confirmed, unconfirmed, nativeViol []pending
	nativeS := 0.0
	if !*noNative && len(pend) > 0 {
		tn := time.Now()
		bins := map[string]string{}
		for pkg, funcs := range byPkg {
			bin, err := buildNative(pkg, funcs, overlay)
			if err != nil {
				fatal(2, "native build for %q failed: %v", pkg, err)
			}
			bins[pkg] = bin
			defer os.Remove(bin)
		}
		raceBins := map[string]string{}
		for _, p := range pend {
			bin := bins[p.h.cfg.Pkg]
			if p.viol != nil && p.viol.Kind == "race" {
				// concurrent map access: confirmed by the Go race detector on the real code
				if raceBins[p.h.cfg.Pkg] == "" {
					rb, err := buildNativeOpt(p.h.cfg.Pkg, byPkg[p.h.cfg.Pkg], overlay, true)
					if err != nil {
						fatal(2, "native -race build for %q failed: %v", p.h.cfg.Pkg, err)
					}
					raceBins[p.h.cfg.Pkg] = rb
					defer os.Remove(rb)
				}
				bin = raceBins[p.h.cfg.Pkg]
			}
			out := runNative(bin, p.file)
			if p.sample != nil {
				if strings.HasPrefix(out.Outcome, "assert:") || strings.HasPrefix(out.Outcome, "panic:") || strings.HasPrefix(out.Outcome, "crash:") {
					// The real code fails the harness' assertion (or crashes) on this concrete input:
					// a genuine violation, found by the native run of a sampled path although the
					// engine predicted ok (e.g. behind an override that hides it from the engine).
					label := strings.TrimPrefix(out.Outcome, "assert:")
					nativeViol = append(nativeViol, pending{file: p.file, h: p.h, viol: &sym.Violation{Harness: p.h.cfg.Func, Kind: "native-sample", Label: label, Msg: "native run of a sampled path: " + out.Outcome + " (engine predicted ok)", Inputs: p.sample.Inputs}})
					continue
				}
				if out.Outcome != "ok" {
					broken = append(broken, fmt.Sprintf("%s: validation sample %s: native outcome %q, engine predicted ok", p.h.cfg.Name, filepath.Base(p.file), out.Outcome))
					continue
				}
				if !equalStrs(out.Obs, p.sample.Obs) {
					broken = append(broken, fmt.Sprintf("%s: validation sample %s: observations differ\n  engine: %v\n  native: %v", p.h.cfg.Name, filepath.Base(p.file), p.sample.Obs, out.Obs))
					continue
				}
				validated++
				os.Remove(p.file)
				continue
			}
			if nativeConfirms(p.viol, out) {
				confirmed = append(confirmed, p)
			} else {
				unconfirmed = append(unconfirmed, p)
				broken = append(broken, fmt.Sprintf("%s: counterexample %s (%s %q) did not reproduce natively: native outcome %q", p.h.cfg.Name, filepath.Base(p.file), p.viol.Kind, p.viol.Label, out.Outcome))
			}
		}
		nativeS = time.Since(tn).Seconds()
	} else if *noNative {
		for _, p := range pend {
			if p.viol != nil {
				confirmed = append(confirmed, p)
			}
		}
	}

	confirmed = append(confirmed, nativeViol...)

	// ---------- verdict ----------
	violations := 0
	var lines []string
	knownSeen := map[string]bool{}
	for _, p := range confirmed {
		v := p.viol
		kf := matchKnown(known, *prop, p.h.cfg.Name, v)
		if kf != nil {
			if !knownSeen[kf.ID] {
				knownSeen[kf.ID] = true
				lines = append(lines, fmt.Sprintf("KNOWN-FINDING: property=%s %s [%s/%s] %s", *prop, kf.ID, p.h.cfg.Name, v.Label, kf.What))
			}
			os.Remove(p.file)
			continue
		}
		violations++
		lines = append(lines, fmt.Sprintf("VIOLATION property=%s replay=%s", *prop, p.file))
		lines = append(lines, fmt.Sprintf("  harness=%s kind=%s label=%q %s", p.h.cfg.Name, v.Kind, v.Label, trunc(v.Msg, 300)))
	}
	for _, l := range lines {
		fmt.Println(l)
	}

	// ---------- evidence ----------
	ev := map[string]any{
		"property_id": *prop, "tier": *tier, "seed": seed, "level": "model_checking",
		"wall_s": time.Since(t0).Seconds(), "violations": violations,
	}
	cov := map[string]any{}
	var states, transitions int64
	var hs []map[string]any
	var samples []any
	funcs := map[string]bool{}
	stubs := map[string]bool{}
	exhaustive := true
	var queries, qsat, qunsat, qunk, trivial, symAsserts int
	var solveS float64
	for _, r := range results {
		st := &r.ex.Stats
		states += int64(st.Paths)
		transitions += st.Decisions
		queries += st.Queries
		qsat += st.QuerySat
		qunsat += st.QueryUnsat
		qunk += st.QueryUnknown
		trivial += st.Trivial
		symAsserts += st.AssertsSym
		solveS += st.SolveTime.Seconds()
		if st.Truncated || st.ByOutcome["unwind"] > 0 || st.ByOutcome["unsupported"] > 0 || st.ByOutcome["inconclusive"] > 0 {
			exhaustive = false
		}
		for f := range st.Funcs {
			funcs[f] = true
		}
		for s := range st.Stubs {
			stubs[s] = true
		}
		hs = append(hs, map[string]any{
			"name": r.cfg.Name, "func": r.cfg.Func, "claim": r.cfg.Claim, "bounds": r.tc.Bounds,
			"limits":  map[string]any{"max_paths": r.ex.Cfg.MaxPaths, "max_instr_per_path": r.ex.Cfg.MaxInstr, "max_decisions_per_path": r.ex.Cfg.MaxDecisions, "solver_timeout_ms": r.ex.Cfg.TimeoutMs},
			"paths":   st.Paths, "paths_by_outcome": st.ByOutcome, "infeasible_alternatives_pruned": st.Pruned, "alternatives_refuted_by_partial_evaluation": st.QuickPruned, "alternatives_shown_feasible_without_query": st.QuickFeasible, "decisions": st.Decisions, "instructions": st.Instrs,
			"queries": st.Queries, "assertions_closed_by_simplifier": st.Trivial, "assertions_decided_by_solver": st.AssertsSym,
			"assert_labels_executed": st.AssertLabels, "reach_witnesses": st.Reached, "unwinding_overruns": st.Unwind,
			"longest_decision_vector": st.MaxTrace, "wall_s": r.wall, "outside_claim": r.cfg.Outside,
		})
		for i, s := range r.ex.Samples {
			if i >= 2 {
				break
			}
			samples = append(samples, map[string]any{"harness": r.cfg.Name, "inputs": s.Inputs, "observations": s.Obs, "decisions": s.Trace})
		}
	}
	for _, p := range confirmed {
		samples = append(samples, map[string]any{"harness": p.h.cfg.Name, "violation": p.viol.Label, "inputs": p.viol.Inputs})
	}
	if len(samples) == 0 {
		samples = append(samples, map[string]any{"note": "no path with inputs"})
	}
	cov["states"] = states
	cov["transitions"] = max(transitions, 1)
	cov["traces_validated_against_impl"] = validated
	cov["samples"] = samples
	cov["exhaustive"] = exhaustive && len(broken) == 0
	cov["explanation"] = "states = terminated symbolic paths (each covers every value of its symbolic inputs satisfying the path condition); transitions = decisions taken; every path condition/assertion is decided by the SMT solver; validated traces = solver models re-run natively against the compiled code with identical observations"
	cov["harnesses"] = hs
	cov["solver"] = map[string]any{"backend": *solver, "queries": queries, "sat": qsat, "unsat": qunsat, "unknown": qunk, "solve_time_s": solveS,
		"assertions_decided_by_solver": symAsserts, "assertions_closed_by_simplifier": trivial}
	cov["functions_encoded"] = relevantFuncs(funcs)
	cov["functions_encoded_total"] = len(funcs)
	cov["intrinsics_and_overrides_used"] = keys(stubs)
	cov["load_s"] = loadS
	cov["native_replay_s"] = nativeS
	cov["confirmed_counterexamples"] = len(confirmed)
	cov["known_findings_reported"] = keys(knownSeen)
	cov["machinery_problems"] = broken
	ev["coverage"] = cov
	assumptions := append([]string{
		"bounded: only inputs/histories within the per-harness bounds listed under coverage.harnesses[].bounds are covered",
		"goroutine scheduling is not explored (run-until-block, round-robin); select with several ready cases is enumerated",
		"stub libflux (no property touches Flux); intrinsics listed under coverage.intrinsics_and_overrides_used are modelled, not interpreted",
		"time.Time is an abstract instant in [1678,2262] or the zero Time; locations and monotonic readings are outside the model",
	}, pc.Assumptions...)
	ev["assumptions"] = assumptions
	evDir := filepath.Join(verifDir, "evidence")
	if d := os.Getenv("VERIF_EVIDENCE_DIR"); d != "" {
		evDir = d // runs against scratch trees (seeded changes) must not touch the real evidence
	} else if *only != "" || *noNative || *dbgMaxPaths > 0 || *dbgBounds != "" {
		evDir = filepath.Join(verifDir, "evidence", "debug") // partial/debugging runs are not evidence
	}
	os.MkdirAll(evDir, 0o755)
	eb, merr := json.MarshalIndent(ev, "", " ")
	if merr != nil {
		fatal(2, "evidence: %v", merr)
	}
	if err := os.WriteFile(filepath.Join(evDir, *prop+".json"), eb, 0o644); err != nil {
		fatal(2, "evidence: %v", err)
	}

	if len(broken) > 0 {
		fmt.Println("CHECK-BROKEN (machinery problems; these are never a verdict):")
		for _, b := range broken {
			fmt.Println("  - " + b)
		}
	}
	if violations > 0 {
		os.Exit(1)
	}
	if len(broken) > 0 {
		os.Exit(2)
	}
	fmt.Printf("OK property=%s tier=%s paths=%d queries=%d validated=%d wall=%.1fs\n", *prop, *tier, states, queries, validated, time.Since(t0).Seconds())
}

func first(s []string) string {
	if len(s) == 0 {
		return ""
	}
	return trunc(s[0], 600)
}

func trunc(s string, n int) string {
	if len(s) > n {
		return s[:n] + "…"
	}
	return s
}

func keys(m map[string]bool) []string {
	out := make([]string, 0, len(m))
	for k := range m {
		out = append(out, k)
	}
	sort.Strings(out)
	return out
}

// relevantFuncs lists the interpreted functions of the repository (not the stdlib).
func relevantFuncs(m map[string]bool) []string {
	var out []string
	for f := range m {
		if strings.Contains(f, "influxdata/") && !strings.Contains(f, "zz_vrt") {
			out = append(out, strings.ReplaceAll(f, modPath, "kapacitor"))
		}
	}
	sort.Strings(out)
	if len(out) > 400 {
		out = append(out[:400], fmt.Sprintf("… and %d more", len(out)-400))
	}
	return out
}

func pkgPath(rel string) string {
	if rel == "" || rel == "." {
		return modPath
	}
	return modPath + "/" + rel
}

func mergeTier(q, t TierCfg) TierCfg {
	out := q
	if t.Bounds != nil {
		out.Bounds = map[string]int{}
		for k, v := range q.Bounds {
			out.Bounds[k] = v
		}
		for k, v := range t.Bounds {
			out.Bounds[k] = v
		}
	}
	if t.MaxPaths != 0 {
		out.MaxPaths = t.MaxPaths
	}
	if t.MaxInstr != 0 {
		out.MaxInstr = t.MaxInstr
	}
	if t.MaxDecisions != 0 {
		out.MaxDecisions = t.MaxDecisions
	}
	if t.MaxAlloc != 0 {
		out.MaxAlloc = t.MaxAlloc
	}
	if t.MaxFanout != 0 {
		out.MaxFanout = t.MaxFanout
	}
	if t.TimeoutMs != 0 {
		out.TimeoutMs = t.TimeoutMs
	}
	if t.BudgetS != 0 {
		out.BudgetS = t.BudgetS
	}
	if t.RaceMaps {
		out.RaceMaps = true
	}
	if t.PreemptAtSync {
		out.PreemptAtSync = true
	}
	if t.MaxPreemptions != 0 {
		out.MaxPreemptions = t.MaxPreemptions
	}
	out.ReverseMaps = t.ReverseMaps
	out.Skip = t.Skip
	return out
}

func defInt(v, d int) int {
	if v == 0 {
		return d
	}
	return v
}
func def64(v, d int64) int64 {
	if v == 0 {
		return d
	}
	return v
}

func sanitize(s string) string {
	var sb strings.Builder
	for _, r := range s {
		if (r >= 'a' && r <= 'z') || (r >= 'A' && r <= 'Z') || (r >= '0' && r <= '9') {
			sb.WriteRune(r)
		} else {
			sb.WriteByte('_')
		}
	}
	out := sb.String()
	if len(out) > 40 {
		out = out[:40]
	}
	return out
}

func equalStrs(a, b []string) bool {
	if len(a) != len(b) {
		return false
	}
	for i := range a {
		if a[i] != b[i] {
			return false
		}
	}
	return true
}

// ---------- known findings ----------

func loadKnown() []KnownFinding {
	var out []KnownFinding
	data, err := os.ReadFile(filepath.Join(verifDir, "known_findings.json"))
	if err != nil {
		return nil
	}
	var doc struct {
		Findings []KnownFinding `json:"findings"`
	}
	if err := json.Unmarshal(data, &doc); err != nil {
		fatal(2, "known_findings.json: %v", err)
	}
	for _, k := range doc.Findings {
		if k.Status == "" || k.Status == "open" {
			out = append(out, k)
		}
	}
	return out
}

// matchKnown: a confirmed violation is a known finding only if the harness itself
// classified the failing input into the recorded class (v.Known, decided by the solver
// as part of the query) and that class is listed as open in known_findings.json.
func matchKnown(known []KnownFinding, prop, harness string, v *sym.Violation) *KnownFinding {
	if v.Known == "" {
		return nil
	}
	for i := range known {
		k := &known[i]
		if k.Property == prop && k.ID == v.Known && (k.Harness == "" || k.Harness == harness) && (k.Label == "" || k.Label == v.Label) {
			return k
		}
	}
	return nil
}

// ---------- native replay ----------

type replayDoc struct {
	Property string         `json:"property"`
	Harness  string         `json:"harness"`
	Kind     string         `json:"kind"`
	Label    string         `json:"label"`
	Msg      string         `json:"msg"`
	Bounds   map[string]int `json:"bounds"`
	Inputs   []sym.Input    `json:"inputs"`
	Observed []string       `json:"observations"`
	Repeat   int            `json:"repeat,omitempty"`
}

func writeReplayN(file, prop, harness, kind, label, msg string, bounds map[string]int, in []sym.Input, obs []string, repeat int) {
	d := replayDoc{prop, harness, kind, label, msg, bounds, in, obs, repeat}
	b, _ := json.MarshalIndent(d, "", " ")
	if err := os.WriteFile(file, b, 0o644); err != nil {
		fatal(2, "replay file: %v", err)
	}
}

func writeReplay(file, prop, harness, kind, label, msg string, bounds map[string]int, in []sym.Input, obs []string) {
	writeReplayN(file, prop, harness, kind, label, msg, bounds, in, obs, 0)
}

const nativeTestTmpl = `package %s

import (
	"encoding/json"
	"fmt"
	"os"
	"testing"

	vrt "github.com/influxdata/kapacitor/zz_vrt"
)

func TestVerifReplay(t *testing.T) {
	hs := map[string]func(*vrt.T){
%s	}
	file := os.Getenv("VERIF_REPLAY")
	r, err := vrt.Load(file)
	if err != nil {
		t.Fatal(err)
	}
	f := hs[r.Harness]
	if f == nil {
		t.Fatalf("unknown harness %%q", r.Harness)
	}
	out := vrt.RunNative(r, f)
	out.File = file
	b, _ := json.Marshal(out)
	fmt.Printf("\nVERIF-OUTCOME %%s\n", b)
}
`

func pkgName(rel string) (string, error) {
	cmd := exec.Command("go", "list", "-f", "{{.Name}}", pkgPath(rel))
	cmd.Dir = repoDir
	cmd.Env = repoEnv()
	out, err := cmd.Output()
	if err != nil {
		return "", fmt.Errorf("go list: %v", err)
	}
	return strings.TrimSpace(string(out)), nil
}

func buildNative(pkg string, funcs []string, overlay map[string][]byte) (string, error) {
	return buildNativeOpt(pkg, funcs, overlay, false)
}

// buildNativeOpt builds the replay test binary, optionally with the Go race detector.
func buildNativeOpt(pkg string, funcs []string, overlay map[string][]byte, race bool) (string, error) {
	name, err := pkgName(pkg)
	if err != nil {
		return "", err
	}
	tmp, err := os.MkdirTemp("", "gosym-native-")
	if err != nil {
		return "", err
	}
	defer os.RemoveAll(tmp)
	var reg strings.Builder
	seen := map[string]bool{}
	for _, f := range funcs {
		if !seen[f] {
			seen[f] = true
			fmt.Fprintf(&reg, "\t\t%q: %s,\n", f, f)
		}
	}
	ov := map[string]string{}
	i := 0
	put := func(dst string, content []byte) {
		p := filepath.Join(tmp, fmt.Sprintf("f%d.go", i))
		i++
		os.WriteFile(p, content, 0o644)
		ov[dst] = p
	}
	for dst, content := range overlay {
		put(dst, content)
	}
	dir := repoDir
	if pkg != "" && pkg != "." {
		dir = filepath.Join(repoDir, pkg)
	}
	put(filepath.Join(dir, "zz_verif_replay_test.go"), []byte(fmt.Sprintf(nativeTestTmpl, name, reg.String())))
	ovb, _ := json.Marshal(map[string]any{"Replace": ov})
	ovFile := filepath.Join(tmp, "overlay.json")
	os.WriteFile(ovFile, ovb, 0o644)
	binf, err := os.CreateTemp("", "gosym-test-*.bin")
	if err != nil {
		return "", err
	}
	binf.Close()
	args := []string{"test", "-c", "-vet=off", "-overlay", ovFile, "-o", binf.Name()}
	if race {
		args = append(args, "-race")
	}
	cmd := exec.Command("go", append(args, pkgPath(pkg))...)
	cmd.Dir = repoDir
	cmd.Env = repoEnv()
	var buf bytes.Buffer
	cmd.Stdout, cmd.Stderr = &buf, &buf
	if err := cmd.Run(); err != nil {
		os.Remove(binf.Name())
		return "", fmt.Errorf("%v\n%s", err, buf.String())
	}
	return binf.Name(), nil
}

type nativeOutcome struct {
	File    string   `json:"file"`
	Outcome string   `json:"outcome"`
	Obs     []string `json:"observations"`
	Reached []string `json:"reached"`
	Raw     string   `json:"-"`
}

func runNative(bin, file string) nativeOutcome {
	cmd := exec.Command("timeout", "60", bin, "-test.run", "^TestVerifReplay$", "-test.count=1")
	cmd.Env = append(os.Environ(), "VERIF_REPLAY="+file)
	cmd.Dir = os.TempDir()
	var buf bytes.Buffer
	cmd.Stdout, cmd.Stderr = &buf, &buf
	err := cmd.Run()
	out := nativeOutcome{File: file, Raw: buf.String()}
	for _, line := range strings.Split(buf.String(), "\n") {
		if rest, ok := strings.CutPrefix(line, "VERIF-OUTCOME "); ok {
			if json.Unmarshal([]byte(rest), &out) == nil {
				return out
			}
		}
	}
	// the process died before reporting: a crash outside the harness goroutine
	txt := buf.String()
	switch {
	case strings.Contains(txt, "panic:") || strings.Contains(txt, "fatal error:"):
		i := strings.Index(txt, "panic:")
		if i < 0 {
			i = strings.Index(txt, "fatal error:")
		}
		msg := txt[i:]
		if j := strings.IndexByte(msg, '\n'); j > 0 {
			msg = msg[:j]
		}
		out.Outcome = "crash:" + msg
	case err != nil && strings.Contains(err.Error(), "124"):
		out.Outcome = "timeout"
	default:
		out.Outcome = "noreport:" + trunc(txt, 200)
	}
	return out
}

func nativeConfirms(v *sym.Violation, out nativeOutcome) bool {
	if v.Sched && v.Kind != "race" {
		// schedule-dependent counterexample: the stress replay runs under the real scheduler,
		// which may expose the same race through another assertion of the harness first
		return strings.HasPrefix(out.Outcome, "assert:") || strings.HasPrefix(out.Outcome, "panic:") || strings.HasPrefix(out.Outcome, "crash:") || out.Outcome == "timeout"
	}
	switch v.Kind {
	case "race":
		if strings.Contains(out.Raw, "fatal error: concurrent map") {
			return true
		}
		if !strings.Contains(out.Raw, "WARNING: DATA RACE") {
			return false
		}
		for _, f := range v.RaceFuncs {
			if f != "" && strings.Contains(out.Raw, f) {
				return true
			}
		}
		return false
	case "assert":
		return out.Outcome == "assert:"+v.Label
	case "panic":
		return strings.HasPrefix(out.Outcome, "panic:") || strings.HasPrefix(out.Outcome, "crash:")
	case "deadlock":
		return out.Outcome == "timeout" || strings.Contains(out.Outcome, "all goroutines are asleep")
	case "unwind":
		return out.Outcome == "timeout" || strings.HasPrefix(out.Outcome, "crash:") || strings.HasPrefix(out.Outcome, "panic:")
	}
	return false
}

func replayOnly(pc *PropCfg, overlay map[string][]byte, file string) int {
	data, err := os.ReadFile(file)
	if err != nil {
		fatal(2, "%v", err)
	}
	var d replayDoc
	if err := json.Unmarshal(data, &d); err != nil {
		fatal(2, "%v", err)
	}
	for _, h := range pc.Harnesses {
		if h.Func == d.Harness {
			bin, err := buildNative(h.Pkg, []string{h.Func}, overlay)
			if err != nil {
				fatal(2, "native build: %v", err)
			}
			defer os.Remove(bin)
			out := runNative(bin, file)
			fmt.Printf("native outcome: %s\n", out.Outcome)
			for _, o := range out.Obs {
				fmt.Println("  obs " + o)
			}
			if out.Outcome != "ok" {
				fmt.Println(trunc(out.Raw, 3000))
				return 1
			}
			return 0
		}
	}
	fatal(2, "harness %s not found", d.Harness)
	return 2
}

var _ = ssa.InstantiateGenerics
