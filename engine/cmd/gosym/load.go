package main

import (
	"fmt"
	"go/types"
	"os"
	"sort"
	"strings"

	"golang.org/x/tools/go/packages"
	"golang.org/x/tools/go/ssa"
)

// Standard-library and third-party packages interpreted from source (everything else is
// loaded from export data and has no bodies: calls into it need an intrinsic).
var defaultRoots = []string{
	"errors", "sort", "slices", "cmp", "strings", "bytes", "unicode", "unicode/utf8", "strconv",
	"path", "io", "bufio", "encoding/binary", "math", "math/bits", "time", "sync/atomic", "container/list", "container/heap", "maps", "iter", "internal/stringslite", "github.com/influxdata/influxql", "github.com/zeebo/mwc",
}

type loaded struct {
	prog  *ssa.Program
	pkgs  map[string]*ssa.Package
	roots []string
}

func repoEnv() []string {
	var env []string
	for _, e := range os.Environ() {
		if strings.HasPrefix(e, "GOTOOLCHAIN=") || strings.HasPrefix(e, "GOSUMDB=") || strings.HasPrefix(e, "GOFLAGS=") {
			continue // the repo's go.mod selects its own (cached) toolchain
		}
		env = append(env, e)
	}
	env = append(env, "GOFLAGS=-mod=mod", "GOPROXY=off", "PKG_CONFIG_PATH="+verifDir+"/build/libflux", "CGO_ENABLED=1", "CGO_LDFLAGS=-O2 -g -L"+verifDir+"/build/libflux")
	return env
}

func loadProgram(patterns []string, overlay map[string][]byte) (*loaded, error) {
	cfg := &packages.Config{
		Mode: packages.NeedName | packages.NeedFiles | packages.NeedCompiledGoFiles | packages.NeedImports |
			packages.NeedTypes | packages.NeedSyntax | packages.NeedTypesInfo | packages.NeedTypesSizes,
		Dir:     repoDir,
		Env:     repoEnv(),
		Overlay: overlay,
	}
	initial, err := packages.Load(cfg, patterns...)
	if err != nil {
		return nil, err
	}
	var errs []string
	for _, p := range initial {
		for _, e := range p.Errors {
			errs = append(errs, fmt.Sprintf("%s: %s", p.PkgPath, e))
		}
	}
	if len(errs) > 0 {
		return nil, fmt.Errorf("package load errors:\n%s", strings.Join(errs, "\n"))
	}
	prog := ssa.NewProgram(initial[0].Fset, ssa.InstantiateGenerics|ssa.SanityCheckFunctions&0)
	res := &loaded{prog: prog, pkgs: map[string]*ssa.Package{}}
	created := map[*types.Package]bool{}
	for _, p := range initial {
		if p.Types == nil || created[p.Types] {
			continue
		}
		sp := prog.CreatePackage(p.Types, p.Syntax, p.TypesInfo, true)
		created[p.Types] = true
		res.pkgs[p.PkgPath] = sp
		res.roots = append(res.roots, p.PkgPath)
	}
	// body-less SSA packages for everything that came from export data
	var visit func(tp *types.Package)
	visit = func(tp *types.Package) {
		for _, imp := range tp.Imports() {
			if !created[imp] {
				created[imp] = true
				sp := prog.CreatePackage(imp, nil, nil, true)
				res.pkgs[imp.Path()] = sp
				visit(imp)
			}
		}
	}
	for _, p := range initial {
		if p.Types != nil {
			visit(p.Types)
		}
	}
	prog.Build()
	sort.Strings(res.roots)
	return res, nil
}
