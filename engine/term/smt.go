package term

import (
	"bufio"
	"fmt"
	"io"
	"os/exec"
	"strconv"
	"strings"
	"time"
)

// ---------- SMT-LIB2 printing ----------

func constStr(t *T) string {
	switch t.S.K {
	case KBool:
		if t.C == 1 {
			return "true"
		}
		return "false"
	case KBV:
		if t.S.W%4 == 0 {
			return fmt.Sprintf("#x%0*x", int(t.S.W)/4, t.C)
		}
		return fmt.Sprintf("#b%0*b", int(t.S.W), t.C)
	default:
		if t.S.W == 32 {
			return fmt.Sprintf("((_ to_fp 8 24) #x%08x)", t.C)
		}
		return fmt.Sprintf("((_ to_fp 11 53) #x%016x)", t.C)
	}
}

func ref(t *T) string {
	switch t.Op {
	case OConst:
		return constStr(t)
	case OVar:
		return "x" + strconv.Itoa(int(t.ID))
	}
	return "t" + strconv.Itoa(int(t.ID))
}

var rmodes = []string{"RTZ", "RTN", "RTP", "RNE", "RNA"}

func body(t *T) string {
	switch t.Op {
	case OExtract:
		return fmt.Sprintf("((_ extract %d %d) %s)", t.C>>8, t.C&0xff, ref(t.X))
	case OZExt:
		return fmt.Sprintf("((_ zero_extend %d) %s)", int(t.S.W)-int(t.X.S.W), ref(t.X))
	case OSExt:
		return fmt.Sprintf("((_ sign_extend %d) %s)", int(t.S.W)-int(t.X.S.W), ref(t.X))
	case OFAdd:
		return fmt.Sprintf("(fp.add RNE %s %s)", ref(t.X), ref(t.Y))
	case OFSub:
		return fmt.Sprintf("(fp.sub RNE %s %s)", ref(t.X), ref(t.Y))
	case OFMul:
		return fmt.Sprintf("(fp.mul RNE %s %s)", ref(t.X), ref(t.Y))
	case OFDiv:
		return fmt.Sprintf("(fp.div RNE %s %s)", ref(t.X), ref(t.Y))
	case OFSqrt:
		return fmt.Sprintf("(fp.sqrt RNE %s)", ref(t.X))
	case OFRound:
		return fmt.Sprintf("(fp.roundToIntegral %s %s)", rmodes[t.C], ref(t.X))
	case OFFromSBV:
		return fmt.Sprintf("((_ to_fp %s) RNE %s)", fpIdx(t.S), ref(t.X))
	case OFFromUBV:
		return fmt.Sprintf("((_ to_fp_unsigned %s) RNE %s)", fpIdx(t.S), ref(t.X))
	case OFToSBV:
		return fmt.Sprintf("((_ fp.to_sbv %d) RTZ %s)", t.S.W, ref(t.X))
	case OFToUBV:
		return fmt.Sprintf("((_ fp.to_ubv %d) RTZ %s)", t.S.W, ref(t.X))
	case OFToFP:
		return fmt.Sprintf("((_ to_fp %s) RNE %s)", fpIdx(t.S), ref(t.X))
	case OFFromBits:
		return fmt.Sprintf("((_ to_fp %s) %s)", fpIdx(t.S), ref(t.X))
	}
	name := opNames[t.Op]
	if name == "" {
		panic(fmt.Sprintf("smt: no name for op %d", t.Op))
	}
	var sb strings.Builder
	sb.WriteByte('(')
	sb.WriteString(name)
	for _, a := range []*T{t.X, t.Y, t.Z} {
		if a != nil {
			sb.WriteByte(' ')
			sb.WriteString(ref(a))
		}
	}
	sb.WriteByte(')')
	return sb.String()
}

func fpIdx(s Sort) string {
	if s.W == 32 {
		return "8 24"
	}
	return "11 53"
}

// ---------- solver process ----------

type Result int

const (
	Unsat Result = iota
	Sat
	Unknown
)

func (r Result) String() string { return [...]string{"unsat", "sat", "unknown"}[r] }

// Solver drives one persistent SMT solver process. Terms are sent as define-funs, once
// per scope; Push/Pop mirror solver scopes.
type Solver struct {
	Name      string
	cmd       *exec.Cmd
	in        *bufio.Writer
	out       *bufio.Reader
	emitted   map[uint32]int // term id -> scope level at which it was defined
	stack     [][]uint32     // ids defined per level
	vars      []*T           // declared variables (in the current scopes)
	varStack  []int
	Queries   int
	SolveTime time.Duration
	ByResult  [3]int
	Log       io.Writer
	timeoutMs int
	SlowHook  func(d time.Duration, res Result)
	Hist      [][]string // lines sent per live scope (only when KeepHist)
	KeepHist  bool
}

// NewSolver starts a solver. kind: "z3-new", "z3", "cvc5".
func NewSolver(kind string, timeoutMs int) (*Solver, error) {
	var cmd *exec.Cmd
	switch kind {
	case "z3-new", "z3":
		cmd = exec.Command(kind, "-in", "-smt2")
	case "cvc5":
		cmd = exec.Command("cvc5", "--incremental", "--lang=smt2", "--produce-models", fmt.Sprintf("--tlimit-per=%d", timeoutMs), "--fp-exp")
	default:
		return nil, fmt.Errorf("unknown solver %q", kind)
	}
	stdin, err := cmd.StdinPipe()
	if err != nil {
		return nil, err
	}
	stdout, err := cmd.StdoutPipe()
	if err != nil {
		return nil, err
	}
	cmd.Stderr = cmd.Stdout
	if err := cmd.Start(); err != nil {
		return nil, err
	}
	s := &Solver{Name: kind, cmd: cmd, in: bufio.NewWriterSize(stdin, 1<<16), out: bufio.NewReaderSize(stdout, 1<<16),
		emitted: map[uint32]int{}, stack: [][]uint32{nil}, varStack: nil, timeoutMs: timeoutMs}
	if kind == "cvc5" {
		s.send("(set-logic ALL)")
	} else {
		s.send("(set-option :produce-models true)")
		s.send(fmt.Sprintf("(set-option :timeout %d)", timeoutMs))
		if kind == "z3-new" {
			// z3's incremental core is slow on bit-vector arithmetic; after a short slice fall
			// back to the tactic-based solver for the query at hand
			s.send("(set-option :combined_solver.solver2_timeout 40)")
		}
	}
	return s, nil
}

func (s *Solver) send(line string) {
	if s.KeepHist {
		if len(s.Hist) == 0 {
			s.Hist = [][]string{nil}
		}
		switch {
		case line == "(push 1)":
			s.Hist = append(s.Hist, nil)
		case line == "(pop 1)":
			s.Hist = s.Hist[:len(s.Hist)-1]
		case strings.HasPrefix(line, "(check-sat") || strings.HasPrefix(line, "(echo") || strings.HasPrefix(line, "(get-value"):
		default:
			s.Hist[len(s.Hist)-1] = append(s.Hist[len(s.Hist)-1], line)
		}
	}
	if s.Log != nil {
		fmt.Fprintln(s.Log, line)
	}
	s.in.WriteString(line)
	s.in.WriteByte('\n')
}

func (s *Solver) Close() {
	if s.cmd != nil {
		s.send("(exit)")
		s.in.Flush()
		s.cmd.Process.Kill()
		s.cmd.Wait()
		s.cmd = nil
	}
}

func (s *Solver) Level() int { return len(s.stack) - 1 }

func (s *Solver) Push() {
	s.send("(push 1)")
	s.stack = append(s.stack, nil)
	s.varStack = append(s.varStack, len(s.vars))
}

func (s *Solver) Pop() {
	s.send("(pop 1)")
	top := s.stack[len(s.stack)-1]
	for _, id := range top {
		delete(s.emitted, id)
	}
	s.stack = s.stack[:len(s.stack)-1]
	s.vars = s.vars[:s.varStack[len(s.varStack)-1]]
	s.varStack = s.varStack[:len(s.varStack)-1]
}

// PopTo pops scopes until the given level.
func (s *Solver) PopTo(level int) {
	for s.Level() > level {
		s.Pop()
	}
}

// define emits declarations/definitions for t's DAG (iteratively, post-order).
func (s *Solver) define(t *T) {
	if t.Op == OConst {
		return
	}
	if _, ok := s.emitted[t.ID]; ok {
		return
	}
	type fr struct {
		t *T
		i int
	}
	st := []fr{{t, 0}}
	for len(st) > 0 {
		f := &st[len(st)-1]
		var next *T
		for f.i < 3 && next == nil {
			switch f.i {
			case 0:
				next = f.t.X
			case 1:
				next = f.t.Y
			case 2:
				next = f.t.Z
			}
			f.i++
			if next != nil {
				if next.Op == OConst {
					next = nil
				} else if _, ok := s.emitted[next.ID]; ok {
					next = nil
				}
			}
		}
		if next != nil {
			st = append(st, fr{next, 0})
			continue
		}
		cur := f.t
		st = st[:len(st)-1]
		if _, ok := s.emitted[cur.ID]; ok {
			continue
		}
		if cur.Op == OVar {
			s.send(fmt.Sprintf("(declare-const %s %s)", ref(cur), cur.S))
			s.vars = append(s.vars, cur)
		} else {
			s.send(fmt.Sprintf("(define-fun %s () %s %s)", ref(cur), cur.S, body(cur)))
		}
		lvl := s.Level()
		s.emitted[cur.ID] = lvl
		s.stack[lvl] = append(s.stack[lvl], cur.ID)
	}
}

func (s *Solver) Assert(t *T) {
	s.define(t)
	s.send("(assert " + ref(t) + ")")
}

func (s *Solver) readLine() (string, error) {
	for {
		line, err := s.out.ReadString('\n')
		if err != nil {
			return "", err
		}
		line = strings.TrimSpace(line)
		if line == "" {
			continue
		}
		return line, nil
	}
}

// Check runs check-sat. Any "(error" output makes the query inconclusive (Unknown).
// Check decides the current assertion stack. An `unknown` without a solver error (a
// timeout: the limit is wall-clock, so a loaded machine can turn a decidable query into
// one) is retried once with three times the limit before it is reported.
func (s *Solver) Check() (Result, error) {
	r, err := s.checkOnce()
	if r == Unknown && err == nil && s.Name != "cvc5" {
		s.send(fmt.Sprintf("(set-option :timeout %d)", 3*s.timeoutMs))
		s.ByResult[Unknown]--
		r, err = s.checkOnce()
		s.send(fmt.Sprintf("(set-option :timeout %d)", s.timeoutMs))
	}
	return r, err
}

func (s *Solver) checkOnce() (Result, error) {
	s.send("(check-sat)")
	s.send(`(echo "<<done>>")`)
	if err := s.in.Flush(); err != nil {
		return Unknown, err
	}
	t0 := time.Now()
	res := Unknown
	seen := false
	var errLine string
	for {
		line, err := s.readLine()
		if err != nil {
			return Unknown, fmt.Errorf("solver %s died: %v (last error: %s)", s.Name, err, errLine)
		}
		if line == "<<done>>" || line == `"<<done>>"` {
			break
		}
		switch {
		case line == "sat" && !seen:
			res, seen = Sat, true
		case line == "unsat" && !seen:
			res, seen = Unsat, true
		case line == "unknown" || line == "timeout":
			res, seen = Unknown, true
		case strings.HasPrefix(line, "(error"):
			errLine = line
		}
	}
	s.Queries++
	s.SolveTime += time.Since(t0)
	if s.SlowHook != nil && time.Since(t0) > 2*time.Second {
		s.SlowHook(time.Since(t0), res)
	}
	if errLine != "" {
		s.ByResult[Unknown]++
		return Unknown, fmt.Errorf("solver error: %s", errLine)
	}
	s.ByResult[res]++
	return res, nil
}

// Model returns the values of all variables declared in the live scopes.
func (s *Solver) Model() (Model, error) {
	m := Model{}
	if len(s.vars) == 0 {
		return m, nil
	}
	var sb strings.Builder
	sb.WriteString("(get-value (")
	for _, v := range s.vars {
		sb.WriteString(ref(v))
		sb.WriteByte(' ')
	}
	sb.WriteString("))")
	s.send(sb.String())
	s.send(`(echo "<<done>>")`)
	if err := s.in.Flush(); err != nil {
		return nil, err
	}
	var all strings.Builder
	for {
		line, err := s.readLine()
		if err != nil {
			return nil, err
		}
		if line == "<<done>>" || line == `"<<done>>"` {
			break
		}
		all.WriteString(line)
		all.WriteByte(' ')
	}
	txt := all.String()
	if strings.Contains(txt, "(error") {
		return nil, fmt.Errorf("get-value: %s", txt)
	}
	byRef := map[string]*T{}
	for _, v := range s.vars {
		byRef[ref(v)] = v
	}
	// tokens: ( ( x12 #x00ff ) ( x13 true ) ... )
	toks := strings.Fields(strings.NewReplacer("(", " ( ", ")", " ) ").Replace(txt))
	for i := 0; i+1 < len(toks); i++ {
		v, ok := byRef[toks[i]]
		if !ok {
			continue
		}
		val := toks[i+1]
		var u uint64
		switch {
		case val == "true":
			u = 1
		case val == "false":
			u = 0
		case strings.HasPrefix(val, "#x"):
			u, _ = strconv.ParseUint(val[2:], 16, 64)
		case strings.HasPrefix(val, "#b"):
			u, _ = strconv.ParseUint(val[2:], 2, 64)
		case val == "(" && i+3 < len(toks) && toks[i+2] == "_" && strings.HasPrefix(toks[i+3], "bv"):
			u, _ = strconv.ParseUint(toks[i+3][2:], 10, 64)
		default:
			return nil, fmt.Errorf("get-value: cannot parse value %q for %s", val, v.Name)
		}
		m[v.Name] = u
	}
	return m, nil
}
