// Package term implements hash-consed SMT terms (Bool, bit-vectors up to 64 bits,
// IEEE floats) with a constant-folding simplifier, an evaluator under a model and an
// SMT-LIB2 printer. Go integers are always bit-vectors (wrap-around semantics).
package term

import (
	"fmt"
	"math"
	"math/bits"
)

type Kind uint8

const (
	KBool Kind = iota
	KBV
	KFP
)

type Sort struct {
	K Kind
	W uint8 // BV: 1..64; FP: 32 or 64
}

var (
	Bool  = Sort{KBool, 0}
	BV8   = Sort{KBV, 8}
	BV16  = Sort{KBV, 16}
	BV32  = Sort{KBV, 32}
	BV64  = Sort{KBV, 64}
	FP64  = Sort{KFP, 64}
	FP32  = Sort{KFP, 32}
)

func BVSort(w int) Sort { return Sort{KBV, uint8(w)} }

func (s Sort) String() string {
	switch s.K {
	case KBool:
		return "Bool"
	case KBV:
		return fmt.Sprintf("(_ BitVec %d)", s.W)
	default:
		if s.W == 32 {
			return "(_ FloatingPoint 8 24)"
		}
		return "(_ FloatingPoint 11 53)"
	}
}

type Op uint8

const (
	OConst Op = iota
	OVar
	// bool
	ONot
	OAnd
	OOr
	OEq // any sort (for FP: bitwise/"=" identity is NOT used; see OFEq)
	OIte
	// bv
	OAdd
	OSub
	OMul
	OUDiv
	OURem
	OSDiv
	OSRem
	OBAnd
	OBOr
	OBXor
	OBNot
	ONeg
	OShl
	OLShr
	OAShr
	OULt
	OULe
	OSLt
	OSLe
	OExtract // C = hi<<8 | lo
	OConcat
	OZExt // to sort width
	OSExt
	// fp
	OFAdd
	OFSub
	OFMul
	OFDiv
	OFNeg
	OFAbs
	OFSqrt
	OFLt
	OFLe
	OFEq
	OFIsNaN
	OFIsInf
	OFFromSBV // bv -> fp (signed)
	OFFromUBV
	OFToSBV // fp -> bv (RTZ), result width in sort
	OFToUBV
	OFToFP     // fp -> fp other width (RNE)
	OFFromBits // bv -> fp reinterpret
	OFRound    // C = mode: 0 RTZ(trunc) 1 RTN(floor) 2 RTP(ceil) 3 RNE 4 RNA
	OFMin
	OFMax
)

var opNames = map[Op]string{
	ONot: "not", OAnd: "and", OOr: "or", OEq: "=", OIte: "ite",
	OAdd: "bvadd", OSub: "bvsub", OMul: "bvmul", OUDiv: "bvudiv", OURem: "bvurem", OSDiv: "bvsdiv", OSRem: "bvsrem",
	OBAnd: "bvand", OBOr: "bvor", OBXor: "bvxor", OBNot: "bvnot", ONeg: "bvneg", OShl: "bvshl", OLShr: "bvlshr", OAShr: "bvashr",
	OULt: "bvult", OULe: "bvule", OSLt: "bvslt", OSLe: "bvsle", OConcat: "concat",
	OFNeg: "fp.neg", OFAbs: "fp.abs", OFLt: "fp.lt", OFLe: "fp.leq", OFEq: "fp.eq", OFIsNaN: "fp.isNaN", OFIsInf: "fp.isInfinite",
	OFMin: "fp.min", OFMax: "fp.max",
}

type T struct {
	Op      Op
	S       Sort
	X, Y, Z *T
	C       uint64
	Name    string
	ID      uint32
	// signed value range of a bit-vector term (valid when ROK), computed at construction
	RLo, RHi int64
	ROK      bool
	// variable support: NV = number of distinct variables (capped at 2 = "several"),
	// V1 = the variable when NV == 1
	NV uint8
	V1 *T
	tt *[4]uint64 // truth table over V1's values (Bool terms with a single variable of <= 8 bits)
}

func (t *T) IsConst() bool { return t.Op == OConst }
func (t *T) IsTrue() bool  { return t.Op == OConst && t.S.K == KBool && t.C == 1 }
func (t *T) IsFalse() bool { return t.Op == OConst && t.S.K == KBool && t.C == 0 }

type key struct {
	op      Op
	s       Sort
	x, y, z uint32
	c       uint64
	name    string
}

// Table interns terms. Not safe for concurrent use: one Table per worker.
type Table struct {
	m      map[key]*T
	next   uint32
	Vars   []*T
	tt, ff *T
}

func NewTable() *Table {
	tb := &Table{m: make(map[key]*T, 1<<12), next: 1}
	tb.tt = tb.mk(OConst, Bool, nil, nil, nil, 1, "")
	tb.ff = tb.mk(OConst, Bool, nil, nil, nil, 0, "")
	return tb
}

func id(t *T) uint32 {
	if t == nil {
		return 0
	}
	return t.ID
}

func (tb *Table) mk(op Op, s Sort, x, y, z *T, c uint64, name string) *T {
	k := key{op, s, id(x), id(y), id(z), c, name}
	if t, ok := tb.m[k]; ok {
		return t
	}
	t := &T{Op: op, S: s, X: x, Y: y, Z: z, C: c, Name: name, ID: tb.next}
	tb.next++
	tb.m[k] = t
	if s.K == KBV {
		t.RLo, t.RHi, t.ROK = computeRange(t)
	}
	if op == OVar {
		t.NV, t.V1 = 1, t
	} else {
		for _, a := range [3]*T{x, y, z} {
			if a == nil || a.NV == 0 {
				continue
			}
			switch {
			case t.NV == 0:
				t.NV, t.V1 = a.NV, a.V1
			case a.NV >= 2 || t.NV >= 2 || a.V1 != t.V1:
				t.NV, t.V1 = 2, nil
			}
		}
	}
	return t
}

// SmallVar reports whether t depends on exactly one variable of at most 8 bits.
func (t *T) SmallVar() *T {
	if t.NV == 1 && t.V1 != nil && t.V1.S.K == KBV && t.V1.S.W <= 8 {
		return t.V1
	}
	return nil
}

// TruthTable returns, for a Bool term over a single small variable, the set of values of
// that variable for which the term holds (bit i of the 256-bit set).
func (t *T) TruthTable() *[4]uint64 {
	if t.tt != nil {
		return t.tt
	}
	v := t.SmallVar()
	if v == nil || t.S.K != KBool {
		return nil
	}
	var tt [4]uint64
	n := 1 << v.S.W
	m := Model{}
	for val := 0; val < n; val++ {
		m[v.Name] = uint64(val)
		e := &Evaluator{M: m, cache: make(map[*T]uint64, 64)}
		if e.Eval(t) == 1 {
			tt[val>>6] |= 1 << (uint(val) & 63)
		}
	}
	t.tt = &tt
	return t.tt
}

// Vars collects the distinct variables of t.
func (t *T) Vars(seen map[*T]bool, out map[*T]bool) {
	if t == nil || t.NV == 0 || seen[t] {
		return
	}
	seen[t] = true
	if t.Op == OVar {
		out[t] = true
		return
	}
	if t.NV == 1 {
		out[t.V1] = true
		return
	}
	t.X.Vars(seen, out)
	t.Y.Vars(seen, out)
	t.Z.Vars(seen, out)
}

func addOvf(a, b int64) (int64, bool) {
	c := a + b
	return c, (a >= 0) == (b >= 0) && (c >= 0) != (a >= 0)
}
func mulOvf(a, b int64) (int64, bool) {
	if a == 0 || b == 0 {
		return 0, false
	}
	c := a * b
	return c, c/b != a || (a == -1 && b == math.MinInt64) || (b == -1 && a == math.MinInt64)
}

// computeRange derives a signed interval for t (as a w-bit two's complement number).
func computeRange(t *T) (lo, hi int64, ok bool) {
	w := t.S.W
	fits := func(lo, hi int64) (int64, int64, bool) {
		if lo > hi {
			return 0, 0, false
		}
		if w < 64 {
			mn, mx := -(int64(1) << (w - 1)), (int64(1)<<(w-1))-1
			if lo < mn || hi > mx {
				return 0, 0, false
			}
		}
		return lo, hi, true
	}
	switch t.Op {
	case OConst:
		v := sext(t.C, w)
		return v, v, true
	case OZExt:
		if t.X.ROK && t.X.RLo >= 0 {
			return t.X.RLo, t.X.RHi, true
		}
		if t.X.S.W < 63 {
			return 0, int64(mask(t.X.S.W)), true
		}
	case OSExt:
		if t.X.ROK {
			return t.X.RLo, t.X.RHi, true
		}
		xw := t.X.S.W
		return -(int64(1) << (xw - 1)), (int64(1) << (xw - 1)) - 1, true
	case OAdd:
		if t.X.ROK && t.Y.ROK {
			l, o1 := addOvf(t.X.RLo, t.Y.RLo)
			h, o2 := addOvf(t.X.RHi, t.Y.RHi)
			if !o1 && !o2 {
				return fits(l, h)
			}
		}
	case OSub:
		if t.X.ROK && t.Y.ROK && t.Y.RLo != math.MinInt64 && t.Y.RHi != math.MinInt64 {
			l, o1 := addOvf(t.X.RLo, -t.Y.RHi)
			h, o2 := addOvf(t.X.RHi, -t.Y.RLo)
			if !o1 && !o2 {
				return fits(l, h)
			}
		}
	case ONeg:
		if t.X.ROK && t.X.RLo != math.MinInt64 {
			return fits(-t.X.RHi, -t.X.RLo)
		}
	case OMul:
		if t.X.ROK && t.Y.ROK {
			cands := [4][2]int64{{t.X.RLo, t.Y.RLo}, {t.X.RLo, t.Y.RHi}, {t.X.RHi, t.Y.RLo}, {t.X.RHi, t.Y.RHi}}
			l, h := int64(math.MaxInt64), int64(math.MinInt64)
			for _, c := range cands {
				p, o := mulOvf(c[0], c[1])
				if o {
					return 0, 0, false
				}
				l, h = min(l, p), max(h, p)
			}
			return fits(l, h)
		}
	case OIte:
		if t.Y.ROK && t.Z.ROK {
			return min(t.Y.RLo, t.Z.RLo), max(t.Y.RHi, t.Z.RHi), true
		}
	case OURem:
		if t.Y.Op == OConst && sext(t.Y.C, w) > 0 {
			d := sext(t.Y.C, w)
			if t.X.ROK && t.X.RLo >= 0 && t.X.RHi < d {
				return t.X.RLo, t.X.RHi, true
			}
			return 0, d - 1, true
		}
	case OSRem:
		if t.Y.Op == OConst && sext(t.Y.C, w) > 0 {
			d := sext(t.Y.C, w)
			if t.X.ROK && t.X.RLo >= 0 {
				return 0, d - 1, true
			}
			return -(d - 1), d - 1, true
		}
	case OUDiv:
		if t.Y.Op == OConst && sext(t.Y.C, w) > 0 && t.X.ROK && t.X.RLo >= 0 {
			d := sext(t.Y.C, w)
			return t.X.RLo / d, t.X.RHi / d, true
		}
	case OSDiv:
		if t.Y.Op == OConst && sext(t.Y.C, w) > 0 && t.X.ROK {
			d := sext(t.Y.C, w)
			return t.X.RLo / d, t.X.RHi / d, true
		}
	case OBAnd:
		if t.Y.Op == OConst && sext(t.Y.C, w) >= 0 {
			return 0, sext(t.Y.C, w), true
		}
		if t.X.Op == OConst && sext(t.X.C, w) >= 0 {
			return 0, sext(t.X.C, w), true
		}
	case OLShr:
		if t.Y.Op == OConst && t.Y.C > 0 && t.Y.C < uint64(w) {
			return 0, int64(mask(w) >> t.Y.C), true
		}
	case OExtract:
		if t.C&0xff == 0 && t.X.ROK && t.X.RLo >= 0 && w < 64 && t.X.RHi <= (int64(1)<<(w-1))-1 {
			return t.X.RLo, t.X.RHi, true
		}
	}
	return 0, 0, false
}

func bitsFor(v uint64) int { return bits.Len64(v) }

// Size returns the number of interned terms.
func (tb *Table) Size() int { return len(tb.m) }

func mask(w uint8) uint64 {
	if w >= 64 {
		return ^uint64(0)
	}
	return (uint64(1) << w) - 1
}

func sext(v uint64, w uint8) int64 {
	if w >= 64 {
		return int64(v)
	}
	sh := 64 - uint(w)
	return int64(v<<sh) >> sh
}

func (tb *Table) True() *T  { return tb.tt }
func (tb *Table) False() *T { return tb.ff }
func (tb *Table) BoolC(b bool) *T {
	if b {
		return tb.tt
	}
	return tb.ff
}
func (tb *Table) BV(w int, v uint64) *T {
	return tb.mk(OConst, Sort{KBV, uint8(w)}, nil, nil, nil, v&mask(uint8(w)), "")
}
func (tb *Table) F64(f float64) *T {
	return tb.mk(OConst, FP64, nil, nil, nil, math.Float64bits(f), "")
}
func (tb *Table) F32(f float32) *T {
	return tb.mk(OConst, FP32, nil, nil, nil, uint64(math.Float32bits(f)), "")
}
func (tb *Table) fpConst(s Sort, f float64) *T {
	if s.W == 32 {
		return tb.F32(float32(f))
	}
	return tb.F64(f)
}

// Var declares (or returns) a free variable. FP inputs are declared as bit-vector
// variables and reinterpreted by the caller (FromBits) so that models are bit-exact.
func (tb *Table) Var(name string, s Sort) *T {
	k := key{OVar, s, 0, 0, 0, 0, name}
	if t, ok := tb.m[k]; ok {
		return t
	}
	t := tb.mk(OVar, s, nil, nil, nil, 0, name)
	tb.Vars = append(tb.Vars, t)
	return t
}

// Float returns the float value of an FP constant.
func (t *T) Float() float64 {
	if t.S.W == 32 {
		return float64(math.Float32frombits(uint32(t.C)))
	}
	return math.Float64frombits(t.C)
}

// Int returns the sign-extended value of a BV constant.
func (t *T) Int() int64 { return sext(t.C, t.S.W) }

// ---------- boolean ----------

func (tb *Table) Not(x *T) *T {
	if x.Op == OConst {
		return tb.BoolC(x.C == 0)
	}
	if x.Op == ONot {
		return x.X
	}
	return tb.mk(ONot, Bool, x, nil, nil, 0, "")
}

func (tb *Table) And(x, y *T) *T {
	if x.Op == OConst {
		if x.C == 1 {
			return y
		}
		return tb.ff
	}
	if y.Op == OConst {
		if y.C == 1 {
			return x
		}
		return tb.ff
	}
	if x == y {
		return x
	}
	if (x.Op == ONot && x.X == y) || (y.Op == ONot && y.X == x) {
		return tb.ff
	}
	if x.ID > y.ID {
		x, y = y, x
	}
	return tb.mk(OAnd, Bool, x, y, nil, 0, "")
}

func (tb *Table) Or(x, y *T) *T {
	if x.Op == OConst {
		if x.C == 1 {
			return tb.tt
		}
		return y
	}
	if y.Op == OConst {
		if y.C == 1 {
			return tb.tt
		}
		return x
	}
	if x == y {
		return x
	}
	if (x.Op == ONot && x.X == y) || (y.Op == ONot && y.X == x) {
		return tb.tt
	}
	if x.ID > y.ID {
		x, y = y, x
	}
	return tb.mk(OOr, Bool, x, y, nil, 0, "")
}

func (tb *Table) Implies(x, y *T) *T { return tb.Or(tb.Not(x), y) }

func (tb *Table) Ite(c, a, b *T) *T {
	if c.Op == OConst {
		if c.C == 1 {
			return a
		}
		return b
	}
	if a == b {
		return a
	}
	if a.S.K == KBool {
		if a.IsTrue() && b.IsFalse() {
			return c
		}
		if a.IsFalse() && b.IsTrue() {
			return tb.Not(c)
		}
		if a.IsTrue() {
			return tb.Or(c, b)
		}
		if a.IsFalse() {
			return tb.And(tb.Not(c), b)
		}
		if b.IsTrue() {
			return tb.Or(tb.Not(c), a)
		}
		if b.IsFalse() {
			return tb.And(c, a)
		}
	}
	if c.Op == ONot {
		return tb.mk(OIte, a.S, c.X, b, a, 0, "")
	}
	return tb.mk(OIte, a.S, c, a, b, 0, "")
}

// Eq is structural equality of values of the same sort. For FP sorts it is SMT "="
// (NaN = NaN, +0 != -0); Go's == on floats is FEq.
func (tb *Table) Eq(x, y *T) *T {
	if x == y {
		return tb.tt
	}
	if x.S != y.S {
		panic(fmt.Sprintf("term.Eq: sort mismatch %v %v", x.S, y.S))
	}
	if x.Op == OConst && y.Op == OConst {
		return tb.BoolC(x.C == y.C)
	}
	if x.S.K == KBV && x.ROK && y.ROK && (x.RHi < y.RLo || y.RHi < x.RLo) {
		return tb.ff
	}
	if x.S.K == KBool {
		if x.Op == OConst {
			x, y = y, x
		}
		if y.Op == OConst {
			if y.C == 1 {
				return x
			}
			return tb.Not(x)
		}
		// p == !p is false (C06: "same float or both NaN" stated without forks)
		if (x.Op == ONot && x.X == y) || (y.Op == ONot && y.X == x) {
			return tb.ff
		}
	}
	if x.Op == OConst {
		x, y = y, x
	}
	if y.Op == OConst && x.S.K == KBV {
		switch x.Op {
		case OZExt:
			// zext(a) == c  <=>  c fits && a == c
			if y.C&^mask(x.X.S.W) != 0 {
				return tb.ff
			}
			return tb.Eq(x.X, tb.BV(int(x.X.S.W), y.C))
		case OSExt:
			if uint64(sext(y.C&mask(x.X.S.W), x.X.S.W))&mask(x.S.W) != y.C {
				return tb.ff
			}
			return tb.Eq(x.X, tb.BV(int(x.X.S.W), y.C))
		case OIte:
			// ite(c, k1, k2) == k with constant branches
			if x.Y.Op == OConst && x.Z.Op == OConst {
				a, b := x.Y.C == y.C, x.Z.C == y.C
				switch {
				case a && b:
					return tb.tt
				case a:
					return x.X
				case b:
					return tb.Not(x.X)
				default:
					return tb.ff
				}
			}
			if x.Y.Op == OConst || x.Z.Op == OConst {
				return tb.Ite(x.X, tb.Eq(x.Y, y), tb.Eq(x.Z, y))
			}
		case OAdd:
			if x.Y.Op == OConst { // a + k == c  <=> a == c-k
				return tb.Eq(x.X, tb.BV(int(x.S.W), y.C-x.Y.C))
			}
		}
	}
	if x.ID > y.ID {
		x, y = y, x
	}
	return tb.mk(OEq, Bool, x, y, nil, 0, "")
}

// ---------- bit-vectors ----------

func (tb *Table) bin(op Op, x, y *T) *T {
	if x.S != y.S {
		panic(fmt.Sprintf("term.bin(%v): sort mismatch %v %v", opNames[op], x.S, y.S))
	}
	w := x.S.W
	if x.Op == OConst && y.Op == OConst {
		a, b := x.C, y.C
		var r uint64
		switch op {
		case OAdd:
			r = a + b
		case OSub:
			r = a - b
		case OMul:
			r = a * b
		case OUDiv:
			if b == 0 {
				r = mask(w)
			} else {
				r = a / b
			}
		case OURem:
			if b == 0 {
				r = a
			} else {
				r = a % b
			}
		case OSDiv:
			sa, sb := sext(a, w), sext(b, w)
			if sb == 0 {
				if sa < 0 {
					r = 1
				} else {
					r = mask(w)
				}
			} else if sb == -1 {
				r = uint64(-sa)
			} else {
				r = uint64(sa / sb)
			}
		case OSRem:
			sa, sb := sext(a, w), sext(b, w)
			if sb == 0 {
				r = a
			} else if sb == -1 {
				r = 0
			} else {
				r = uint64(sa % sb)
			}
		case OBAnd:
			r = a & b
		case OBOr:
			r = a | b
		case OBXor:
			r = a ^ b
		case OShl:
			if b >= uint64(w) {
				r = 0
			} else {
				r = a << b
			}
		case OLShr:
			if b >= uint64(w) {
				r = 0
			} else {
				r = a >> b
			}
		case OAShr:
			sa := sext(a, w)
			if b >= uint64(w) {
				b = uint64(w) - 1
			}
			r = uint64(sa >> b)
		}
		return tb.BV(int(w), r)
	}
	// identities
	switch op {
	case OAdd:
		if x.Op == OConst {
			x, y = y, x
		}
		if y.Op == OConst {
			if y.C == 0 {
				return x
			}
			if x.Op == OAdd && x.Y.Op == OConst { // (a+k1)+k2
				return tb.bin(OAdd, x.X, tb.BV(int(w), x.Y.C+y.C))
			}
		}
	case OSub:
		if y.Op == OConst {
			if y.C == 0 {
				return x
			}
			return tb.bin(OAdd, x, tb.BV(int(w), -y.C))
		}
		if x == y {
			return tb.BV(int(w), 0)
		}
	case OMul:
		if x.Op == OConst {
			x, y = y, x
		}
		if y.Op == OConst {
			if y.C == 0 {
				return y
			}
			if y.C == 1 {
				return x
			}
			if y.C == mask(w) {
				return tb.Neg(x)
			}
		}
	case OBAnd:
		if x.Op == OConst {
			x, y = y, x
		}
		if y.Op == OConst {
			if y.C == 0 {
				return y
			}
			if y.C == mask(w) {
				return x
			}
			// zext(a) & m where m covers all of a's bits
			if x.Op == OZExt && y.C&mask(x.X.S.W) == mask(x.X.S.W) {
				return x
			}
		}
		if x == y {
			return x
		}
	case OBOr:
		if x.Op == OConst {
			x, y = y, x
		}
		if y.Op == OConst {
			if y.C == 0 {
				return x
			}
			if y.C == mask(w) {
				return y
			}
		}
		if x == y {
			return x
		}
	case OBXor:
		if x.Op == OConst {
			x, y = y, x
		}
		if y.Op == OConst && y.C == 0 {
			return x
		}
		if x == y {
			return tb.BV(int(w), 0)
		}
	case OShl, OLShr, OAShr:
		if y.Op == OConst && y.C == 0 {
			return x
		}
		if y.Op == OConst && y.C >= uint64(w) && op != OAShr {
			return tb.BV(int(w), 0)
		}
	case OUDiv, OSDiv:
		if y.Op == OConst && y.C == 1 {
			return x
		}
	case OURem:
		if y.Op == OConst && y.C == 1 {
			return tb.BV(int(w), 0)
		}
	}
	if r := tb.narrowDivRem(op, x, y); r != nil {
		return r
	}
	if (op == OAdd || op == OMul || op == OBAnd || op == OBOr || op == OBXor) && x.ID > y.ID && y.Op != OConst {
		x, y = y, x
	}
	return tb.mk(op, x.S, x, y, nil, 0, "")
}

// narrowDivRem rewrites division/remainder by a positive constant on an operand whose
// value range is known and narrow ("constant + few symbolic bits") into an operation on a
// narrow bit-vector, which bit-blasting solvers decide instantly:
//   x = lo + y, 0 <= y <= spread:  x mod d = ((lo mod d) + y) mod d ; x div d = lo div d + ((lo mod d) + y) div d
func (tb *Table) narrowDivRem(op Op, x, y *T) *T {
	if op != OURem && op != OUDiv && op != OSRem && op != OSDiv {
		return nil
	}
	w := int(x.S.W)
	if y.Op != OConst || !x.ROK || w < 16 {
		return nil
	}
	d := sext(y.C, x.S.W)
	if d <= 0 {
		return nil
	}
	signedOp := op == OSRem || op == OSDiv
	if x.RLo < 0 && x.RHi >= 0 && signedOp && x.RLo > -(1<<40) && x.RHi < 1<<40 {
		// narrow range crossing zero: split on the sign with clamped operands so that
		// both halves have a non-negative structural range
		zero := tb.BV(w, 0)
		neg := tb.cmp(OSLt, x, zero)
		uop := OURem
		if op == OSDiv {
			uop = OUDiv
		}
		half := func(v *T, maxv uint64) *T {
			nw := max(bitsFor(maxv), bitsFor(uint64(d))) + 1
			if nw < 4 {
				nw = 4
			}
			if nw >= w {
				return tb.mk(uop, x.S, v, y, nil, 0, "")
			}
			return tb.ZExt(tb.mk2(uop, tb.Extract(v, nw-1, 0), tb.BV(nw, uint64(d))), w)
		}
		return tb.Ite(neg, tb.Neg(half(tb.Neg(x), uint64(-x.RLo))), half(x, uint64(x.RHi)))
	}
	if x.RLo < 0 {
		if !signedOp || x.RHi >= 0 || x.RLo == math.MinInt64 {
			return nil
		}
		// entirely negative: truncated division semantics: x rem d = -((-x) rem d); x div d = -((-x) div d)
		nx := tb.Neg(x)
		if op == OSRem {
			return tb.Neg(tb.bin(OURem, nx, y))
		}
		return tb.Neg(tb.bin(OUDiv, nx, y))
	}
	// non-negative operand: signed and unsigned agree
	lo, hi := uint64(x.RLo), uint64(x.RHi)
	spread := hi - lo
	if spread >= 1<<40 || uint64(d) >= 1<<40 {
		if signedOp {
			if op == OSRem {
				return tb.mk(OURem, x.S, x, y, nil, 0, "")
			}
			return tb.mk(OUDiv, x.S, x, y, nil, 0, "")
		}
		return nil
	}
	nw := bitsFor(spread+uint64(d)) + 1
	if nw >= w {
		return nil
	}
	if nw < 4 {
		nw = 4
	}
	yv := tb.Extract(tb.bin(OSub, x, tb.BV(w, lo)), nw-1, 0) // y = x - lo, fits nw bits
	sum := tb.bin(OAdd, yv, tb.BV(nw, lo%uint64(d)))
	dn := tb.BV(nw, uint64(d))
	if op == OURem || op == OSRem {
		return tb.ZExt(tb.mk2(OURem, sum, dn), w)
	}
	q := tb.ZExt(tb.mk2(OUDiv, sum, dn), w)
	return tb.bin(OAdd, q, tb.BV(w, lo/uint64(d)))
}

// mk2 builds a binary node with constant folding only (no further narrowing).
func (tb *Table) mk2(op Op, x, y *T) *T {
	if x.Op == OConst && y.Op == OConst {
		return tb.bin(op, x, y)
	}
	return tb.mk(op, x.S, x, y, nil, 0, "")
}

func (tb *Table) Add(x, y *T) *T  { return tb.bin(OAdd, x, y) }
func (tb *Table) Sub(x, y *T) *T  { return tb.bin(OSub, x, y) }
func (tb *Table) Mul(x, y *T) *T  { return tb.bin(OMul, x, y) }
func (tb *Table) UDiv(x, y *T) *T { return tb.bin(OUDiv, x, y) }
func (tb *Table) URem(x, y *T) *T { return tb.bin(OURem, x, y) }
func (tb *Table) SDiv(x, y *T) *T { return tb.bin(OSDiv, x, y) }
func (tb *Table) SRem(x, y *T) *T { return tb.bin(OSRem, x, y) }
func (tb *Table) BAnd(x, y *T) *T { return tb.bin(OBAnd, x, y) }
func (tb *Table) BOr(x, y *T) *T  { return tb.bin(OBOr, x, y) }
func (tb *Table) BXor(x, y *T) *T { return tb.bin(OBXor, x, y) }
func (tb *Table) Shl(x, y *T) *T  { return tb.bin(OShl, x, y) }
func (tb *Table) LShr(x, y *T) *T { return tb.bin(OLShr, x, y) }
func (tb *Table) AShr(x, y *T) *T { return tb.bin(OAShr, x, y) }

func (tb *Table) BNot(x *T) *T {
	if x.Op == OConst {
		return tb.BV(int(x.S.W), ^x.C)
	}
	if x.Op == OBNot {
		return x.X
	}
	return tb.mk(OBNot, x.S, x, nil, nil, 0, "")
}

func (tb *Table) Neg(x *T) *T {
	if x.Op == OConst {
		return tb.BV(int(x.S.W), -x.C)
	}
	if x.Op == ONeg {
		return x.X
	}
	return tb.mk(ONeg, x.S, x, nil, nil, 0, "")
}

func (tb *Table) cmp(op Op, x, y *T) *T {
	if x.S != y.S {
		panic(fmt.Sprintf("term.cmp: sort mismatch %v %v", x.S, y.S))
	}
	w := x.S.W
	if x.Op == OConst && y.Op == OConst {
		switch op {
		case OULt:
			return tb.BoolC(x.C < y.C)
		case OULe:
			return tb.BoolC(x.C <= y.C)
		case OSLt:
			return tb.BoolC(sext(x.C, w) < sext(y.C, w))
		case OSLe:
			return tb.BoolC(sext(x.C, w) <= sext(y.C, w))
		}
	}
	if x == y {
		return tb.BoolC(op == OULe || op == OSLe)
	}
	if x.ROK && y.ROK {
		signedCmp := op == OSLt || op == OSLe
		if signedCmp || (x.RLo >= 0 && y.RLo >= 0) {
			switch op {
			case OSLt, OULt:
				if x.RHi < y.RLo {
					return tb.tt
				}
				if x.RLo >= y.RHi {
					return tb.ff
				}
			case OSLe, OULe:
				if x.RHi <= y.RLo {
					return tb.tt
				}
				if x.RLo > y.RHi {
					return tb.ff
				}
			}
		}
	}
	// range reasoning on zero-extended operands versus constants
	if lo, hi, ok := urange(x); ok && y.Op == OConst {
		c := y.C
		signedOK := hi < (uint64(1)<<(w-1)) && sext(c, w) >= 0 // both non-negative
		if op == OULt || (op == OSLt && signedOK) {
			if hi < c {
				return tb.tt
			}
			if lo >= c {
				return tb.ff
			}
		}
		if op == OULe || (op == OSLe && signedOK) {
			if hi <= c {
				return tb.tt
			}
			if lo > c {
				return tb.ff
			}
		}
		if (op == OSLt || op == OSLe) && hi < (uint64(1)<<(w-1)) && sext(c, w) < 0 {
			return tb.ff
		}
	}
	if lo, hi, ok := urange(y); ok && x.Op == OConst {
		c := x.C
		signedOK := hi < (uint64(1)<<(w-1)) && sext(c, w) >= 0
		if op == OULt || (op == OSLt && signedOK) {
			if c < lo {
				return tb.tt
			}
			if c >= hi {
				return tb.ff
			}
		}
		if op == OULe || (op == OSLe && signedOK) {
			if c <= lo {
				return tb.tt
			}
			if c > hi {
				return tb.ff
			}
		}
		if (op == OSLt || op == OSLe) && hi < (uint64(1)<<(w-1)) && sext(c, w) < 0 {
			return tb.tt
		}
	}
	return tb.mk(op, Bool, x, y, nil, 0, "")
}

// urange gives a cheap unsigned range for a term (used to fold comparisons).
func urange(x *T) (lo, hi uint64, ok bool) {
	switch x.Op {
	case OConst:
		return x.C, x.C, true
	case OZExt:
		return 0, mask(x.X.S.W), true
	case OBAnd:
		if x.Y.Op == OConst {
			return 0, x.Y.C, true
		}
	case OIte:
		l1, h1, ok1 := urange(x.Y)
		l2, h2, ok2 := urange(x.Z)
		if ok1 && ok2 {
			return min(l1, l2), max(h1, h2), true
		}
	}
	return 0, 0, false
}

func (tb *Table) ULt(x, y *T) *T { return tb.cmp(OULt, x, y) }
func (tb *Table) ULe(x, y *T) *T { return tb.cmp(OULe, x, y) }
func (tb *Table) SLt(x, y *T) *T { return tb.cmp(OSLt, x, y) }
func (tb *Table) SLe(x, y *T) *T { return tb.cmp(OSLe, x, y) }

func (tb *Table) Extract(x *T, hi, lo int) *T {
	w := hi - lo + 1
	if w == int(x.S.W) {
		return x
	}
	if x.Op == OConst {
		return tb.BV(w, x.C>>uint(lo))
	}
	if (x.Op == OZExt || x.Op == OSExt) && lo == 0 {
		iw := int(x.X.S.W)
		if w == iw {
			return x.X
		}
		if w < iw {
			return tb.Extract(x.X, hi, 0)
		}
		if x.Op == OZExt {
			return tb.ZExt(x.X, w)
		}
		return tb.SExt(x.X, w)
	}
	if x.Op == OZExt && lo >= int(x.X.S.W) {
		return tb.BV(w, 0)
	}
	if x.Op == OExtract {
		l0 := int(x.C & 0xff)
		return tb.Extract(x.X, hi+l0, lo+l0)
	}
	if lo == 0 {
		switch x.Op {
		case OAdd, OSub, OMul, OBAnd, OBOr, OBXor:
			return tb.bin(x.Op, tb.Extract(x.X, hi, 0), tb.Extract(x.Y, hi, 0))
		case ONeg:
			return tb.Neg(tb.Extract(x.X, hi, 0))
		case OBNot:
			return tb.BNot(tb.Extract(x.X, hi, 0))
		case OIte:
			return tb.Ite(x.X, tb.Extract(x.Y, hi, 0), tb.Extract(x.Z, hi, 0))
		}
	}
	if x.Op == OConcat {
		yw := int(x.Y.S.W)
		if hi < yw {
			return tb.Extract(x.Y, hi, lo)
		}
		if lo >= yw {
			return tb.Extract(x.X, hi-yw, lo-yw)
		}
	}
	return tb.mk(OExtract, Sort{KBV, uint8(w)}, x, nil, nil, uint64(hi)<<8|uint64(lo), "")
}

func (tb *Table) Concat(x, y *T) *T {
	w := int(x.S.W) + int(y.S.W)
	if w > 64 {
		panic("term.Concat: width > 64")
	}
	if x.Op == OConst && y.Op == OConst {
		return tb.BV(w, x.C<<y.S.W|y.C)
	}
	if x.Op == OConst && x.C == 0 {
		return tb.ZExt(y, w)
	}
	return tb.mk(OConcat, Sort{KBV, uint8(w)}, x, y, nil, 0, "")
}

func (tb *Table) ZExt(x *T, w int) *T {
	if int(x.S.W) == w {
		return x
	}
	if int(x.S.W) > w {
		panic("term.ZExt: narrowing")
	}
	if x.Op == OConst {
		return tb.BV(w, x.C)
	}
	if x.Op == OZExt {
		return tb.ZExt(x.X, w)
	}
	if x.Op == OIte && x.Y.Op == OConst && x.Z.Op == OConst {
		return tb.Ite(x.X, tb.ZExt(x.Y, w), tb.ZExt(x.Z, w))
	}
	return tb.mk(OZExt, Sort{KBV, uint8(w)}, x, nil, nil, 0, "")
}

func (tb *Table) SExt(x *T, w int) *T {
	if int(x.S.W) == w {
		return x
	}
	if int(x.S.W) > w {
		panic("term.SExt: narrowing")
	}
	if x.Op == OConst {
		return tb.BV(w, uint64(sext(x.C, x.S.W)))
	}
	if x.Op == OZExt { // sign bit is zero
		return tb.ZExt(x.X, w)
	}
	if x.Op == OSExt {
		return tb.SExt(x.X, w)
	}
	if x.Op == OIte && x.Y.Op == OConst && x.Z.Op == OConst {
		return tb.Ite(x.X, tb.SExt(x.Y, w), tb.SExt(x.Z, w))
	}
	return tb.mk(OSExt, Sort{KBV, uint8(w)}, x, nil, nil, 0, "")
}

// ---------- floating point ----------

func (tb *Table) fbin(op Op, x, y *T) *T {
	if x.S != y.S {
		panic("term.fbin: sort mismatch")
	}
	if x.Op == OConst && y.Op == OConst {
		a, b := x.Float(), y.Float()
		var r float64
		if x.S.W == 32 {
			a32, b32 := float32(a), float32(b)
			var r32 float32
			switch op {
			case OFAdd:
				r32 = a32 + b32
			case OFSub:
				r32 = a32 - b32
			case OFMul:
				r32 = a32 * b32
			case OFDiv:
				r32 = a32 / b32
			case OFMin:
				r32 = float32(math.Min(a, b))
			case OFMax:
				r32 = float32(math.Max(a, b))
			}
			return tb.F32(r32)
		}
		switch op {
		case OFAdd:
			r = a + b
		case OFSub:
			r = a - b
		case OFMul:
			r = a * b
		case OFDiv:
			r = a / b
		case OFMin:
			r = math.Min(a, b)
		case OFMax:
			r = math.Max(a, b)
		}
		return tb.F64(r)
	}
	if op == OFMul {
		// x * -1 is an exact sign flip in IEEE-754
		if y.Op == OConst && y.Float() == -1 {
			return tb.FNeg(x)
		}
		if x.Op == OConst && x.Float() == -1 {
			return tb.FNeg(y)
		}
	}
	return tb.mk(op, x.S, x, y, nil, 0, "")
}

func (tb *Table) FAdd(x, y *T) *T { return tb.fbin(OFAdd, x, y) }
func (tb *Table) FSub(x, y *T) *T { return tb.fbin(OFSub, x, y) }
func (tb *Table) FMul(x, y *T) *T { return tb.fbin(OFMul, x, y) }
func (tb *Table) FDiv(x, y *T) *T { return tb.fbin(OFDiv, x, y) }

func (tb *Table) FNeg(x *T) *T {
	if x.Op == OConst {
		return tb.fpConst(x.S, -x.Float())
	}
	return tb.mk(OFNeg, x.S, x, nil, nil, 0, "")
}
func (tb *Table) FAbs(x *T) *T {
	if x.Op == OConst {
		return tb.fpConst(x.S, math.Abs(x.Float()))
	}
	return tb.mk(OFAbs, x.S, x, nil, nil, 0, "")
}
func (tb *Table) FSqrt(x *T) *T {
	if x.Op == OConst {
		if x.S.W == 32 {
			return tb.F32(float32(math.Sqrt(x.Float())))
		}
		return tb.F64(math.Sqrt(x.Float()))
	}
	return tb.mk(OFSqrt, x.S, x, nil, nil, 0, "")
}
func (tb *Table) FRound(x *T, mode int) *T {
	if x.Op == OConst {
		return tb.fpConst(x.S, roundMode(x.Float(), mode))
	}
	return tb.mk(OFRound, x.S, x, nil, nil, uint64(mode), "")
}
func roundMode(f float64, mode int) float64 {
	switch mode {
	case 0:
		return math.Trunc(f)
	case 1:
		return math.Floor(f)
	case 2:
		return math.Ceil(f)
	case 3:
		return math.RoundToEven(f)
	default:
		return math.Round(f)
	}
}

func (tb *Table) fcmp(op Op, x, y *T) *T {
	if x == y {
		switch op {
		case OFEq, OFLe:
			return tb.Not(tb.FIsNaN(x))
		case OFLt:
			return tb.ff
		}
	}
	if x.Op == OConst && y.Op == OConst {
		a, b := x.Float(), y.Float()
		switch op {
		case OFLt:
			return tb.BoolC(a < b)
		case OFLe:
			return tb.BoolC(a <= b)
		case OFEq:
			return tb.BoolC(a == b)
		}
	}
	if x == y {
		// same term on both sides: x < x is false; x <= x and x == x hold iff x is not NaN
		// (the Go idiom `x != x` for "is NaN" becomes the cheap predicate fp.isNaN)
		if op == OFLt {
			return tb.ff
		}
		return tb.Not(tb.FIsNaN(x))
	}
	return tb.mk(op, Bool, x, y, nil, 0, "")
}
func (tb *Table) FLt(x, y *T) *T { return tb.fcmp(OFLt, x, y) }
func (tb *Table) FLe(x, y *T) *T { return tb.fcmp(OFLe, x, y) }
func (tb *Table) FEq(x, y *T) *T { return tb.fcmp(OFEq, x, y) }
// FIsNaN pushes the NaN test through arithmetic so that the (expensive) arithmetic
// circuit is not needed to decide it:
//   NaN(a/b) = NaN(a) | NaN(b) | (a=0 & b=0) | (inf(a) & inf(b))
//   NaN(a*b) = NaN(a) | NaN(b) | (a=0 & inf(b)) | (inf(a) & b=0)
//   NaN(a+b) = NaN(a) | NaN(b) | (inf(a) & inf(b) & sign(a) != sign(b))   (a-b: signs equal)
func (tb *Table) FIsNaN(x *T) *T {
	if x.Op == OConst {
		return tb.BoolC(math.IsNaN(x.Float()))
	}
	zero := func(t *T) *T { return tb.fcmp(OFEq, t, tb.fpConst(t.S, 0)) }
	neg := func(t *T) *T { return tb.fcmp(OFLt, t, tb.fpConst(t.S, 0)) }
	switch x.Op {
	case OFDiv:
		a, b := x.X, x.Y
		return tb.Or(tb.Or(tb.FIsNaN(a), tb.FIsNaN(b)), tb.Or(tb.And(zero(a), zero(b)), tb.And(tb.FIsInf(a), tb.FIsInf(b))))
	case OFMul:
		a, b := x.X, x.Y
		return tb.Or(tb.Or(tb.FIsNaN(a), tb.FIsNaN(b)), tb.Or(tb.And(zero(a), tb.FIsInf(b)), tb.And(tb.FIsInf(a), zero(b))))
	case OFAdd, OFSub:
		a, b := x.X, x.Y
		differ := tb.Not(tb.Eq(neg(a), neg(b)))
		if x.Op == OFSub {
			differ = tb.Eq(neg(a), neg(b))
		}
		return tb.Or(tb.Or(tb.FIsNaN(a), tb.FIsNaN(b)), tb.And(tb.And(tb.FIsInf(a), tb.FIsInf(b)), differ))
	case OFNeg, OFAbs:
		return tb.FIsNaN(x.X)
	case OFFromSBV, OFFromUBV:
		return tb.ff
	case OFToFP:
		return tb.FIsNaN(x.X)
	}
	return tb.mk(OFIsNaN, Bool, x, nil, nil, 0, "")
}
func (tb *Table) FIsInf(x *T) *T {
	if x.Op == OConst {
		return tb.BoolC(math.IsInf(x.Float(), 0))
	}
	return tb.mk(OFIsInf, Bool, x, nil, nil, 0, "")
}

// FFromBV converts an integer to floating point (round to nearest even).
func (tb *Table) FFromBV(x *T, signed bool, s Sort) *T {
	if x.Op == OConst {
		var f float64
		if signed {
			if s.W == 32 {
				return tb.F32(float32(x.Int()))
			}
			f = float64(x.Int())
		} else {
			if s.W == 32 {
				return tb.F32(float32(x.C))
			}
			f = float64(x.C)
		}
		return tb.F64(f)
	}
	op := OFFromUBV
	if signed {
		op = OFFromSBV
	}
	return tb.mk(op, s, x, nil, nil, 0, "")
}

// FToBV converts float to integer, rounding toward zero. Out-of-range is unspecified
// in SMT-LIB (and implementation-defined in Go): harnesses keep values in range.
func (tb *Table) FToBV(x *T, signed bool, w int) *T {
	if x.Op == OConst {
		f := x.Float()
		if signed {
			return tb.BV(w, uint64(int64(f)))
		}
		return tb.BV(w, uint64(f))
	}
	op := OFToUBV
	if signed {
		op = OFToSBV
	}
	return tb.mk(op, Sort{KBV, uint8(w)}, x, nil, nil, 0, "")
}

func (tb *Table) FToFP(x *T, s Sort) *T {
	if x.S == s {
		return x
	}
	if x.Op == OConst {
		return tb.fpConst(s, x.Float())
	}
	return tb.mk(OFToFP, s, x, nil, nil, 0, "")
}

// FFromBits reinterprets a bit-vector as a float of the same width.
func (tb *Table) FFromBits(x *T) *T {
	s := FP64
	if x.S.W == 32 {
		s = FP32
	}
	if x.Op == OConst {
		return tb.mk(OConst, s, nil, nil, nil, x.C, "")
	}
	return tb.mk(OFFromBits, s, x, nil, nil, 0, "")
}

// ---------- evaluation under a model ----------

// Model maps variable names to values (BV payload, bool 0/1).
type Model map[string]uint64

type Evaluator struct {
	M     Model
	cache map[*T]uint64
}

func NewEvaluator(m Model) *Evaluator { return &Evaluator{M: m, cache: make(map[*T]uint64)} }

func fl(t *T, v uint64) float64 {
	if t.S.W == 32 {
		return float64(math.Float32frombits(uint32(v)))
	}
	return math.Float64frombits(v)
}
func unfl(s Sort, f float64) uint64 {
	if s.W == 32 {
		return uint64(math.Float32bits(float32(f)))
	}
	return math.Float64bits(f)
}
func b2u(b bool) uint64 {
	if b {
		return 1
	}
	return 0
}

// Eval computes the value of t under the model; unassigned variables are zero.
func (e *Evaluator) Eval(t *T) uint64 {
	if t.Op == OConst {
		return t.C
	}
	if v, ok := e.cache[t]; ok {
		return v
	}
	if t.Op == OVar {
		return e.M[t.Name] & maskS(t.S)
	}
	v := e.eval(t)
	e.cache[t] = v
	return v
}

func maskS(s Sort) uint64 {
	switch s.K {
	case KBool:
		return 1
	case KBV:
		return mask(s.W)
	default:
		return mask(s.W)
	}
}

func (e *Evaluator) eval(t *T) uint64 {
	w := t.S.W
	switch t.Op {
	case ONot:
		return 1 - e.Eval(t.X)
	case OAnd:
		if e.Eval(t.X) == 0 {
			return 0
		}
		return e.Eval(t.Y)
	case OOr:
		if e.Eval(t.X) == 1 {
			return 1
		}
		return e.Eval(t.Y)
	case OEq:
		a, b := e.Eval(t.X), e.Eval(t.Y)
		if t.X.S.K == KFP {
			fa, fb := fl(t.X, a), fl(t.Y, b)
			if math.IsNaN(fa) && math.IsNaN(fb) {
				return 1
			}
		}
		return b2u(a == b)
	case OIte:
		if e.Eval(t.X) == 1 {
			return e.Eval(t.Y)
		}
		return e.Eval(t.Z)
	case OAdd, OSub, OMul, OUDiv, OURem, OSDiv, OSRem, OBAnd, OBOr, OBXor, OShl, OLShr, OAShr:
		tmp := Table{m: map[key]*T{}, next: 1}
		r := tmp.bin(t.Op, &T{Op: OConst, S: t.S, C: e.Eval(t.X)}, &T{Op: OConst, S: t.S, C: e.Eval(t.Y)})
		return r.C
	case OBNot:
		return ^e.Eval(t.X) & mask(w)
	case ONeg:
		return -e.Eval(t.X) & mask(w)
	case OULt:
		return b2u(e.Eval(t.X) < e.Eval(t.Y))
	case OULe:
		return b2u(e.Eval(t.X) <= e.Eval(t.Y))
	case OSLt:
		return b2u(sext(e.Eval(t.X), t.X.S.W) < sext(e.Eval(t.Y), t.X.S.W))
	case OSLe:
		return b2u(sext(e.Eval(t.X), t.X.S.W) <= sext(e.Eval(t.Y), t.X.S.W))
	case OExtract:
		lo := uint(t.C & 0xff)
		return (e.Eval(t.X) >> lo) & mask(w)
	case OConcat:
		return (e.Eval(t.X)<<t.Y.S.W | e.Eval(t.Y)) & mask(w)
	case OZExt:
		return e.Eval(t.X)
	case OSExt:
		return uint64(sext(e.Eval(t.X), t.X.S.W)) & mask(w)
	case OFAdd, OFSub, OFMul, OFDiv, OFMin, OFMax:
		tmp := Table{m: map[key]*T{}, next: 1}
		r := tmp.fbin(t.Op, &T{Op: OConst, S: t.S, C: e.Eval(t.X)}, &T{Op: OConst, S: t.S, C: e.Eval(t.Y)})
		return r.C
	case OFNeg:
		return unfl(t.S, -fl(t.X, e.Eval(t.X)))
	case OFAbs:
		return unfl(t.S, math.Abs(fl(t.X, e.Eval(t.X))))
	case OFSqrt:
		return unfl(t.S, math.Sqrt(fl(t.X, e.Eval(t.X))))
	case OFRound:
		return unfl(t.S, roundMode(fl(t.X, e.Eval(t.X)), int(t.C)))
	case OFLt:
		return b2u(fl(t.X, e.Eval(t.X)) < fl(t.Y, e.Eval(t.Y)))
	case OFLe:
		return b2u(fl(t.X, e.Eval(t.X)) <= fl(t.Y, e.Eval(t.Y)))
	case OFEq:
		return b2u(fl(t.X, e.Eval(t.X)) == fl(t.Y, e.Eval(t.Y)))
	case OFIsNaN:
		return b2u(math.IsNaN(fl(t.X, e.Eval(t.X))))
	case OFIsInf:
		return b2u(math.IsInf(fl(t.X, e.Eval(t.X)), 0))
	case OFFromSBV:
		v := sext(e.Eval(t.X), t.X.S.W)
		if t.S.W == 32 {
			return uint64(math.Float32bits(float32(v)))
		}
		return math.Float64bits(float64(v))
	case OFFromUBV:
		v := e.Eval(t.X)
		if t.S.W == 32 {
			return uint64(math.Float32bits(float32(v)))
		}
		return math.Float64bits(float64(v))
	case OFToSBV:
		return uint64(int64(fl(t.X, e.Eval(t.X)))) & mask(w)
	case OFToUBV:
		return uint64(fl(t.X, e.Eval(t.X))) & mask(w)
	case OFToFP:
		return unfl(t.S, fl(t.X, e.Eval(t.X)))
	case OFFromBits:
		return e.Eval(t.X)
	}
	panic(fmt.Sprintf("term.eval: op %d", t.Op))
}


// ---------- partial evaluation under known facts ----------

// Facts maps terms to values known to hold on the current path (from path-condition
// conjuncts of the form t, (not t), (= t const)).
type Facts struct {
	M    map[*T]uint64
	memo map[*T]pres
	// Allowed[v]: values of the small variable v admitted by the single-variable conjuncts
	// of the path condition (an over-approximation of the admitted values; exact when the
	// variable is not Dirty, i.e. occurs in no multi-variable conjunct).
	Allowed map[*T]*[4]uint64
	Dirty   map[*T]bool
}

type pres struct {
	v  uint64
	ok bool
}

func NewFacts() *Facts {
	return &Facts{M: map[*T]uint64{}, memo: map[*T]pres{}, Allowed: map[*T]*[4]uint64{}, Dirty: map[*T]bool{}}
}

func fullSet(w uint8) [4]uint64 {
	var s [4]uint64
	n := 1 << w
	for i := 0; i < n; i++ {
		s[i>>6] |= 1 << (uint(i) & 63)
	}
	return s
}

// AllowedSet returns the current value set of small variable v.
func (f *Facts) AllowedSet(v *T) [4]uint64 {
	if s, ok := f.Allowed[v]; ok {
		return *s
	}
	return fullSet(v.S.W)
}

// AddConjunct records a path-condition conjunct for the small-variable analysis.
func (f *Facts) AddConjunct(c *T) {
	if v := c.SmallVar(); v != nil {
		tt := c.TruthTable()
		cur := f.AllowedSet(v)
		for i := range cur {
			cur[i] &= tt[i]
		}
		f.Allowed[v] = &cur
		return
	}
	if c.NV == 0 {
		return
	}
	vars := map[*T]bool{}
	c.Vars(map[*T]bool{}, vars)
	for v := range vars {
		f.Dirty[v] = true
	}
}

// SmallVarVerdict decides an alternative over a single small variable without the solver:
// refuted (no admitted value satisfies it), or — when the variable is clean — feasible
// with a witness value.
func (f *Facts) SmallVarVerdict(c *T) (decided bool, feasible bool, v *T, witness uint64) {
	v = c.SmallVar()
	if v == nil || c.S.K != KBool {
		return false, false, nil, 0
	}
	tt := c.TruthTable()
	cur := f.AllowedSet(v)
	for i := range cur {
		cur[i] &= tt[i]
	}
	for i, w := range cur {
		if w != 0 {
			if f.Dirty[v] {
				return false, false, v, 0
			}
			return true, true, v, uint64(i*64 + bits.TrailingZeros64(w))
		}
	}
	return true, false, v, 0
}

// Add records the consequences of asserting c.
func (f *Facts) Add(c *T) {
	changed := f.add(c, 1)
	if changed {
		f.memo = map[*T]pres{}
	}
}

func (f *Facts) add(c *T, val uint64) bool {
	if c.Op == OConst {
		return false
	}
	if old, ok := f.M[c]; ok && old == val {
		return false
	}
	f.M[c] = val
	switch c.Op {
	case ONot:
		f.add(c.X, 1-val)
	case OAnd:
		if val == 1 {
			f.add(c.X, 1)
			f.add(c.Y, 1)
		}
	case OOr:
		if val == 0 {
			f.add(c.X, 0)
			f.add(c.Y, 0)
		}
	case OEq:
		if val == 1 {
			if c.Y.Op == OConst {
				f.add(c.X, c.Y.C)
			} else if c.X.Op == OConst {
				f.add(c.Y, c.X.C)
			}
		}
	case OZExt:
		if c.X.S.K == KBV && val&^mask(c.X.S.W) == 0 {
			f.add(c.X, val)
		}
	}
	return true
}

// PEval evaluates t using only the facts; ok=false when the value is not determined.
func (f *Facts) PEval(t *T) (uint64, bool) {
	if t.Op == OConst {
		return t.C, true
	}
	if v, ok := f.M[t]; ok {
		return v, true
	}
	if r, ok := f.memo[t]; ok {
		return r.v, r.ok
	}
	v, ok := f.peval(t)
	f.memo[t] = pres{v, ok}
	return v, ok
}

func (f *Facts) peval(t *T) (uint64, bool) {
	switch t.Op {
	case OVar:
		return 0, false
	case ONot:
		if v, ok := f.PEval(t.X); ok {
			return 1 - v, true
		}
		return 0, false
	case OAnd:
		a, oka := f.PEval(t.X)
		if oka && a == 0 {
			return 0, true
		}
		b, okb := f.PEval(t.Y)
		if okb && b == 0 {
			return 0, true
		}
		if oka && okb {
			return 1, true
		}
		return 0, false
	case OOr:
		a, oka := f.PEval(t.X)
		if oka && a == 1 {
			return 1, true
		}
		b, okb := f.PEval(t.Y)
		if okb && b == 1 {
			return 1, true
		}
		if oka && okb {
			return 0, true
		}
		return 0, false
	case OIte:
		c, okc := f.PEval(t.X)
		if okc {
			if c == 1 {
				return f.PEval(t.Y)
			}
			return f.PEval(t.Z)
		}
		a, oka := f.PEval(t.Y)
		b, okb := f.PEval(t.Z)
		if oka && okb && a == b {
			return a, true
		}
		return 0, false
	}
	// generic: all operands known -> evaluate concretely
	var args [3]uint64
	for i, a := range []*T{t.X, t.Y, t.Z} {
		if a == nil {
			continue
		}
		v, ok := f.PEval(a)
		if !ok {
			return 0, false
		}
		args[i] = v
	}
	m := Model{}
	ev := &Evaluator{M: m, cache: map[*T]uint64{}}
	if t.X != nil {
		ev.cache[t.X] = args[0]
	}
	if t.Y != nil {
		ev.cache[t.Y] = args[1]
	}
	if t.Z != nil {
		ev.cache[t.Z] = args[2]
	}
	return ev.eval(t), true
}
