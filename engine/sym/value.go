// Package sym is a forking symbolic interpreter for go/ssa: concrete heap shape,
// symbolic scalar leaves (terms), decisions resolved with an SMT solver.
// Structure follows golang.org/x/tools/go/ssa/interp (BSD licence), with a different
// scalar model (every scalar is a *term.T), cooperative goroutines and intrinsics.
package sym

import (
	"fmt"
	"go/types"
	"strings"

	"golang.org/x/tools/go/ssa"

	"gosym/term"
)

type Value = any

type Struct []Value
type Array []Value
type Tuple []Value

// Iface is an interface value; the nil interface is Iface{}.
type Iface struct {
	T types.Type
	V Value
}

type Closure struct {
	Fn  *ssa.Function
	Env []Value
}

// Bound is a bound intrinsic (method value of an intrinsic-only type).
type Bad struct{}

// TimeV is the abstract model of time.Time: nanoseconds since the Unix epoch as a
// 64-bit term, or the zero Time (year 1). The zero flag is always concrete. Loc is the
// (concrete) location the value carries: 0 UTC (a nil loc pointer: Time{}, UTC(),
// In(time.UTC)), 1 Local (time.Unix, time.Now, Local()), 2 any other location. Instants
// compare by NS only (Equal, Before, ...); the Go operator == on time.Time also compares
// the location, which is the classic defect of comparing instants with ==.
type TimeV struct {
	NS   *term.T
	Zero bool
	Loc  uint8
	// Pre: the zero Time plus a non-zero duration (an instant in the years 1..293, far below
	// the range of NS). Only its identity as "some instant long before every modelled one"
	// is kept: it can be passed around, converted between zones and compared with modelled
	// instants; anything else on it is unsupported.
	Pre bool
}

// SymStr is a string whose bytes may be symbolic; its length is concrete.
type SymStr struct{ B []*term.T }

// Opaque stands for values of libraries that are modelled, not interpreted.
type Opaque struct {
	Kind string
	ID   int
	Data any
}

type RType struct{ T types.Type }

// ---------- type helpers ----------

func isNamed(t types.Type, pkg, name string) bool {
	t = types.Unalias(t)
	n, ok := t.(*types.Named)
	if !ok {
		return false
	}
	o := n.Obj()
	return o.Name() == name && o.Pkg() != nil && o.Pkg().Path() == pkg
}

func isTime(t types.Type) bool { return isNamed(t, "time", "Time") }

func basicKind(t types.Type) (types.BasicKind, bool) {
	b, ok := t.Underlying().(*types.Basic)
	if !ok {
		return 0, false
	}
	return b.Kind(), true
}

// sortOf returns the term sort of a basic scalar type.
func sortOf(t types.Type) (term.Sort, bool) {
	b, ok := t.Underlying().(*types.Basic)
	if !ok {
		return term.Sort{}, false
	}
	switch b.Kind() {
	case types.Bool, types.UntypedBool:
		return term.Bool, true
	case types.Int8, types.Uint8:
		return term.BV8, true
	case types.Int16, types.Uint16:
		return term.BV16, true
	case types.Int32, types.Uint32, types.UntypedRune:
		return term.BV32, true
	case types.Int, types.Int64, types.Uint, types.Uint64, types.Uintptr, types.UntypedInt:
		return term.BV64, true
	case types.Float32:
		return term.FP32, true
	case types.Float64, types.UntypedFloat:
		return term.FP64, true
	}
	return term.Sort{}, false
}

func isSigned(t types.Type) bool {
	b, ok := t.Underlying().(*types.Basic)
	if !ok {
		return false
	}
	return b.Info()&types.IsInteger != 0 && b.Info()&types.IsUnsigned == 0
}

func isString(t types.Type) bool {
	b, ok := t.Underlying().(*types.Basic)
	return ok && b.Info()&types.IsString != 0
}

func deref(t types.Type) types.Type {
	if p, ok := t.Underlying().(*types.Pointer); ok {
		return p.Elem()
	}
	panic(fmt.Sprintf("deref: not a pointer: %v", t))
}

// ---------- zero values ----------

func (m *Machine) zero(t types.Type) Value {
	switch t := t.(type) {
	case *types.Basic:
		if t.Info()&types.IsUntyped != 0 && t.Kind() != types.UntypedNil {
			t = types.Default(t).(*types.Basic)
		}
		if t.Info()&types.IsString != 0 {
			return ""
		}
		if t.Kind() == types.UnsafePointer {
			return (*Value)(nil)
		}
		if t.Kind() == types.UntypedNil {
			return nil
		}
		s, ok := sortOf(t)
		if !ok {
			m.unsupported("zero of type " + t.String())
		}
		switch s.K {
		case term.KBool:
			return m.tb.False()
		case term.KBV:
			return m.tb.BV(int(s.W), 0)
		default:
			if s.W == 32 {
				return m.tb.F32(0)
			}
			return m.tb.F64(0)
		}
	case *types.Pointer:
		return (*Value)(nil)
	case *types.Array:
		a := make(Array, t.Len())
		for i := range a {
			a[i] = m.zero(t.Elem())
		}
		return a
	case *types.Named:
		if isTime(t) {
			return TimeV{Zero: true}
		}
		return m.zero(t.Underlying())
	case *types.Alias:
		return m.zero(types.Unalias(t))
	case *types.Interface:
		return Iface{}
	case *types.Slice:
		return []Value(nil)
	case *types.Struct:
		s := make(Struct, t.NumFields())
		for i := range s {
			s[i] = m.zero(t.Field(i).Type())
		}
		return s
	case *types.Tuple:
		if t.Len() == 1 {
			return m.zero(t.At(0).Type())
		}
		s := make(Tuple, t.Len())
		for i := range s {
			s[i] = m.zero(t.At(i).Type())
		}
		return s
	case *types.Chan:
		return (*Chan)(nil)
	case *types.Map:
		return (*Map)(nil)
	case *types.Signature:
		return (*ssa.Function)(nil)
	case *types.TypeParam:
		m.unsupported("zero of type parameter " + t.String())
	}
	panic(fmt.Sprint("zero: unexpected ", t))
}

// copyVal returns a copy of v (structs and arrays are copied deeply, everything else
// is immutable or a reference).
func copyVal(v Value) Value {
	switch v := v.(type) {
	case Struct:
		n := make(Struct, len(v))
		for i, f := range v {
			n[i] = copyVal(f)
		}
		return n
	case Array:
		n := make(Array, len(v))
		for i, f := range v {
			n[i] = copyVal(f)
		}
		return n
	}
	return v
}

// ---------- memory with undo log ----------

type undoRec struct {
	addr *Value
	old  Value
}

func (m *Machine) set(addr *Value, v Value) {
	if m.logging {
		m.undo = append(m.undo, undoRec{addr, *addr})
	}
	*addr = v
}

func (m *Machine) load(addr *Value) Value {
	if addr == nil {
		m.runtimePanic("invalid memory address or nil pointer dereference")
	}
	if _, bad := (*addr).(Bad); bad {
		m.unsupported("use of a variable whose initialiser is not encodable")
	}
	return copyVal(*addr)
}

// store copies v into *addr. Struct and array cells are updated field-wise so that
// interior pointers stay valid.
func (m *Machine) store(addr *Value, v Value) {
	if addr == nil {
		m.runtimePanic("invalid memory address or nil pointer dereference")
	}
	switch v := v.(type) {
	case Struct:
		if lhs, ok := (*addr).(Struct); ok && len(lhs) == len(v) {
			for i := range lhs {
				m.store(&lhs[i], v[i])
			}
			return
		}
		m.set(addr, copyVal(v))
	case Array:
		if lhs, ok := (*addr).(Array); ok && len(lhs) == len(v) {
			for i := range lhs {
				m.store(&lhs[i], v[i])
			}
			return
		}
		m.set(addr, copyVal(v))
	default:
		m.set(addr, v)
	}
}

func (m *Machine) rollback() {
	for i := len(m.undo) - 1; i >= 0; i-- {
		*m.undo[i].addr = m.undo[i].old
	}
	m.undo = m.undo[:0]
	for i := len(m.mapUndo) - 1; i >= 0; i-- {
		u := m.mapUndo[i]
		u.m.ents = u.ents
		u.m.idx = u.idx
		u.m.symKeys = u.symKeys
	}
	m.mapUndo = m.mapUndo[:0]
}

// ---------- strings ----------

func slen(v Value) int {
	switch v := v.(type) {
	case string:
		return len(v)
	case *SymStr:
		return len(v.B)
	}
	panic(fmt.Sprintf("slen: %T", v))
}

func (m *Machine) sbyte(v Value, i int) *term.T {
	switch v := v.(type) {
	case string:
		return m.tb.BV(8, uint64(v[i]))
	case *SymStr:
		return v.B[i]
	}
	panic(fmt.Sprintf("sbyte: %T", v))
}

func (m *Machine) sbytes(v Value) []*term.T {
	switch v := v.(type) {
	case string:
		b := make([]*term.T, len(v))
		for i := 0; i < len(v); i++ {
			b[i] = m.tb.BV(8, uint64(v[i]))
		}
		return b
	case *SymStr:
		return v.B
	}
	panic(fmt.Sprintf("sbytes: %T", v))
}

// mkStr builds a string value; all-constant bytes give a Go string.
func mkStr(b []*term.T) Value {
	for _, x := range b {
		if !x.IsConst() {
			cp := make([]*term.T, len(b))
			copy(cp, b)
			return &SymStr{cp}
		}
	}
	var sb strings.Builder
	for _, x := range b {
		sb.WriteByte(byte(x.C))
	}
	return sb.String()
}

func (m *Machine) sconcat(a, b Value) Value {
	if x, ok := a.(string); ok {
		if y, ok := b.(string); ok {
			return x + y
		}
	}
	if slen(a) == 0 {
		return b
	}
	if slen(b) == 0 {
		return a
	}
	bs := append(append([]*term.T{}, m.sbytes(a)...), m.sbytes(b)...)
	return mkStr(bs)
}

func (m *Machine) sslice(v Value, lo, hi int) Value {
	switch v := v.(type) {
	case string:
		return v[lo:hi]
	case *SymStr:
		return mkStr(v.B[lo:hi])
	}
	panic("sslice")
}

// seq returns the Bool term a == b for strings.
func (m *Machine) seq(a, b Value) *term.T {
	if x, ok := a.(string); ok {
		if y, ok := b.(string); ok {
			return m.tb.BoolC(x == y)
		}
	}
	if slen(a) != slen(b) {
		return m.tb.False()
	}
	r := m.tb.True()
	n := slen(a)
	for i := 0; i < n; i++ {
		r = m.tb.And(r, m.tb.Eq(m.sbyte(a, i), m.sbyte(b, i)))
		if r.IsFalse() {
			return r
		}
	}
	return r
}

// slt returns the Bool term a < b (lexicographic, bytewise) for strings.
func (m *Machine) slt(a, b Value) *term.T {
	if x, ok := a.(string); ok {
		if y, ok := b.(string); ok {
			return m.tb.BoolC(x < y)
		}
	}
	na, nb := slen(a), slen(b)
	n := min(na, nb)
	// result = lt_0 || (eq_0 && (lt_1 || (eq_1 && ...   (tail: na < nb))))
	r := m.tb.BoolC(na < nb)
	for i := n - 1; i >= 0; i-- {
		x, y := m.sbyte(a, i), m.sbyte(b, i)
		r = m.tb.Or(m.tb.ULt(x, y), m.tb.And(m.tb.Eq(x, y), r))
	}
	return r
}

func (m *Machine) strString(v Value) string {
	switch v := v.(type) {
	case string:
		return v
	case *SymStr:
		var sb strings.Builder
		for _, b := range v.B {
			if b.IsConst() {
				sb.WriteByte(byte(b.C))
			} else {
				sb.WriteString("⁇")
			}
		}
		return sb.String()
	}
	return fmt.Sprintf("%v", v)
}

// ---------- equality ----------

// equals returns a Bool term for Go's == on values of static type t.
func (m *Machine) equals(t types.Type, x, y Value) *term.T {
	switch x := x.(type) {
	case *term.T:
		yt := y.(*term.T)
		if x.S.K == term.KFP {
			return m.tb.FEq(x, yt)
		}
		return m.tb.Eq(x, yt)
	case string, *SymStr:
		return m.seq(x, y)
	case *Value:
		return m.tb.BoolC(x == y.(*Value))
	case *Map:
		return m.tb.BoolC(x == y.(*Map))
	case *Chan:
		return m.tb.BoolC(x == y.(*Chan))
	case TimeV:
		yt := y.(TimeV)
		if x.Loc != yt.Loc {
			return m.tb.False() // == compares the location pointer too
		}
		return m.timeInstantEq(x, yt)
	case Struct:
		yt := y.(Struct)
		st := t.Underlying().(*types.Struct)
		r := m.tb.True()
		for i := 0; i < st.NumFields(); i++ {
			if st.Field(i).Name() == "_" {
				continue
			}
			r = m.tb.And(r, m.equals(st.Field(i).Type(), x[i], yt[i]))
			if r.IsFalse() {
				return r
			}
		}
		return r
	case Array:
		yt := y.(Array)
		et := t.Underlying().(*types.Array).Elem()
		r := m.tb.True()
		for i := range x {
			r = m.tb.And(r, m.equals(et, x[i], yt[i]))
			if r.IsFalse() {
				return r
			}
		}
		return r
	case Iface:
		yt := y.(Iface)
		if x.T == nil || yt.T == nil {
			return m.tb.BoolC(x.T == nil && yt.T == nil)
		}
		if !types.Identical(x.T, yt.T) {
			return m.tb.False()
		}
		if !types.Comparable(x.T) {
			m.runtimePanic("runtime error: comparing uncomparable type " + x.T.String())
		}
		return m.equals(x.T, x.V, yt.V)
	case *ssa.Function:
		// only comparison with nil is legal
		if yf, ok := y.(*ssa.Function); ok {
			return m.tb.BoolC(x == yf)
		}
		return m.tb.False()
	case *Closure:
		if yf, ok := y.(*ssa.Function); ok && yf == nil {
			return m.tb.False()
		}
		return m.tb.BoolC(x == y)
	case *Opaque:
		return m.tb.BoolC(x == y)
	case RType:
		return m.tb.BoolC(types.Identical(x.T, y.(RType).T))
	case []Value:
		// only slice == nil
		return m.tb.BoolC(x == nil && y.([]Value) == nil)
	case nil:
		return m.tb.BoolC(y == nil)
	}
	panic(fmt.Sprintf("equals: unexpected %T", x))
}

// ---------- maps ----------

type ent struct {
	k, v Value
}

// Map is an insertion-ordered association list; concrete keys are indexed.
type Map struct {
	kt      types.Type
	vt      types.Type
	ents    []*ent
	idx     map[string]*ent
	symKeys int
	born    int
	saved   int
}

type mapUndo struct {
	m       *Map
	ents    []*ent
	idx     map[string]*ent
	symKeys int
}

func (m *Machine) newMap(kt, vt types.Type) *Map {
	return &Map{kt: kt, vt: vt, idx: map[string]*ent{}, born: m.epoch}
}

func (m *Machine) mapTouch(mp *Map) {
	if !m.logging || mp.born == m.epoch || mp.saved == m.epoch {
		return
	}
	mp.saved = m.epoch
	ents := make([]*ent, len(mp.ents))
	for i, e := range mp.ents {
		c := *e
		ents[i] = &c
	}
	idx := make(map[string]*ent, len(mp.idx))
	// rebuild index onto copied entries
	pos := map[*ent]int{}
	for i, e := range mp.ents {
		pos[e] = i
	}
	for k, e := range mp.idx {
		idx[k] = ents[pos[e]]
	}
	m.mapUndo = append(m.mapUndo, mapUndo{mp, ents, idx, mp.symKeys})
}

// ckey renders a fully concrete key as a string; ok=false if any leaf is symbolic.
func (m *Machine) ckey(sb *strings.Builder, v Value) bool {
	switch v := v.(type) {
	case *term.T:
		if !v.IsConst() {
			return false
		}
		if v.S.K == term.KFP {
			f := v.Float()
			if f == 0 {
				f = 0 // +0 == -0
			}
			if f != f {
				return false // NaN never equals anything
			}
			fmt.Fprintf(sb, "f%v;", f)
			return true
		}
		fmt.Fprintf(sb, "%d:%x;", v.S.W, v.C)
		return true
	case string:
		fmt.Fprintf(sb, "s%d:%s;", len(v), v)
		return true
	case *SymStr:
		return false
	case *Value:
		fmt.Fprintf(sb, "p%p;", v)
		return true
	case *Chan:
		fmt.Fprintf(sb, "c%p;", v)
		return true
	case TimeV:
		if v.Pre {
			return false
		}
		if v.Zero {
			fmt.Fprintf(sb, "tz%d;", v.Loc)
			return true
		}
		if !v.NS.IsConst() {
			return false
		}
		fmt.Fprintf(sb, "t%x.%d;", v.NS.C, v.Loc)
		return true
	case Iface:
		if v.T == nil {
			sb.WriteString("nil;")
			return true
		}
		fmt.Fprintf(sb, "I%d(", m.typeID(v.T))
		if !m.ckey(sb, v.V) {
			return false
		}
		sb.WriteString(")")
		return true
	case Struct:
		sb.WriteString("S(")
		for _, f := range v {
			if !m.ckey(sb, f) {
				return false
			}
		}
		sb.WriteString(")")
		return true
	case Array:
		sb.WriteString("A(")
		for _, f := range v {
			if !m.ckey(sb, f) {
				return false
			}
		}
		sb.WriteString(")")
		return true
	case RType:
		fmt.Fprintf(sb, "R%d;", m.typeID(v.T))
		return true
	case *Opaque:
		fmt.Fprintf(sb, "o%p;", v)
		return true
	}
	panic(fmt.Sprintf("map key of unexpected kind %T", v))
}

func (m *Machine) typeID(t types.Type) int {
	if id := m.typeIDs.At(t); id != nil {
		return id.(int)
	}
	id := m.typeIDs.Len() + 1
	m.typeIDs.Set(t, id)
	return id
}

// mapFind locates the entry for key k, forking on equality with symbolic keys.
func (m *Machine) mapFind(mp *Map, k Value) *ent {
	if mp == nil {
		return nil
	}
	var sb strings.Builder
	conc := m.ckey(&sb, k)
	if conc && mp.symKeys == 0 {
		return mp.idx[sb.String()]
	}
	// slow path: compare with every entry
	var conds []*term.T
	var cands []*ent
	none := m.tb.True()
	for _, e := range mp.ents {
		c := m.equals(mp.kt, e.k, k)
		if c.IsFalse() {
			continue
		}
		if c.IsTrue() {
			// definitely this one (and earlier candidates excluded by none)
			conds = append(conds, none)
			cands = append(cands, e)
			none = m.tb.False()
			break
		}
		conds = append(conds, m.tb.And(none, c))
		cands = append(cands, e)
		none = m.tb.And(none, m.tb.Not(c))
	}
	if len(cands) == 0 {
		return nil
	}
	if !none.IsFalse() {
		conds = append(conds, none)
		cands = append(cands, nil)
	}
	if len(conds) == 1 {
		return cands[0]
	}
	return cands[m.decide("mapkey", conds)]
}

func (m *Machine) mapLookup(mp *Map, k Value) (Value, bool) {
	e := m.mapFind(mp, k)
	if e == nil {
		return nil, false
	}
	return e.v, true
}

func (m *Machine) mapUpdate(mp *Map, k, v Value) {
	if mp == nil {
		m.runtimePanic("assignment to entry in nil map")
	}
	e := m.mapFind(mp, k)
	m.mapTouch(mp)
	if e != nil {
		// e may be stale if mapTouch replaced entries; re-find by position
		e = m.mapRefind(mp, e)
		e.v = v
		return
	}
	ne := &ent{k, v}
	mp.ents = append(mp.ents, ne)
	var sb strings.Builder
	if m.ckey(&sb, k) {
		mp.idx[sb.String()] = ne
	} else {
		mp.symKeys++
	}
}

// mapRefind: entries are never replaced in the live map by mapTouch (the snapshot gets
// the copies), so e stays valid.
func (m *Machine) mapRefind(mp *Map, e *ent) *ent { return e }

func (m *Machine) mapDelete(mp *Map, k Value) {
	if mp == nil {
		return
	}
	e := m.mapFind(mp, k)
	if e == nil {
		return
	}
	m.mapTouch(mp)
	for i, x := range mp.ents {
		if x == e {
			mp.ents = append(mp.ents[:i:i], mp.ents[i+1:]...)
			break
		}
	}
	var sb strings.Builder
	if m.ckey(&sb, e.k) {
		delete(mp.idx, sb.String())
	} else {
		mp.symKeys--
	}
}

func (m *Machine) mapClear(mp *Map) {
	if mp == nil {
		return
	}
	m.mapTouch(mp)
	mp.ents = nil
	mp.idx = map[string]*ent{}
	mp.symKeys = 0
}

// ---------- iterators ----------

type iter interface{ next(m *Machine) Tuple }

type mapIter struct {
	mp   *Map
	snap []*ent
	i    int
}

func (it *mapIter) next(m *Machine) Tuple {
	for it.i < len(it.snap) {
		e := it.snap[it.i]
		it.i++
		// skip entries deleted during iteration
		live := false
		for _, x := range it.mp.ents {
			if x == e {
				live = true
				break
			}
		}
		if live {
			return Tuple{m.tb.True(), e.k, copyVal(e.v)}
		}
	}
	return Tuple{m.tb.False(), nil, nil}
}

type strIter struct {
	s   Value
	pos int
}

func (it *strIter) next(m *Machine) Tuple {
	n := slen(it.s)
	if it.pos >= n {
		return Tuple{m.tb.False(), m.tb.BV(64, 0), m.tb.BV(32, 0)}
	}
	start := it.pos
	r, size := m.decodeRune(it.s, it.pos)
	it.pos += size
	return Tuple{m.tb.True(), m.tb.BV(64, uint64(start)), r}
}

// ---------- printing (diagnostics only) ----------

func (m *Machine) show(v Value) string {
	switch v := v.(type) {
	case nil:
		return "nil"
	case *term.T:
		if v.IsConst() {
			switch v.S.K {
			case term.KBool:
				return fmt.Sprint(v.C == 1)
			case term.KFP:
				return fmt.Sprint(v.Float())
			}
			return fmt.Sprint(v.Int())
		}
		return fmt.Sprintf("<sym t%d>", v.ID)
	case string:
		return fmt.Sprintf("%q", v)
	case *SymStr:
		return fmt.Sprintf("%q", m.strString(v))
	case Struct:
		var parts []string
		for _, f := range v {
			parts = append(parts, m.show(f))
		}
		return "{" + strings.Join(parts, " ") + "}"
	case Array:
		var parts []string
		for _, f := range v {
			parts = append(parts, m.show(f))
		}
		return "[" + strings.Join(parts, " ") + "]"
	case []Value:
		var parts []string
		for i, f := range v {
			if i > 8 {
				parts = append(parts, "...")
				break
			}
			parts = append(parts, m.show(f))
		}
		return "[" + strings.Join(parts, " ") + "]"
	case Iface:
		if v.T == nil {
			return "<nil>"
		}
		return fmt.Sprintf("(%s)%s", v.T, m.show(v.V))
	case *Value:
		if v == nil {
			return "nil"
		}
		return fmt.Sprintf("&%p", v)
	case TimeV:
		if v.Pre {
			return "time(zero+d)"
		}
		if v.Zero {
			return "time.Time{}"
		}
		return "time(" + m.show(v.NS) + ")"
	case Tuple:
		var parts []string
		for _, f := range v {
			parts = append(parts, m.show(f))
		}
		return "(" + strings.Join(parts, ", ") + ")"
	}
	return fmt.Sprintf("%T", v)
}
