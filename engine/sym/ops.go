package sym

import (
	"fmt"
	"go/constant"
	"go/token"
	"go/types"
	"unicode/utf8"

	"golang.org/x/tools/go/ssa"

	"gosym/term"
)

func constantString(c *ssa.Const) string { return constant.StringVal(c.Value) }
func constantBool(c *ssa.Const) bool     { return constant.BoolVal(c.Value) }

func (m *Machine) unop(fr *frame, instr *ssa.UnOp, x Value) Value {
	switch instr.Op {
	case token.ARROW:
		v, ok := m.chanRecv(x.(*Chan))
		if !instr.CommaOk {
			return v
		}
		return Tuple{v, m.tb.BoolC(ok)}
	case token.SUB:
		t := x.(*term.T)
		if t.S.K == term.KFP {
			return m.tb.FNeg(t)
		}
		return m.tb.Neg(t)
	case token.MUL:
		if sp, ok := x.(*SymPtr); ok {
			bs := make([]*term.T, len(sp.arr))
			for i, e := range sp.arr {
				bs[i] = e.(*term.T)
			}
			w := int(sp.idx.S.W)
			r := bs[len(bs)-1]
			for i := len(bs) - 2; i >= 0; i-- {
				r = m.tb.Ite(m.tb.Eq(sp.idx, m.tb.BV(w, uint64(i))), bs[i], r)
			}
			return r
		}
		p, ok := x.(*Value)
		if !ok {
			panic(fmt.Sprintf("load through %T", x))
		}
		return m.load(p)
	case token.NOT:
		return m.tb.Not(x.(*term.T))
	case token.XOR:
		return m.tb.BNot(x.(*term.T))
	}
	panic(fmt.Sprintf("invalid unary op %s %T", instr.Op, x))
}

func (m *Machine) binop(op token.Token, t types.Type, x, y Value) Value {
	tb := m.tb
	switch op {
	case token.EQL:
		return m.equals(t, x, y)
	case token.NEQ:
		return tb.Not(m.equals(t, x, y))
	}
	// strings
	switch x.(type) {
	case string, *SymStr:
		switch op {
		case token.ADD:
			return m.sconcat(x, y)
		case token.LSS:
			return m.slt(x, y)
		case token.GTR:
			return m.slt(y, x)
		case token.LEQ:
			return tb.Not(m.slt(y, x))
		case token.GEQ:
			return tb.Not(m.slt(x, y))
		}
		panic(fmt.Sprintf("invalid string op %s", op))
	}
	a, ok := x.(*term.T)
	if !ok {
		panic(fmt.Sprintf("binop %s on %T", op, x))
	}
	b := y.(*term.T)
	if a.S.K == term.KFP {
		switch op {
		case token.ADD:
			return tb.FAdd(a, b)
		case token.SUB:
			return tb.FSub(a, b)
		case token.MUL:
			return tb.FMul(a, b)
		case token.QUO:
			return tb.FDiv(a, b)
		case token.LSS:
			return tb.FLt(a, b)
		case token.LEQ:
			return tb.FLe(a, b)
		case token.GTR:
			return tb.FLt(b, a)
		case token.GEQ:
			return tb.FLe(b, a)
		}
		panic(fmt.Sprintf("invalid float op %s", op))
	}
	if a.S.K == term.KBool {
		switch op {
		case token.AND, token.LAND:
			return tb.And(a, b)
		case token.OR, token.LOR:
			return tb.Or(a, b)
		}
		panic(fmt.Sprintf("invalid bool op %s", op))
	}
	signed := isSigned(t)
	w := int(a.S.W)
	switch op {
	case token.ADD:
		return tb.Add(a, b)
	case token.SUB:
		return tb.Sub(a, b)
	case token.MUL:
		return tb.Mul(a, b)
	case token.QUO, token.REM:
		if m.condBool(tb.Eq(b, tb.BV(w, 0)), "divzero") {
			m.runtimePanic("integer divide by zero")
		}
		if signed {
			if op == token.QUO {
				return tb.SDiv(a, b)
			}
			return tb.SRem(a, b)
		}
		if op == token.QUO {
			return tb.UDiv(a, b)
		}
		return tb.URem(a, b)
	case token.AND:
		return tb.BAnd(a, b)
	case token.OR:
		return tb.BOr(a, b)
	case token.XOR:
		return tb.BXor(a, b)
	case token.AND_NOT:
		return tb.BAnd(a, tb.BNot(b))
	case token.SHL, token.SHR:
		// shift count has its own type/width; normalise to the width of a
		bw := int(b.S.W)
		var cnt *term.T
		switch {
		case bw == w:
			cnt = b
		case bw < w:
			cnt = tb.ZExt(b, w) // negative counts are handled below for signed
		default:
			// clamp: if b >= w then w else low bits
			big := tb.ULe(tb.BV(bw, uint64(w)), b)
			cnt = tb.Ite(big, tb.BV(w, uint64(w)), tb.Extract(b, w-1, 0))
		}
		if op == token.SHL {
			return tb.Shl(a, cnt)
		}
		if signed {
			return tb.AShr(a, cnt)
		}
		return tb.LShr(a, cnt)
	case token.LSS:
		if signed {
			return tb.SLt(a, b)
		}
		return tb.ULt(a, b)
	case token.LEQ:
		if signed {
			return tb.SLe(a, b)
		}
		return tb.ULe(a, b)
	case token.GTR:
		if signed {
			return tb.SLt(b, a)
		}
		return tb.ULt(b, a)
	case token.GEQ:
		if signed {
			return tb.SLe(b, a)
		}
		return tb.ULe(b, a)
	}
	panic(fmt.Sprintf("invalid binary op %s", op))
}

// conv implements ssa.Convert.
func (m *Machine) conv(tDst, tSrc types.Type, x Value) Value {
	tb := m.tb
	uSrc := tSrc.Underlying()
	uDst := tDst.Underlying()
	switch us := uSrc.(type) {
	case *types.Pointer:
		if b, ok := uDst.(*types.Basic); ok && b.Kind() == types.UnsafePointer {
			return x
		}
		if _, ok := uDst.(*types.Pointer); ok {
			return x
		}
	case *types.Slice:
		// []byte / []rune -> string
		s := x.([]Value)
		ek, _ := basicKind(us.Elem())
		if ek == types.Uint8 {
			bs := make([]*term.T, len(s))
			for i, e := range s {
				bs[i] = e.(*term.T)
			}
			return mkStr(bs)
		}
		if ek == types.Int32 {
			var out []*term.T
			for _, e := range s {
				out = append(out, m.encodeRune(e.(*term.T))...)
			}
			return mkStr(out)
		}
	case *types.Basic:
		if us.Kind() == types.UnsafePointer {
			return x
		}
		if us.Info()&types.IsString != 0 {
			switch ud := uDst.(type) {
			case *types.Slice:
				ek, _ := basicKind(ud.Elem())
				if ek == types.Uint8 {
					bs := m.sbytes(x)
					out := make([]Value, len(bs))
					for i, b := range bs {
						out[i] = b
					}
					return out
				}
				if ek == types.Int32 {
					var out []Value
					for i := 0; i < slen(x); {
						r, size := m.decodeRune(x, i)
						out = append(out, r)
						i += size
					}
					if out == nil {
						out = []Value{}
					}
					return out
				}
			case *types.Basic:
				if ud.Info()&types.IsString != 0 {
					return x
				}
			}
			break
		}
		t, ok := x.(*term.T)
		if !ok {
			break
		}
		if ud, ok := uDst.(*types.Basic); ok {
			if ud.Info()&types.IsString != 0 {
				// integer -> string (rune)
				r := t
				if r.S.W < 32 {
					if isSigned(tSrc) {
						r = tb.SExt(r, 32)
					} else {
						r = tb.ZExt(r, 32)
					}
				} else if r.S.W > 32 {
					// out of range values become U+FFFD
					if r.IsConst() {
						v := r.Int()
						if v < 0 || v > utf8.MaxRune {
							v = utf8.RuneError
						}
						r = tb.BV(32, uint64(v))
					} else {
						m.unsupported("symbolic wide integer to string conversion")
					}
				}
				return mkStr(m.encodeRune(r))
			}
			ds, ok := sortOf(ud)
			if !ok {
				break
			}
			return m.convScalar(t, isSigned(tSrc), ds, isSigned(tDst))
		}
	}
	panic(fmt.Sprintf("unsupported conversion: %s -> %s (value %T)", tSrc, tDst, x))
}

func (m *Machine) convScalar(t *term.T, srcSigned bool, ds term.Sort, dstSigned bool) *term.T {
	tb := m.tb
	switch {
	case t.S.K == term.KBV && ds.K == term.KBV:
		sw, dw := int(t.S.W), int(ds.W)
		switch {
		case sw == dw:
			return t
		case sw > dw:
			return tb.Extract(t, dw-1, 0)
		case srcSigned:
			return tb.SExt(t, dw)
		default:
			return tb.ZExt(t, dw)
		}
	case t.S.K == term.KBV && ds.K == term.KFP:
		return tb.FFromBV(t, srcSigned, ds)
	case t.S.K == term.KFP && ds.K == term.KBV:
		if int(ds.W) < 64 {
			// Go converts via the full-width integer then truncates on amd64
			full := tb.FToBV(t, true, 64)
			return tb.Extract(full, int(ds.W)-1, 0)
		}
		return tb.FToBV(t, dstSigned, int(ds.W))
	case t.S.K == term.KFP && ds.K == term.KFP:
		return tb.FToFP(t, ds)
	case t.S.K == term.KBool && ds.K == term.KBool:
		return t
	}
	panic(fmt.Sprintf("convScalar %v -> %v", t.S, ds))
}

// encodeRune renders a rune term as UTF-8 bytes; symbolic runes fork on the encoded length.
func (m *Machine) encodeRune(r *term.T) []*term.T {
	tb := m.tb
	if r.IsConst() {
		v := rune(int32(r.C))
		var buf [4]byte
		n := utf8.EncodeRune(buf[:], v)
		out := make([]*term.T, n)
		for i := 0; i < n; i++ {
			out[i] = tb.BV(8, uint64(buf[i]))
		}
		return out
	}
	c := func(v uint64) *term.T { return tb.BV(32, v) }
	b8 := func(t *term.T) *term.T { return tb.Extract(t, 7, 0) }
	if m.condBool(tb.ULt(r, c(0x80)), "rune-1") {
		return []*term.T{b8(r)}
	}
	if m.condBool(tb.ULt(r, c(0x800)), "rune-2") {
		return []*term.T{
			b8(tb.BOr(c(0xC0), tb.LShr(r, c(6)))),
			b8(tb.BOr(c(0x80), tb.BAnd(r, c(0x3F)))),
		}
	}
	bad := tb.Or(tb.ULt(c(utf8.MaxRune), r), tb.And(tb.ULe(c(0xD800), r), tb.ULe(r, c(0xDFFF))))
	if m.condBool(bad, "rune-bad") {
		return []*term.T{tb.BV(8, 0xEF), tb.BV(8, 0xBF), tb.BV(8, 0xBD)}
	}
	if m.condBool(tb.ULt(r, c(0x10000)), "rune-3") {
		return []*term.T{
			b8(tb.BOr(c(0xE0), tb.LShr(r, c(12)))),
			b8(tb.BOr(c(0x80), tb.BAnd(tb.LShr(r, c(6)), c(0x3F)))),
			b8(tb.BOr(c(0x80), tb.BAnd(r, c(0x3F)))),
		}
	}
	return []*term.T{
		b8(tb.BOr(c(0xF0), tb.LShr(r, c(18)))),
		b8(tb.BOr(c(0x80), tb.BAnd(tb.LShr(r, c(12)), c(0x3F)))),
		b8(tb.BOr(c(0x80), tb.BAnd(tb.LShr(r, c(6)), c(0x3F)))),
		b8(tb.BOr(c(0x80), tb.BAnd(r, c(0x3F)))),
	}
}

// decodeRune decodes one UTF-8 sequence at s[i:] (range-over-string semantics), forking
// on symbolic bytes.
func (m *Machine) decodeRune(s Value, i int) (*term.T, int) {
	tb := m.tb
	n := slen(s)
	if str, ok := s.(string); ok {
		r, size := utf8.DecodeRuneInString(str[i:])
		return tb.BV(32, uint64(uint32(r))), size
	}
	allConst := true
	end := min(n, i+4)
	for j := i; j < end; j++ {
		if !m.sbyte(s, j).IsConst() {
			allConst = false
		}
	}
	if allConst {
		buf := make([]byte, 0, 4)
		for j := i; j < end; j++ {
			buf = append(buf, byte(m.sbyte(s, j).C))
		}
		r, size := utf8.DecodeRune(buf)
		return tb.BV(32, uint64(uint32(r))), size
	}
	c8 := func(v uint64) *term.T { return tb.BV(8, v) }
	z := func(t *term.T) *term.T { return tb.ZExt(t, 32) }
	c := func(v uint64) *term.T { return tb.BV(32, v) }
	runeErr := c(utf8.RuneError)
	b0 := m.sbyte(s, i)
	if m.condBool(tb.ULt(b0, c8(0x80)), "utf8-ascii") {
		return z(b0), 1
	}
	// continuation byte check helper
	cont := func(b *term.T, lo, hi uint64) *term.T {
		return tb.And(tb.ULe(c8(lo), b), tb.ULe(b, c8(hi)))
	}
	// 2-byte: C2..DF
	if m.condBool(cont(b0, 0xC2, 0xDF), "utf8-2") {
		if i+1 >= n {
			return runeErr, 1
		}
		b1 := m.sbyte(s, i+1)
		if !m.condBool(cont(b1, 0x80, 0xBF), "utf8-2c") {
			return runeErr, 1
		}
		r := tb.BOr(tb.Shl(tb.BAnd(z(b0), c(0x1F)), c(6)), tb.BAnd(z(b1), c(0x3F)))
		return r, 2
	}
	// 3-byte: E0..EF
	if m.condBool(cont(b0, 0xE0, 0xEF), "utf8-3") {
		if i+2 >= n {
			// too short: could still be invalid at byte 1, either way RuneError,1
			return runeErr, 1
		}
		b1, b2 := m.sbyte(s, i+1), m.sbyte(s, i+2)
		// accept ranges for b1 depend on b0: E0: A0..BF; ED: 80..9F; else 80..BF
		lo := tb.Ite(tb.Eq(b0, c8(0xE0)), c8(0xA0), c8(0x80))
		hi := tb.Ite(tb.Eq(b0, c8(0xED)), c8(0x9F), c8(0xBF))
		ok1 := tb.And(tb.ULe(lo, b1), tb.ULe(b1, hi))
		if !m.condBool(tb.And(ok1, cont(b2, 0x80, 0xBF)), "utf8-3c") {
			return runeErr, 1
		}
		r := tb.BOr(tb.BOr(tb.Shl(tb.BAnd(z(b0), c(0x0F)), c(12)), tb.Shl(tb.BAnd(z(b1), c(0x3F)), c(6))), tb.BAnd(z(b2), c(0x3F)))
		return r, 3
	}
	// 4-byte: F0..F4
	if m.condBool(cont(b0, 0xF0, 0xF4), "utf8-4") {
		if i+3 >= n {
			return runeErr, 1
		}
		b1, b2, b3 := m.sbyte(s, i+1), m.sbyte(s, i+2), m.sbyte(s, i+3)
		lo := tb.Ite(tb.Eq(b0, c8(0xF0)), c8(0x90), c8(0x80))
		hi := tb.Ite(tb.Eq(b0, c8(0xF4)), c8(0x8F), c8(0xBF))
		ok1 := tb.And(tb.ULe(lo, b1), tb.ULe(b1, hi))
		if !m.condBool(tb.And(ok1, tb.And(cont(b2, 0x80, 0xBF), cont(b3, 0x80, 0xBF))), "utf8-4c") {
			return runeErr, 1
		}
		r := tb.BOr(tb.BOr(tb.Shl(tb.BAnd(z(b0), c(0x07)), c(18)), tb.Shl(tb.BAnd(z(b1), c(0x3F)), c(12))),
			tb.BOr(tb.Shl(tb.BAnd(z(b2), c(0x3F)), c(6)), tb.BAnd(z(b3), c(0x3F))))
		return r, 4
	}
	return runeErr, 1
}

// ---------- builtins ----------

func (m *Machine) callBuiltin(caller *frame, fn *ssa.Builtin, args []Value) Value {
	tb := m.tb
	switch fn.Name() {
	case "append":
		if len(args) == 1 {
			return args[0]
		}
		dst := args[0].([]Value)
		var src []Value
		switch s := args[1].(type) {
		case string, *SymStr:
			for _, b := range m.sbytes(s) {
				src = append(src, b)
			}
		case []Value:
			src = s
		}
		if len(src) == 0 {
			return dst
		}
		if len(dst)+len(src) <= cap(dst) {
			// in place: log overwritten cells
			n := len(dst)
			dst = dst[:n+len(src)]
			for i, v := range src {
				m.set(&dst[n+i], copyVal(v))
			}
			return dst
		}
		out := make([]Value, len(dst), growCap(cap(dst), len(dst)+len(src)))
		copy(out, dst)
		for _, v := range src {
			out = append(out, copyVal(v))
		}
		// fill spare capacity with zero values lazily: spare cells hold nil until sliced;
		// give them proper zero values now so that s[:cap] is well-formed.
		if cap(out) > len(out) {
			et := fn.Type().(*types.Signature).Params().At(0).Type().Underlying().(*types.Slice).Elem()
			full := out[:cap(out)]
			for i := len(out); i < len(full); i++ {
				full[i] = m.zero(et)
			}
		}
		return out

	case "copy":
		dst := args[0].([]Value)
		var src []Value
		switch s := args[1].(type) {
		case string, *SymStr:
			for _, b := range m.sbytes(s) {
				src = append(src, b)
			}
		case []Value:
			src = s
		}
		n := min(len(dst), len(src))
		if n > 0 && &dst[0] != &src[0] {
			tmp := make([]Value, n)
			for i := 0; i < n; i++ {
				tmp[i] = copyVal(src[i])
			}
			for i := 0; i < n; i++ {
				m.set(&dst[i], tmp[i])
			}
		}
		return tb.BV(64, uint64(n))

	case "close":
		m.chanClose(args[0].(*Chan))
		return nil

	case "delete":
		m.raceMap(caller, args[0].(*Map), true)
		m.mapDelete(args[0].(*Map), args[1])
		return nil

	case "clear":
		switch x := args[0].(type) {
		case *Map:
			m.raceMap(caller, x, true)
			m.mapClear(x)
		case []Value:
			et := fn.Type().(*types.Signature).Params().At(0).Type().Underlying().(*types.Slice).Elem()
			for i := range x {
				m.set(&x[i], m.zero(et))
			}
		}
		return nil

	case "print", "println":
		return nil

	case "len":
		switch x := args[0].(type) {
		case string:
			return tb.BV(64, uint64(len(x)))
		case *SymStr:
			return tb.BV(64, uint64(len(x.B)))
		case Array:
			return tb.BV(64, uint64(len(x)))
		case *Value:
			return tb.BV(64, uint64(len((*x).(Array))))
		case []Value:
			return tb.BV(64, uint64(len(x)))
		case *Map:
			if x == nil {
				return tb.BV(64, 0)
			}
			return tb.BV(64, uint64(len(x.ents)))
		case *Chan:
			if x == nil {
				return tb.BV(64, 0)
			}
			return tb.BV(64, uint64(len(x.buf)))
		}
		panic(fmt.Sprintf("len: illegal operand: %T", args[0]))

	case "cap":
		switch x := args[0].(type) {
		case Array:
			return tb.BV(64, uint64(len(x)))
		case *Value:
			return tb.BV(64, uint64(len((*x).(Array))))
		case []Value:
			return tb.BV(64, uint64(cap(x)))
		case *Chan:
			if x == nil {
				return tb.BV(64, 0)
			}
			return tb.BV(64, uint64(x.cap))
		}
		panic(fmt.Sprintf("cap: illegal operand: %T", args[0]))

	case "min", "max":
		t := fn.Type().(*types.Signature).Params().At(0).Type()
		r := args[0]
		for _, a := range args[1:] {
			var less *term.T
			if fn.Name() == "min" {
				less = m.binop(token.LSS, t, a, r).(*term.T)
			} else {
				less = m.binop(token.GTR, t, a, r).(*term.T)
			}
			if rt, ok := r.(*term.T); ok {
				r = tb.Ite(less, a.(*term.T), rt)
			} else if m.condBool(less, "minmax") {
				r = a
			}
		}
		return r

	case "panic":
		panic(targetPanic{v: args[0], stack: m.stackString()})

	case "recover":
		return m.doRecover(caller)

	case "ssa:wrapnilchk":
		recv := args[0]
		if p, ok := recv.(*Value); ok && p == nil {
			m.runtimePanic(fmt.Sprintf("value method %s.%s called using nil pointer", m.show(args[1]), m.show(args[2])))
		}
		return recv

	case "ssa:deferstack":
		return &caller.defers
	}
	m.unsupported("built-in " + fn.Name())
	return nil
}

// growCap approximates runtime.growslice (without size classes).
func growCap(oldCap, needed int) int {
	newcap := oldCap
	doublecap := newcap + newcap
	if needed > doublecap {
		return needed
	}
	const threshold = 256
	if oldCap < threshold {
		if doublecap == 0 {
			return needed
		}
		return doublecap
	}
	for newcap < needed {
		newcap += (newcap + 3*threshold) >> 2
	}
	return newcap
}
