package sym

import "gosym/term"

// verifSameFloat64(x, y float64) bool is a harness helper (harness/C10/common.go) whose Go
// body is math.Float64bits(x) == math.Float64bits(y): equality of two floats "as data"
// (NaN equal to NaN, +0 different from -0), in ONE comparison without a fork on NaN-ness.
// Engine model: SMT-LIB "=" on the FloatingPoint sort, which is exactly that relation up
// to the NaN payload (SMT-LIB has a single NaN; two NaNs with different payloads would be
// unequal natively - such a disagreement can only show as a non-reproducing replay, never
// as a silent pass of a differing value). Unlike the route through math.Float64bits it
// introduces no fresh bit-vector variables, so comparing a result with a reference that
// was computed by the same operations is closed by the simplifier (identical terms) and
// leaves no floating-point division in the path condition.
func init() {
	reg("github.com/influxdata/kapacitor.verifSameFloat64", func(m *Machine, fr *frame, a []Value) Value {
		return m.tb.Eq(a[0].(*term.T), a[1].(*term.T))
	})
}
