package sym

import (
	"fmt"
	"go/token"
	"go/types"

	"golang.org/x/tools/go/ssa"

	"gosym/term"
)

// Goroutines are real Go goroutines that pass a baton: exactly one runs at a time.
// Default schedule: run until the goroutine blocks or ends, then the next runnable one
// in round-robin order. Scheduling nondeterminism is NOT explored (stated bound).

type gor struct {
	id       int
	wake     chan struct{}
	runnable bool
	cond     func() bool
	done     bool
	started  bool
	what     string
	top      *frame
	fn       string
	vc       vclock // happens-before clock (Config.RaceMaps)
}

type waiter struct {
	g       *gor
	ch      *Chan
	isSend  bool
	val     Value
	caseIdx int
	sel     *selState
}

type selState struct {
	fired     bool
	firedCase int
	recvVal   Value
	recvOk    bool
	closedErr bool
	waiters   []*waiter
}

type Chan struct {
	cap    int
	elem   types.Type
	buf    []Value
	closed bool
	sendq  []*waiter
	recvq  []*waiter
}

func (m *Machine) spawn(fn Value, args []Value, pos token.Pos) {
	g := &gor{id: len(m.gors), wake: make(chan struct{}, 1), runnable: true}
	switch f := fn.(type) {
	case *ssa.Function:
		g.fn = f.String()
	case *Closure:
		g.fn = f.Fn.String()
	}
	m.gors = append(m.gors, g)
	m.hbSpawn(g)
	go func() {
		<-g.wake
		g.started = true
		m.gorMain(g, func() { m.call(nil, pos, fn, args) })
	}()
}

// gorMain runs body as goroutine g and handles its termination.
func (m *Machine) gorMain(g *gor, body func()) {
	defer func() {
		r := recover()
		g.done = true
		g.runnable = false
		if r != nil && !m.aborting {
			switch p := r.(type) {
			case pathAbort:
				m.finish(&Outcome{Kind: p.kind, Msg: p.msg})
			case targetPanic:
				m.finish(&Outcome{Kind: "panic", Msg: fmt.Sprintf("goroutine %d (%s): %s", g.id, g.fn, m.panicString(p.v)), Stack: p.stack, Goroutine: g.id})
			default:
				m.finish(&Outcome{Kind: "engine", Msg: fmt.Sprintf("engine panic: %v", r)})
			}
		} else if r == nil && !m.aborting && g.id == 0 {
			m.finish(&Outcome{Kind: "ok"})
		}
		m.gorExit(g)
	}()
	if m.aborting {
		return
	}
	body()
}

func (m *Machine) finish(o *Outcome) {
	if m.outcome == nil {
		m.outcome = o
	}
	m.aborting = true
}

// gorExit hands the baton on after g has ended.
func (m *Machine) gorExit(g *gor) {
	if m.aborting {
		for _, o := range m.gors {
			if !o.done {
				m.cur = o
				o.wake <- struct{}{}
				return
			}
		}
		m.doneCh <- struct{}{}
		return
	}
	next := m.pickNext(g)
	if next == nil {
		// all remaining goroutines are blocked forever
		m.finish(&Outcome{Kind: "deadlock", Msg: m.blockedSummary()})
		m.gorExit(g)
		return
	}
	m.cur = next
	next.runnable = true
	next.cond = nil
	next.wake <- struct{}{}
}

func (m *Machine) blockedSummary() string {
	s := ""
	for _, o := range m.gors {
		if !o.done {
			s += fmt.Sprintf("[g%d %s blocked on %s] ", o.id, o.fn, o.what)
		}
	}
	return s
}

func (m *Machine) pickNext(from *gor) *gor {
	n := len(m.gors)
	for k := 1; k <= n; k++ {
		o := m.gors[(from.id+k)%n]
		if o.done {
			continue
		}
		if o.runnable || (o.cond != nil && o.cond()) {
			return o
		}
	}
	return nil
}

// block parks the current goroutine until cond() holds (cond == nil: until made runnable).
func (m *Machine) block(cond func() bool, what string) {
	g := m.cur
	g.runnable = false
	g.cond = cond
	g.what = what
	m.switchFrom(g)
}

// yield lets other runnable goroutines run first.
func (m *Machine) yield() {
	g := m.cur
	g.runnable = true
	g.what = "yield"
	m.switchFrom(g)
}

// pickNextExplored: when the running goroutine blocks or yields and several others can run,
// which one continues is a scheduling decision too. With PreemptAtSync it is explored within
// the same budget as the lock-point preemptions (choosing another than the round-robin
// successor counts as one switch).
func (m *Machine) pickNextExplored(from *gor) *gor {
	def := m.pickNext(from)
	if def == nil || !m.cfg.PreemptAtSync || m.ps == nil || m.preemptions >= m.cfg.MaxPreemptions {
		return def
	}
	cands := []*gor{def}
	for _, o := range m.gors {
		if o != def && o != from && !o.done && (o.runnable || (o.cond != nil && o.cond())) {
			cands = append(cands, o)
		}
	}
	if len(cands) < 2 {
		return def
	}
	k := m.decideFree("sched-pick", len(cands))
	if k != 0 {
		m.preemptions++
	}
	return cands[k]
}

func (m *Machine) switchFrom(g *gor) {
	next := m.pickNextExplored(g)
	if next == nil {
		if g.runnable || (g.cond != nil && g.cond()) {
			g.runnable, g.cond = true, nil
			return
		}
		panic(pathAbort{"deadlock", m.blockedSummary()})
	}
	if next == g {
		g.runnable, g.cond = true, nil
		return
	}
	m.cur = next
	next.runnable, next.cond = true, nil
	next.wake <- struct{}{}
	<-g.wake
	if m.aborting {
		panic(pathAbort{"quiet", ""})
	}
	g.runnable, g.cond = true, nil
}

// syncPoint is called before a lock acquisition. With Config.PreemptAtSync the scheduler
// may hand control to any other runnable goroutine here (a decision, every alternative is
// explored), up to Config.MaxPreemptions switches per path. For data-race-free code,
// interleavings at lock acquisitions are the only ones that matter.
func (m *Machine) syncPoint() {
	if !m.cfg.PreemptAtSync || m.ps == nil || m.preemptions >= m.cfg.MaxPreemptions || m.cur == nil {
		return
	}
	var cands []*gor
	for _, o := range m.gors {
		if o != m.cur && !o.done && (o.runnable || (o.cond != nil && o.cond())) {
			cands = append(cands, o)
		}
	}
	if len(cands) == 0 {
		return
	}
	k := m.decideFree("sched", len(cands)+1)
	if k == 0 {
		return
	}
	m.preemptions++
	g := m.cur
	target := cands[k-1]
	g.runnable = true
	g.what = "preempted"
	m.cur = target
	target.runnable, target.cond = true, nil
	target.wake <- struct{}{}
	<-g.wake
	if m.aborting {
		panic(pathAbort{"quiet", ""})
	}
	g.runnable, g.cond = true, nil
}

// goroutineCounts runs everything to quiescence and reports (live, blocked) excluding the caller.
func (m *Machine) quiesce() (live int) {
	for {
		g := m.cur
		progressed := false
		for _, o := range m.gors {
			if o != g && !o.done && (o.runnable || (o.cond != nil && o.cond())) {
				progressed = true
			}
		}
		if !progressed {
			break
		}
		m.yield()
	}
	for _, o := range m.gors {
		if o != m.cur && !o.done {
			live++
		}
	}
	m.hbJoinAll()
	return
}

// ---------- channels ----------

type selCase struct {
	ch     *Chan
	isSend bool
	val    Value
}

func (c *Chan) firstWaiter(q []*waiter) *waiter {
	for _, w := range q {
		if !w.sel.fired {
			return w
		}
	}
	return nil
}

func removeWaiters(s *selState) {
	for _, w := range s.waiters {
		q := &w.ch.recvq
		if w.isSend {
			q = &w.ch.sendq
		}
		for i, x := range *q {
			if x == w {
				*q = append((*q)[:i:i], (*q)[i+1:]...)
				break
			}
		}
	}
}

func (m *Machine) fire(w *waiter) {
	w.sel.fired = true
	w.sel.firedCase = w.caseIdx
	removeWaiters(w.sel)
	w.g.runnable = true
}

func (m *Machine) caseReady(c selCase) bool {
	if c.ch == nil {
		return false
	}
	if c.isSend {
		return c.ch.closed || len(c.ch.buf) < c.ch.cap || c.ch.firstWaiter(c.ch.recvq) != nil
	}
	return len(c.ch.buf) > 0 || c.ch.firstWaiter(c.ch.sendq) != nil || c.ch.closed
}

func (m *Machine) execCase(c selCase) (Value, bool) {
	ch := c.ch
	m.hbBoth(ch)
	if c.isSend {
		if ch.closed {
			panic(targetPanic{v: Iface{types.Typ[types.String], "send on closed channel"}, stack: m.stackString()})
		}
		if w := ch.firstWaiter(ch.recvq); w != nil {
			w.sel.recvVal, w.sel.recvOk = c.val, true
			m.fire(w)
			return nil, false
		}
		ch.buf = append(ch.buf, c.val)
		return nil, false
	}
	if len(ch.buf) > 0 {
		v := ch.buf[0]
		ch.buf = append([]Value{}, ch.buf[1:]...)
		if w := ch.firstWaiter(ch.sendq); w != nil {
			ch.buf = append(ch.buf, w.val)
			m.fire(w)
		}
		return v, true
	}
	if w := ch.firstWaiter(ch.sendq); w != nil {
		v := w.val
		m.fire(w)
		return v, true
	}
	// closed
	return m.zero(ch.elem), false
}

// selectOp implements send, receive and select.
func (m *Machine) selectOp(cases []selCase, blocking bool, what string) (int, Value, bool) {
	var ready []int
	for i, c := range cases {
		if m.caseReady(c) {
			ready = append(ready, i)
		}
	}
	if len(ready) > 0 {
		k := ready[0]
		if len(ready) > 1 {
			k = ready[m.decideFree("select", len(ready))]
			if k != ready[0] {
				m.selChoices++ // the outcome depends on the runtime's random choice: stress replay
			}
		}
		v, ok := m.execCase(cases[k])
		return k, v, ok
	}
	if !blocking {
		return -1, nil, false
	}
	st := &selState{}
	g := m.cur
	for i, c := range cases {
		if c.ch == nil {
			continue
		}
		m.hbRelease(c.ch)
		w := &waiter{g: g, ch: c.ch, isSend: c.isSend, val: c.val, caseIdx: i, sel: st}
		st.waiters = append(st.waiters, w)
		if c.isSend {
			c.ch.sendq = append(c.ch.sendq, w)
		} else {
			c.ch.recvq = append(c.ch.recvq, w)
		}
	}
	m.block(nil, what)
	if !st.fired {
		panic(pathAbort{"engine", "goroutine woken without fired select"})
	}
	if st.closedErr {
		panic(targetPanic{v: Iface{types.Typ[types.String], "send on closed channel"}, stack: m.stackString()})
	}
	c := cases[st.firedCase]
	m.hbAcquire(c.ch)
	if c.isSend {
		return st.firedCase, nil, false
	}
	if !st.recvOk {
		return st.firedCase, m.zero(c.ch.elem), false
	}
	return st.firedCase, st.recvVal, true
}

func (m *Machine) chanSend(ch *Chan, v Value) {
	if ch == nil {
		m.block(func() bool { return false }, "send on nil channel")
	}
	m.selectOp([]selCase{{ch, true, copyVal(v)}}, true, "chan send")
}

func (m *Machine) chanRecv(ch *Chan) (Value, bool) {
	if ch == nil {
		m.block(func() bool { return false }, "receive from nil channel")
	}
	_, v, ok := m.selectOp([]selCase{{ch, false, nil}}, true, "chan receive")
	return v, ok
}

func (m *Machine) chanClose(ch *Chan) {
	if ch == nil {
		panic(targetPanic{v: Iface{types.Typ[types.String], "close of nil channel"}, stack: m.stackString()})
	}
	if ch.closed {
		panic(targetPanic{v: Iface{types.Typ[types.String], "close of closed channel"}, stack: m.stackString()})
	}
	ch.closed = true
	m.hbRelease(ch)
	for {
		w := ch.firstWaiter(ch.recvq)
		if w == nil {
			break
		}
		w.sel.recvOk = false
		m.fire(w)
	}
	for {
		w := ch.firstWaiter(ch.sendq)
		if w == nil {
			break
		}
		w.sel.closedErr = true
		m.fire(w)
	}
}

func (m *Machine) selectInstr(fr *frame, instr *ssa.Select) Value {
	var cases []selCase
	for _, st := range instr.States {
		c := selCase{isSend: st.Dir == types.SendOnly}
		if ch := m.get(fr, st.Chan); ch != nil {
			c.ch = ch.(*Chan)
		}
		if st.Send != nil {
			c.val = copyVal(m.get(fr, st.Send))
		}
		cases = append(cases, c)
	}
	k, v, ok := m.selectOp(cases, instr.Blocking, "select")
	r := Tuple{m.tb.BV(64, uint64(int64(k))), m.tb.BoolC(ok)}
	for i, st := range instr.States {
		if st.Dir == types.RecvOnly {
			if i == k && ok {
				r = append(r, v)
			} else {
				r = append(r, m.zero(st.Chan.Type().Underlying().(*types.Chan).Elem()))
			}
		}
	}
	return r
}

// ---------- sync primitives (side tables keyed by the address of the primitive) ----------

type mutexState struct {
	locked  bool
	readers int
}
type wgState struct{ n int64 }
type onceState struct{ done bool }

func (m *Machine) mutexOf(p *Value) *mutexState {
	s := m.mutexes[p]
	if s == nil {
		s = &mutexState{}
		m.mutexes[p] = s
	}
	return s
}

func (m *Machine) panicString(v Value) string {
	if it, ok := v.(Iface); ok {
		if it.T == nil {
			return "panic(nil)"
		}
		switch x := it.V.(type) {
		case string:
			return x
		case *SymStr:
			return m.strString(x)
		case *term.T:
			return m.show(x)
		}
		// error value: try its message without running code
		if p, ok := it.V.(*Value); ok && p != nil {
			if s, ok := (*p).(Struct); ok && len(s) > 0 {
				if str, ok := s[0].(string); ok {
					return fmt.Sprintf("(%s) %s", it.T, str)
				}
			}
		}
		return fmt.Sprintf("(%s) %s", it.T, m.show(it.V))
	}
	return m.show(v)
}
