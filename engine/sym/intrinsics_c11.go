package sym

import "gosym/term"

// Intrinsics added for the C11 (aggregation) harnesses: non-forking boolean connectives
// and float "same result" of the harness runtime (rt/vrt/vrt.go: Or, And, SameF64).
// Each builds exactly the term that the Go body of the function computes:
//
//	Or(a...)      = a0 ∨ a1 ∨ …        (false when empty)
//	And(a...)     = a0 ∧ a1 ∧ …        (true when empty)
//	SameF64(a, b) = fp.eq(a,b) ∨ (isNaN(a) ∧ isNaN(b)); for one and the same term t this
//	                is fp.eq(t,t) ∨ isNaN(t) = true, decided without the solver.
const vrtPkg = "github.com/influxdata/kapacitor/zz_vrt."

func init() {
	reg(vrtPkg+"Or", func(m *Machine, fr *frame, a []Value) Value {
		r := m.tb.False()
		for _, x := range a[0].([]Value) {
			r = m.tb.Or(r, x.(*term.T))
		}
		return r
	})
	reg(vrtPkg+"And", func(m *Machine, fr *frame, a []Value) Value {
		r := m.tb.True()
		for _, x := range a[0].([]Value) {
			r = m.tb.And(r, x.(*term.T))
		}
		return r
	})
	reg(vrtPkg+"SameF64", func(m *Machine, fr *frame, a []Value) Value {
		x, y := a[0].(*term.T), a[1].(*term.T)
		if x == y {
			return m.tb.True()
		}
		return m.tb.Or(m.tb.FEq(x, y), m.tb.And(m.tb.FIsNaN(x), m.tb.FIsNaN(y)))
	})
}
