package sym

import (
	"fmt"

	"gosym/term"
)

// decideValue resolves a symbolic index/length v whose structural range [lo,hi] is too
// wide to enumerate alternative by alternative (more than MaxFanout values), by asking
// the solver which values the path condition actually admits. Alternative i (0 <= i <=
// hi-lo) of the decision means v == lo+i, alternative hi-lo+1 means "outside [lo,hi]"
// (only when oor != nil). The alternatives are still mutually exclusive and exhaustive;
// only the feasible ones are ever materialised:
//   - while replaying a decision prefix the recorded alternative is taken directly;
//   - otherwise the current model picks one alternative, and every further feasible
//     value is found by repeated check-sat with the values found so far excluded
//     (at most MaxFanout of them, beyond that the site is unsupported as before).
//
// Typical use: make([]T, n) / s[:n] where n comes from hostile input but the path
// condition (or an Assume of the harness) leaves only a few values, or none in range.
func (m *Machine) decideValue(site string, v *term.T, signed bool, lo, hi int, oor *term.T) (int, bool) {
	ps := m.ps
	w := int(v.S.W)
	oorAlt := hi - lo + 1
	condOf := func(k int) *term.T {
		if k == oorAlt {
			return oor
		}
		return m.tb.Eq(v, m.tb.BV(w, uint64(lo+k)))
	}
	if len(ps.trace) >= m.cfg.MaxDecisions {
		panic(pathAbort{"unwind", fmt.Sprintf("decision budget %d exhausted at %s", m.cfg.MaxDecisions, site)})
	}
	if ps.pos < len(ps.prefix) {
		k := int(ps.prefix[ps.pos])
		ps.pos++
		if k > oorAlt || (k == oorAlt && oor == nil) {
			panic(pathAbort{"engine", fmt.Sprintf("replay divergence at %s: value alt %d of %d", site, k, oorAlt)})
		}
		c := condOf(k)
		ps.trace = append(ps.trace, int32(k))
		if ps.pos == len(ps.prefix) && ps.unchecked {
			ps.modelValid = false
			if c.IsFalse() {
				panic(pathAbort{"infeasible", ""})
			}
			m.sol.Assert(c)
			ps.pcLen++
			ps.facts.Add(c)
			m.ensureModel()
		} else {
			m.addPC(c)
		}
		return lo + k, k != oorAlt
	}
	m.ensureModel()
	valOf := func(ev *term.Evaluator) (int, bool) {
		x := ev.Eval(v)
		var sx int64
		if signed {
			sh := uint(64 - w)
			sx = int64(x<<sh) >> sh
		} else {
			if x > 1<<62 {
				return 0, false
			}
			sx = int64(x)
		}
		if sx < int64(lo) || sx > int64(hi) {
			return 0, false
		}
		return int(sx), true
	}
	cur, curIn := valOf(ps.ev)
	if !curIn && oor == nil {
		panic(pathAbort{"engine", "decideValue: model outside the structural range at " + site})
	}
	k := oorAlt
	if curIn {
		k = cur - lo
	}
	pushAlt := func(alt int, mod term.Model) {
		p := make([]int32, len(ps.trace)+1)
		copy(p, ps.trace)
		p[len(ps.trace)] = int32(alt)
		m.expl.push(workItem{prefix: p, unchecked: false, model: mod})
	}
	// the other feasible in-range values
	var inr *term.T
	if signed {
		inr = m.tb.And(m.tb.SLe(m.tb.BV(w, uint64(lo)), v), m.tb.SLe(v, m.tb.BV(w, uint64(hi))))
	} else {
		inr = m.tb.And(m.tb.ULe(m.tb.BV(w, uint64(lo)), v), m.tb.ULe(v, m.tb.BV(w, uint64(hi))))
	}
	m.sol.Push()
	m.sol.Assert(inr)
	if curIn {
		m.sol.Assert(m.tb.Not(condOf(k)))
	}
	found := 0
	for {
		r, err := m.sol.Check()
		if r == term.Unsat {
			break
		}
		if r != term.Sat {
			m.sol.Pop()
			panic(pathAbort{"inconclusive", fmt.Sprintf("value enumeration at %s: solver unknown (%v)", site, err)})
		}
		mod, merr := m.sol.Model()
		if merr != nil {
			m.sol.Pop()
			panic(pathAbort{"engine", "model: " + merr.Error()})
		}
		x, ok := valOf(term.NewEvaluator(mod))
		if !ok {
			m.sol.Pop()
			panic(pathAbort{"engine", "decideValue: model violates the range constraint at " + site})
		}
		found++
		if found > m.cfg.MaxFanout {
			m.sol.Pop()
			m.unsupported(fmt.Sprintf("symbolic index with more than %d feasible values at %s", m.cfg.MaxFanout, site))
		}
		pushAlt(x-lo, mod)
		m.sol.Assert(m.tb.Not(m.tb.Eq(v, m.tb.BV(w, uint64(x)))))
	}
	m.sol.Pop()
	ps.pruned++
	// the out-of-range alternative
	if oor != nil && curIn {
		m.sol.Push()
		m.sol.Assert(oor)
		r, _ := m.sol.Check()
		var mod term.Model
		if r == term.Sat {
			mod, _ = m.sol.Model()
		}
		m.sol.Pop()
		if r != term.Unsat {
			p := make([]int32, len(ps.trace)+1)
			copy(p, ps.trace)
			p[len(ps.trace)] = int32(oorAlt)
			m.expl.push(workItem{prefix: p, unchecked: r != term.Sat, model: mod})
		}
	}
	ps.trace = append(ps.trace, int32(k))
	m.addPC(condOf(k))
	return lo + k, k != oorAlt
}
