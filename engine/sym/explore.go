package sym

import (
	"fmt"
	"go/types"
	"hash/fnv"
	"os"
	"sort"
	"sync"
	"time"

	"golang.org/x/tools/go/ssa"

	"gosym/term"
)

// Config holds the per-harness bounds and engine options.
type Config struct {
	MaxInstr        int64
	MaxAlloc        int
	MaxFanout       int
	MaxDecisions    int
	MaxPaths        int
	ReverseMaps     bool
	Bounds          map[string]int
	Solver          string
	TimeoutMs       int
	Workers         int
	Seed            int64
	Samples         int
	PreemptAtSync   bool // explore goroutine switches at lock acquisitions
	RaceMaps        bool // report map accesses by different goroutines that are not ordered by happens-before
	MaxPreemptions  int
	BudgetS         float64 // wall-clock budget per harness (0: none); exceeding it truncates
	Progress        bool
	MaxViolPerLabel int

	overrides map[string]*ssa.Function
	NoInitOK  map[string]bool
}

func (c *Config) allowNoInit(path string) bool { return c.NoInitOK[path] }

// SetOverride registers fn as replacement for the function named target.
func (c *Config) SetOverride(target string, fn *ssa.Function) {
	if c.overrides == nil {
		c.overrides = map[string]*ssa.Function{}
	}
	c.overrides[target] = fn
}

// Input is one value handed out by the harness runtime (vrt), in call order.
type Input struct {
	Name  string    `json:"name"`
	Kind  string    `json:"kind"` // bool int uint float bytes choose time
	Bits  int       `json:"bits,omitempty"`
	terms []*term.T // symbolic payload (bytes: one per byte)
	Val   string    `json:"value"` // filled from a model
}

type Obs struct {
	Label string
	vals  []Value
	types []types.Type
	Text  string
}

type Violation struct {
	Harness  string   `json:"harness"`
	Kind     string   `json:"kind"` // assert panic deadlock leak unwind
	Label    string   `json:"label"`
	Msg      string   `json:"msg"`
	Known    string   `json:"known,omitempty"` // known-finding class id claimed by the harness
	Inputs   []Input  `json:"inputs"`
	Trace    []int32  `json:"decisions"`
	Observed []string `json:"observations,omitempty"`
	Sched    bool     `json:"schedule_dependent,omitempty"` // the path took a goroutine preemption decision
	// kind "race": the functions of the two conflicting accesses, in the race detector's naming
	RaceFuncs []string `json:"race_funcs,omitempty"`
}

type Outcome struct {
	Kind      string // ok panic deadlock unwind unsupported infeasible assume inconclusive engine stop
	Msg       string
	Stack     string
	Goroutine int
}

type pathState struct {
	prefix        []int32
	pos           int
	unchecked     bool
	trace         []int32
	model         term.Model
	ev            *term.Evaluator
	modelValid    bool
	inputs        []Input
	obs           []Obs
	reached       []string
	asserts       map[string]bool
	violations    []*Violation
	inconcl       []string
	pcLen         int
	facts         *term.Facts
	quickPruned   int
	quickFeasible int
	trivial       int
	symAsserts    int
	pruned        int
}

type workItem struct {
	prefix    []int32
	unchecked bool
	model     term.Model // a model of the path condition of prefix (nil: none)
}

// Stats aggregated over a harness exploration.
type Stats struct {
	Paths         int
	ByOutcome     map[string]int
	Decisions     int64
	Instrs        int64
	Queries       int
	QuerySat      int
	QueryUnsat    int
	QueryUnknown  int
	QuickFeasible int // alternatives shown feasible by the single-small-variable analysis (no query)
	QuickPruned   int // alternatives refuted by partial evaluation under path equalities (no query)
	Pruned        int // infeasible alternatives pruned at decision time
	Trivial       int // assertions closed by the simplifier without a query
	AssertsSym    int // assertions decided by the solver
	SolveTime     time.Duration
	Reached       map[string]int
	AssertLabels  map[string]int
	Truncated     bool
	BudgetHit     bool
	Funcs         map[string]bool
	Stubs         map[string]bool
	Unsupported   []string
	Infeasible    []string
	Inconclusive  []string
	Engine        []string
	Unwind        []string
	MaxTrace      int
}

type Sample struct {
	Inputs []Input
	Obs    []string
	Trace  []int32
	hash   uint64
}

type Explorer struct {
	Prog    *ssa.Program
	Fn      *ssa.Function
	Name    string
	Cfg     *Config
	mu      sync.Mutex
	cond    *sync.Cond
	queue   []workItem
	active  int
	started int
	Stats   Stats
	Viol    []*Violation
	violCnt map[string]int
	Samples []Sample
	stop    bool
}

func NewExplorer(prog *ssa.Program, fn *ssa.Function, name string, cfg *Config) *Explorer {
	e := &Explorer{Prog: prog, Fn: fn, Name: name, Cfg: cfg, violCnt: map[string]int{}}
	e.cond = sync.NewCond(&e.mu)
	e.Stats.ByOutcome = map[string]int{}
	e.Stats.Reached = map[string]int{}
	e.Stats.AssertLabels = map[string]int{}
	e.Stats.Funcs = map[string]bool{}
	e.Stats.Stubs = map[string]bool{}
	return e
}

func (e *Explorer) push(w workItem) {
	e.mu.Lock()
	e.queue = append(e.queue, w)
	e.mu.Unlock()
	e.cond.Signal()
}

func (e *Explorer) pop() (workItem, bool) {
	e.mu.Lock()
	defer e.mu.Unlock()
	for {
		if e.stop {
			return workItem{}, false
		}
		if len(e.queue) > 0 {
			if e.started >= e.Cfg.MaxPaths {
				e.Stats.Truncated = true
				e.stop = true
				e.cond.Broadcast()
				return workItem{}, false
			}
			w := e.queue[len(e.queue)-1]
			e.queue = e.queue[:len(e.queue)-1]
			e.active++
			e.started++
			return w, true
		}
		if e.active == 0 {
			e.cond.Broadcast()
			return workItem{}, false
		}
		e.cond.Wait()
	}
}

func (e *Explorer) done() {
	e.mu.Lock()
	e.active--
	if e.active == 0 && len(e.queue) == 0 {
		e.cond.Broadcast()
	}
	e.mu.Unlock()
}

// Run explores all paths of the harness with cfg.Workers workers.
func (e *Explorer) Run() error {
	e.push(workItem{})
	t0 := time.Now()
	stopTick := make(chan struct{})
	defer close(stopTick)
	go func() {
		tk := time.NewTicker(10 * time.Second)
		defer tk.Stop()
		for {
			select {
			case <-stopTick:
				return
			case <-tk.C:
				e.mu.Lock()
				if e.Cfg.Progress {
					fmt.Fprintf(os.Stderr, "  [%s %.0fs] paths=%d queue=%d active=%d %v\n", e.Name, time.Since(t0).Seconds(), e.Stats.Paths, len(e.queue), e.active, e.Stats.ByOutcome)
				}
				if e.Cfg.BudgetS > 0 && time.Since(t0).Seconds() > e.Cfg.BudgetS && !e.stop {
					e.Stats.Truncated = true
					e.Stats.BudgetHit = true
					e.stop = true
					e.cond.Broadcast()
				}
				e.mu.Unlock()
			}
		}
	}()
	var wg sync.WaitGroup
	errs := make(chan error, e.Cfg.Workers)
	for i := 0; i < e.Cfg.Workers; i++ {
		wg.Add(1)
		go func(id int) {
			defer wg.Done()
			m, err := NewMachine(e.Prog, e.Cfg)
			if err != nil {
				errs <- err
				e.mu.Lock()
				e.stop = true
				e.mu.Unlock()
				e.cond.Broadcast()
				return
			}
			defer m.Close()
			for {
				w, ok := e.pop()
				if !ok {
					break
				}
				m.runPath(e, w)
				e.done()
			}
			e.mu.Lock()
			e.Stats.Queries += m.sol.Queries
			e.Stats.QuerySat += m.sol.ByResult[term.Sat]
			e.Stats.QueryUnsat += m.sol.ByResult[term.Unsat]
			e.Stats.QueryUnknown += m.sol.ByResult[term.Unknown]
			e.Stats.SolveTime += m.sol.SolveTime
			for f := range m.funcsSeen {
				e.Stats.Funcs[f.String()] = true
			}
			for s := range m.stubsUsed {
				e.Stats.Stubs[s] = true
			}
			e.mu.Unlock()
		}(i)
	}
	wg.Wait()
	select {
	case err := <-errs:
		return err
	default:
	}
	sort.Slice(e.Samples, func(i, j int) bool { return e.Samples[i].hash < e.Samples[j].hash })
	return nil
}

func NewMachine(prog *ssa.Program, cfg *Config) (*Machine, error) {
	sol, err := term.NewSolver(cfg.Solver, cfg.TimeoutMs)
	if err != nil {
		return nil, err
	}
	m := &Machine{prog: prog, tb: term.NewTable(), sol: sol, cfg: cfg,
		globals: map[*ssa.Global]*Value{}, initDone: map[*ssa.Package]bool{},
		funcsSeen: map[*ssa.Function]bool{}, stubsUsed: map[string]bool{}}
	if rt := prog.ImportedPackage("runtime"); rt != nil {
		if t := rt.Type("errorString"); t != nil {
			m.rtErr = t.Object().Type()
		}
	}
	m.doneCh = make(chan struct{}, 1)
	if os.Getenv("GOSYM_SLOW") != "" {
		sol.KeepHist = true
		sol.SlowHook = func(d time.Duration, res term.Result) {
			if d > 8*time.Second {
				f, _ := os.CreateTemp("", "slowq-*.smt2")
				for _, lvl := range sol.Hist {
					for _, l := range lvl {
						fmt.Fprintln(f, l)
					}
				}
				fmt.Fprintln(f, "(check-sat)")
				f.Close()
				fmt.Fprintf(os.Stderr, "SLOWDUMP %s\n", f.Name())
			}
			var ch []string
			if m.ps != nil {
				for _, in := range m.ps.inputs {
					if in.Kind == "choose" {
						ch = append(ch, in.Name+"="+in.Val)
					}
				}
			}
			fmt.Fprintf(os.Stderr, "SLOW %.1fs %v choices=%v at %s\n", d.Seconds(), res, ch, m.stackString())
		}
	}
	return m, nil
}

func (m *Machine) Close() { m.sol.Close() }

func (m *Machine) resetPath() {
	m.gors = nil
	m.cur = nil
	m.aborting = false
	m.outcome = nil
	m.mutexes = map[*Value]*mutexState{}
	m.wgs = map[*Value]*wgState{}
	m.onces = map[*Value]*onceState{}
	m.pools = map[*Value]*[]Value{}
	m.syncVCs = map[any]*vclock{}
	m.mapRaces = map[*Map]*mapRaceState{}
	m.raceReported = false
	m.instrs = 0
	m.callDepth = 0
	m.opaqueN = 0
	m.timeVarSeq = 0
	m.lastNow = nil
	m.preemptions = 0
	m.selChoices = 0
	m.epoch++
}

func (m *Machine) runPath(e *Explorer, w workItem) {
	m.resetPath()
	ps := &pathState{prefix: w.prefix, unchecked: w.unchecked, asserts: map[string]bool{}, facts: term.NewFacts()}
	ps.model = term.Model{}
	if w.model != nil {
		ps.model = w.model
	}
	ps.ev = term.NewEvaluator(ps.model)
	ps.modelValid = true // empty PC: any model satisfies it; addPC re-validates as the prefix is replayed
	m.ps = ps
	m.expl = e
	base := m.sol.Level()
	m.sol.Push()
	m.logging = true

	g := &gor{id: 0, wake: make(chan struct{}, 1), runnable: true, fn: e.Fn.String()}
	m.gors = append(m.gors, g)
	g.tick()
	m.cur = g
	var vt Value = m.zero(deref(e.Fn.Params[0].Type()))
	arg := &vt
	go func() {
		<-g.wake
		g.started = true
		m.gorMain(g, func() { m.callSSA(nil, 0, e.Fn, []Value{arg}, nil) })
	}()
	g.wake <- struct{}{}
	<-m.doneCh

	out := m.outcome
	if out == nil {
		out = &Outcome{Kind: "engine", Msg: "no outcome"}
	}
	// outcome kinds that are violations of the implicit "no crash / no hang" assertion
	switch out.Kind {
	case "panic", "deadlock":
		if !m.ensureModelQuiet() {
			out = &Outcome{Kind: "infeasible"}
		} else {
			m.recordViolation(&Violation{Kind: out.Kind, Label: out.Kind, Msg: out.Msg + " | stack: " + out.Stack})
		}
	case "unwind":
		// An unwinding bound was exceeded (instruction budget, call depth, decisions): never
		// success. The model is replayed natively: a run that crashes or does not terminate
		// is a violation (non-termination / stack exhaustion); a run that ends normally
		// means the bound is too small for this harness and the check is inconclusive.
		if !m.ensureModelQuiet() {
			out = &Outcome{Kind: "infeasible"}
		} else {
			m.recordViolation(&Violation{Kind: "unwind", Label: "unwind", Msg: out.Msg})
		}
	}
	m.logging = false
	m.rollback()
	m.sol.PopTo(base)

	e.mu.Lock()
	st := &e.Stats
	st.Paths++
	st.ByOutcome[out.Kind]++
	st.Decisions += int64(len(ps.trace))
	st.Instrs += m.instrs
	if len(ps.trace) > st.MaxTrace {
		st.MaxTrace = len(ps.trace)
	}
	for _, r := range ps.reached {
		st.Reached[r]++
	}
	for a := range ps.asserts {
		st.AssertLabels[a]++
	}
	st.Trivial += ps.trivial
	st.Pruned += ps.pruned
	st.QuickPruned += ps.quickPruned
	st.QuickFeasible += ps.quickFeasible
	st.AssertsSym += ps.symAsserts
	switch out.Kind {
	case "infeasible":
		if len(st.Infeasible) < 10 {
			st.Infeasible = append(st.Infeasible, fmt.Sprintf("%s (prefix %d, pos %d, trace %d)", out.Msg, len(ps.prefix), ps.pos, len(ps.trace)))
		}
	case "unsupported":
		if len(st.Unsupported) < 20 {
			st.Unsupported = append(st.Unsupported, out.Msg)
		}
	case "inconclusive":
		if len(st.Inconclusive) < 20 {
			st.Inconclusive = append(st.Inconclusive, out.Msg)
		}
	case "engine":
		if len(st.Engine) < 20 {
			st.Engine = append(st.Engine, out.Msg)
		}
	case "unwind":
		if len(st.Unwind) < 20 {
			st.Unwind = append(st.Unwind, out.Msg)
		}
	}
	for _, s := range ps.inconcl {
		if len(st.Inconclusive) < 20 {
			st.Inconclusive = append(st.Inconclusive, s)
		}
		st.ByOutcome["inconclusive-assert"]++
	}
	for _, v := range ps.violations {
		key := v.Kind + "|" + v.Label + "|" + v.Known
		e.violCnt[key]++
		if e.violCnt[key] <= e.Cfg.MaxViolPerLabel {
			v.Harness = e.Name
			e.Viol = append(e.Viol, v)
		}
	}
	if out.Kind == "ok" && ps.modelValid && e.Cfg.Samples > 0 && len(ps.inputs) > 0 {
		h := fnv.New64a()
		fmt.Fprintf(h, "%d|%v", e.Cfg.Seed, ps.trace)
		hv := h.Sum64()
		if len(e.Samples) < e.Cfg.Samples || hv < e.Samples[len(e.Samples)-1].hash {
			s := Sample{Inputs: m.concretizeInputs(ps.inputs, ps.ev), Trace: append([]int32{}, ps.trace...), hash: hv}
			for _, o := range ps.obs {
				s.Obs = append(s.Obs, m.renderObs(o, ps.ev))
			}
			e.Samples = append(e.Samples, s)
			sort.Slice(e.Samples, func(i, j int) bool { return e.Samples[i].hash < e.Samples[j].hash })
			if len(e.Samples) > e.Cfg.Samples {
				e.Samples = e.Samples[:e.Cfg.Samples]
			}
		}
	}
	e.mu.Unlock()
}

// ---------- path condition and decisions ----------

func (m *Machine) addPC(c *term.T) {
	if c.IsTrue() {
		return
	}
	if c.IsFalse() {
		panic(pathAbort{"infeasible", "false path condition"})
	}
	m.sol.Assert(c)
	m.ps.pcLen++
	m.ps.facts.Add(c)
	m.ps.facts.AddConjunct(c)
	if m.ps.modelValid && m.ps.ev.Eval(c) != 1 {
		m.ps.modelValid = false
	}
}

// ensureModel makes sure a model of the current path condition is cached; aborts the
// path if the condition is unsatisfiable or the solver cannot tell.
func (m *Machine) ensureModel() {
	if m.ps.modelValid {
		return
	}
	r, err := m.sol.Check()
	switch r {
	case term.Unsat:
		panic(pathAbort{"infeasible", "path condition unsat at " + m.stackString()})
	case term.Unknown:
		panic(pathAbort{"inconclusive", fmt.Sprintf("path feasibility unknown (%v)", err)})
	}
	mod, err := m.sol.Model()
	if err != nil {
		panic(pathAbort{"engine", "model: " + err.Error()})
	}
	m.ps.model = mod
	m.ps.ev = term.NewEvaluator(mod)
	m.ps.modelValid = true
}

func (m *Machine) ensureModelQuiet() (ok bool) {
	defer func() {
		if r := recover(); r != nil {
			ok = false
		}
	}()
	m.ensureModel()
	return true
}

func (m *Machine) decide(site string, conds []*term.T) int {
	ps := m.ps
	if len(ps.trace) >= m.cfg.MaxDecisions {
		panic(pathAbort{"unwind", fmt.Sprintf("decision budget %d exhausted at %s", m.cfg.MaxDecisions, site)})
	}
	if ps.pos < len(ps.prefix) {
		k := int(ps.prefix[ps.pos])
		ps.pos++
		if k >= len(conds) {
			panic(pathAbort{"engine", fmt.Sprintf("replay divergence at %s: alt %d of %d", site, k, len(conds))})
		}
		ps.trace = append(ps.trace, int32(k))
		if ps.pos == len(ps.prefix) && ps.unchecked {
			ps.modelValid = false
			if conds[k].IsFalse() {
				panic(pathAbort{"infeasible", ""})
			}
			m.sol.Assert(conds[k])
			ps.pcLen++
			ps.facts.Add(conds[k])
			ps.facts.AddConjunct(conds[k])
			m.ensureModel()
		} else {
			m.addPC(conds[k])
		}
		return k
	}
	m.ensureModel()
	k := -1
	for i, c := range conds {
		if ps.ev.Eval(c) == 1 {
			k = i
			break
		}
	}
	if k < 0 {
		panic(pathAbort{"engine", "decision alternatives not exhaustive at " + site + " @ " + m.stackString()})
	}
	for i, c := range conds {
		if i == k || c.IsFalse() {
			continue
		}
		if v, ok := ps.facts.PEval(c); ok && v == 0 {
			ps.quickPruned++ // contradicts equalities already on the path condition
			continue
		}
		if decided, feasible, sv, wit := ps.facts.SmallVarVerdict(c); decided {
			if !feasible {
				ps.quickPruned++ // no admitted value of the (single, <= 8 bit) variable satisfies it
				continue
			}
			// feasible: the current model with that variable moved to the witness value
			mod := make(term.Model, len(ps.model)+1)
			for k2, v2 := range ps.model {
				mod[k2] = v2
			}
			mod[sv.Name] = wit
			p := make([]int32, len(ps.trace)+1)
			copy(p, ps.trace)
			p[len(ps.trace)] = int32(i)
			ps.quickFeasible++
			m.expl.push(workItem{prefix: p, model: mod})
			continue
		}
		// feasibility of the alternative is decided now; its model seeds the new path
		m.sol.Push()
		m.sol.Assert(c)
		r, _ := m.sol.Check()
		var mod term.Model
		if r == term.Sat {
			var err error
			mod, err = m.sol.Model()
			if err != nil {
				m.sol.Pop()
				panic(pathAbort{"engine", "model: " + err.Error()})
			}
		}
		m.sol.Pop()
		if r == term.Unsat {
			ps.pruned++
			continue
		}
		p := make([]int32, len(ps.trace)+1)
		copy(p, ps.trace)
		p[len(ps.trace)] = int32(i)
		m.expl.push(workItem{prefix: p, unchecked: r != term.Sat, model: mod})
	}
	ps.trace = append(ps.trace, int32(k))
	m.addPC(conds[k])
	return k
}

// decideFree is an n-way decision whose alternatives are all feasible (Choose, select).
func (m *Machine) decideFree(site string, n int) int {
	ps := m.ps
	if n <= 1 {
		return 0
	}
	if len(ps.trace) >= m.cfg.MaxDecisions {
		panic(pathAbort{"unwind", fmt.Sprintf("decision budget %d exhausted at %s", m.cfg.MaxDecisions, site)})
	}
	if ps.pos < len(ps.prefix) {
		k := int(ps.prefix[ps.pos])
		ps.pos++
		if k >= n {
			panic(pathAbort{"engine", fmt.Sprintf("replay divergence at %s: alt %d of %d", site, k, n)})
		}
		ps.trace = append(ps.trace, int32(k))
		return k
	}
	for i := n - 1; i >= 1; i-- {
		p := make([]int32, len(ps.trace)+1)
		copy(p, ps.trace)
		p[len(ps.trace)] = int32(i)
		m.expl.push(workItem{prefix: p, unchecked: false})
	}
	ps.trace = append(ps.trace, 0)
	return 0
}

// ---------- assertions ----------

func (m *Machine) recordViolation(v *Violation) {
	ps := m.ps
	v.Sched = m.preemptions > 0 || m.selChoices > 0
	v.Inputs = m.concretizeInputs(ps.inputs, ps.ev)
	v.Trace = append([]int32{}, ps.trace...)
	for _, o := range ps.obs {
		v.Observed = append(v.Observed, m.renderObs(o, ps.ev))
	}
	ps.violations = append(ps.violations, v)
}

// assert checks c on the current path: PC ∧ ¬c must be unsatisfiable.
// known (may be nil) is the predicate of a recorded known-finding class; the query is
// split so that a violation outside the class is still reported as new.
func (m *Machine) assert(c *term.T, label string, known *term.T, knownID string) {
	ps := m.ps
	ps.asserts[label] = true
	if c.IsTrue() {
		ps.trivial++
		return
	}
	if ps.pos < len(ps.prefix) {
		// still replaying the decision prefix: this assertion was decided, under the same
		// path condition, by the path that spawned this one
		m.addPC(c)
		return
	}
	neg := m.tb.Not(c)
	try := func(extra *term.T, kid string) {
		q := neg
		if extra != nil {
			q = m.tb.And(neg, extra)
		}
		if q.IsFalse() {
			return
		}
		// fast path: current model already violates
		if ps.modelValid && ps.ev.Eval(q) == 1 {
			m.recordViolation(&Violation{Kind: "assert", Label: label, Known: kid})
			return
		}
		ps.symAsserts++
		m.sol.Push()
		m.sol.Assert(q)
		r, err := m.sol.Check()
		switch r {
		case term.Sat:
			mod, merr := m.sol.Model()
			m.sol.Pop()
			if merr != nil {
				panic(pathAbort{"engine", "model: " + merr.Error()})
			}
			saved, savedEv, savedValid := ps.model, ps.ev, ps.modelValid
			ps.model, ps.ev = mod, term.NewEvaluator(mod)
			m.recordViolation(&Violation{Kind: "assert", Label: label, Known: kid})
			ps.model, ps.ev, ps.modelValid = saved, savedEv, savedValid
		case term.Unsat:
			m.sol.Pop()
		default:
			m.sol.Pop()
			ps.inconcl = append(ps.inconcl, fmt.Sprintf("assert %q: solver unknown (%v)", label, err))
		}
	}
	if known != nil {
		try(m.tb.Not(known), "")
		try(known, knownID)
	} else {
		try(nil, "")
	}
	// continue under the assumption that the assertion holds
	if c.IsFalse() {
		panic(pathAbort{"violated", "assertion " + label + " fails on every input of this path"})
	}
	m.addPC(c)
}

// ---------- inputs / observations ----------

func (m *Machine) newInput(name, kind string, s term.Sort) *term.T {
	ps := m.ps
	vn := fmt.Sprintf("%s#%d", name, len(ps.inputs))
	t := m.tb.Var(vn, s)
	ps.inputs = append(ps.inputs, Input{Name: name, Kind: kind, Bits: int(s.W), terms: []*term.T{t}})
	return t
}

func (m *Machine) concretizeInputs(in []Input, ev *term.Evaluator) []Input {
	out := make([]Input, len(in))
	for i, x := range in {
		out[i] = x
		switch x.Kind {
		case "bytes":
			b := make([]byte, len(x.terms))
			for j, t := range x.terms {
				b[j] = byte(ev.Eval(t))
			}
			out[i].Val = fmt.Sprintf("%x", b)
		case "choose":
			// Val already set
		case "bool":
			out[i].Val = fmt.Sprint(ev.Eval(x.terms[0]) == 1)
		case "int", "time":
			v := ev.Eval(x.terms[0])
			w := x.terms[0].S.W
			sh := 64 - uint(w)
			out[i].Val = fmt.Sprint(int64(v<<sh) >> sh)
		default: // uint, float (bits)
			out[i].Val = fmt.Sprint(ev.Eval(x.terms[0]))
		}
		out[i].terms = nil
	}
	return out
}

// renderObs renders an observation canonically (must match vrt's native rendering).
func (m *Machine) renderObs(o Obs, ev *term.Evaluator) string {
	s := o.Label + ":"
	for i, v := range o.vals {
		s += " " + m.renderVal(v, o.types[i], ev)
	}
	return s
}

func (m *Machine) renderVal(v Value, t types.Type, ev *term.Evaluator) string {
	switch v := v.(type) {
	case *term.T:
		x := ev.Eval(v)
		switch v.S.K {
		case term.KBool:
			return fmt.Sprint(x == 1)
		case term.KFP:
			if v.S.W == 32 {
				return fmt.Sprintf("f32:%08x", x)
			}
			return fmt.Sprintf("f64:%016x", canonNaN(x))
		}
		if t != nil && !isSigned(t) {
			return fmt.Sprint(x)
		}
		sh := 64 - uint(v.S.W)
		return fmt.Sprint(int64(x<<sh) >> sh)
	case string:
		return fmt.Sprintf("%q", v)
	case *SymStr:
		b := make([]byte, len(v.B))
		for i, t := range v.B {
			b[i] = byte(ev.Eval(t))
		}
		return fmt.Sprintf("%q", string(b))
	case TimeV:
		if v.Pre {
			return "t:zero+d"
		}
		if v.Zero {
			return "t:zero"
		}
		return fmt.Sprintf("t:%d", int64(ev.Eval(v.NS)))
	case Iface:
		if v.T == nil {
			return "nil"
		}
		return m.renderVal(v.V, v.T, ev)
	case []Value:
		// []byte
		b := make([]byte, len(v))
		for i, e := range v {
			t, ok := e.(*term.T)
			if !ok {
				return "<slice>"
			}
			b[i] = byte(ev.Eval(t))
		}
		return fmt.Sprintf("%q", string(b))
	}
	return fmt.Sprintf("<%T>", v)
}

func canonNaN(bits uint64) uint64 {
	if bits&0x7ff0000000000000 == 0x7ff0000000000000 && bits&0x000fffffffffffff != 0 {
		return 0x7ff8000000000001
	}
	return bits
}
