package sym

import (
	"fmt"
	"strings"
)

// Happens-before tracking for concurrent map access (Config.RaceMaps).
//
// Go's runtime kills the whole process on a concurrent map read+write or write+write
// ("fatal error: concurrent map writes", not recoverable). The cooperative scheduler of
// this engine never overlaps two accesses in time, so such a defect is invisible to
// assertions; instead every goroutine carries a vector clock, synchronisation operations
// transfer clocks, and two accesses to one map object by different goroutines of which at
// least one writes and which are not ordered by happens-before are reported as a violation
// of kind "race". The replay confirms it natively under the Go race detector.
//
// The model over-approximates happens-before (every channel, mutex, WaitGroup, Once, Pool
// and atomically accessed word is one synchronisation object on which every operation both
// acquires and releases as far as that is sound for suppressing reports), so it can miss
// races but does not invent them; v.Goroutines() joins all clocks into the caller.

type vclock []uint32

func (a vclock) get(i int) uint32 {
	if i < len(a) {
		return a[i]
	}
	return 0
}

func (a *vclock) join(b vclock) {
	for len(*a) < len(b) {
		*a = append(*a, 0)
	}
	for i, x := range b {
		if x > (*a)[i] {
			(*a)[i] = x
		}
	}
}

func (a vclock) copy() vclock { return append(vclock{}, a...) }

func (g *gor) tick() {
	for len(g.vc) <= g.id {
		g.vc = append(g.vc, 0)
	}
	g.vc[g.id]++
}

func (m *Machine) raceOn() bool { return m.cfg.RaceMaps && m.cur != nil }

// hbSpawn: the go statement happens before the start of the new goroutine.
func (m *Machine) hbSpawn(child *gor) {
	if !m.cfg.RaceMaps {
		return
	}
	if m.cur != nil {
		child.vc = m.cur.vc.copy()
		m.cur.tick()
	}
	child.tick()
}

func (m *Machine) syncVC(key any) *vclock {
	c := m.syncVCs[key]
	if c == nil {
		c = &vclock{}
		m.syncVCs[key] = c
	}
	return c
}

func (m *Machine) hbAcquire(key any) {
	if m.raceOn() {
		m.cur.vc.join(*m.syncVC(key))
	}
}

func (m *Machine) hbRelease(key any) {
	if m.raceOn() {
		m.syncVC(key).join(m.cur.vc)
		m.cur.tick()
	}
}

func (m *Machine) hbBoth(key any) {
	m.hbAcquire(key)
	m.hbRelease(key)
}

// hbJoinAll: the caller has waited for all other goroutines to finish or block.
func (m *Machine) hbJoinAll() {
	if !m.raceOn() {
		return
	}
	for _, o := range m.gors {
		if o != m.cur {
			m.cur.vc.join(o.vc)
		}
	}
}

type mapAccess struct {
	g     *gor
	c     uint32
	where string
}

type mapRaceState struct {
	w     *mapAccess
	reads map[int]*mapAccess
}

// raceMap records a map access by the current goroutine and reports it when it is
// concurrent with an earlier conflicting access.
func (m *Machine) raceMap(fr *frame, mp *Map, write bool) {
	if !m.raceOn() || mp == nil || m.ps == nil || len(m.gors) < 2 {
		return
	}
	st := m.mapRaces[mp]
	if st == nil {
		st = &mapRaceState{reads: map[int]*mapAccess{}}
		m.mapRaces[mp] = st
	}
	g := m.cur
	where := ""
	if fr != nil && fr.fn != nil {
		where = fr.fn.String()
	}
	conflict := func(a *mapAccess, awrite bool) {
		if a == nil || a.g == g || g.vc.get(a.g.id) >= a.c {
			return
		}
		m.reportRace(a, awrite, &mapAccess{g: g, where: where}, write)
	}
	conflict(st.w, true)
	if write {
		for _, r := range st.reads {
			conflict(r, false)
		}
		st.w = &mapAccess{g: g, c: g.vc.get(g.id), where: where}
		st.reads = map[int]*mapAccess{}
	} else {
		st.reads[g.id] = &mapAccess{g: g, c: g.vc.get(g.id), where: where}
	}
}

func rw(write bool) string {
	if write {
		return "write"
	}
	return "read"
}

func (m *Machine) reportRace(a *mapAccess, awrite bool, b *mapAccess, bwrite bool) {
	ps := m.ps
	if ps.pos < len(ps.prefix) || m.raceReported {
		return // decided by the path that spawned this one / one report per path
	}
	m.raceReported = true
	msg := fmt.Sprintf("map %s by goroutine %d (%s) in %s is concurrent with (not ordered by happens-before after) the map %s by goroutine %d (%s) in %s",
		rw(bwrite), b.g.id, b.g.fn, b.where, rw(awrite), a.g.id, a.g.fn, a.where)
	v := &Violation{Kind: "race", Label: "concurrent map access", Msg: msg, RaceFuncs: []string{raceFrameName(a.where), raceFrameName(b.where)}}
	m.recordViolation(v)
}

// raceFrameName converts an ssa function name ("(*pkg/path.T).Method", "pkg/path.F$1")
// into the form the Go race detector prints ("pkg/path.(*T).Method", "pkg/path.F.func1");
// closures are cut at the enclosing function.
func raceFrameName(s string) string {
	if i := strings.IndexByte(s, '$'); i >= 0 {
		s = s[:i]
	}
	if strings.HasPrefix(s, "(") {
		j := strings.Index(s, ").")
		if j < 0 {
			return s
		}
		recv, meth := s[1:j], s[j+2:]
		ptr := strings.HasPrefix(recv, "*")
		recv = strings.TrimPrefix(recv, "*")
		k := strings.LastIndexByte(recv, '.')
		if k < 0 {
			return s
		}
		if ptr {
			return recv[:k] + ".(*" + recv[k+1:] + ")." + meth
		}
		return recv[:k] + "." + recv[k+1:] + "." + meth
	}
	return s
}
