package sym

import (
	"fmt"
	"go/token"
	"go/types"
	"slices"
	"strings"

	"golang.org/x/tools/go/ssa"
	"golang.org/x/tools/go/types/typeutil"

	"gosym/term"
)

// ---------- control-flow panics used by the engine ----------

// targetPanic is a Go panic of the interpreted program.
type targetPanic struct {
	v     Value
	stack string
}

// pathAbort ends the whole path (never visible to the interpreted program).
type pathAbort struct {
	kind string // infeasible | assume | unsupported | unwind | stop | quiet | inconclusive | engine
	msg  string
}

type deferred struct {
	fn   Value
	args []Value
	pos  token.Pos
	tail *deferred
}

type frame struct {
	m                *Machine
	g                *gor
	caller           *frame
	fn               *ssa.Function
	block, prevBlock *ssa.BasicBlock
	env              map[ssa.Value]Value
	locals           []Value
	defers           *deferred
	result           Value
	panicking        bool
	panic            any
	phitemps         []Value
	callpos          token.Pos
	isInit           bool
}

// Machine is one interpreter instance (one per worker).
type Machine struct {
	prog    *ssa.Program
	tb      *term.Table
	sol     *term.Solver
	cfg     *Config
	globals map[*ssa.Global]*Value
	typeIDs typeutil.Map
	rtErr   types.Type // runtime.errorString (may be nil)

	initDone map[*ssa.Package]bool

	// memory undo
	logging bool
	undo    []undoRec
	mapUndo []mapUndo
	epoch   int

	// path state
	ps *pathState

	// scheduler
	gors     []*gor
	cur      *gor
	aborting bool
	doneCh   chan struct{}
	outcome  *Outcome

	// side tables for sync primitives (reset per path)
	mutexes map[*Value]*mutexState
	wgs     map[*Value]*wgState
	onces   map[*Value]*onceState
	pools   map[*Value]*[]Value
	// happens-before tracking (Config.RaceMaps)
	syncVCs      map[any]*vclock
	mapRaces     map[*Map]*mapRaceState
	raceReported bool
	selChoices   int // select statements resolved to a ready case other than the first
	opaqueN      int

	instrs      int64
	callDepth   int
	funcsSeen   map[*ssa.Function]bool
	stubsUsed   map[string]bool
	timeVarSeq  int
	lastNow     *term.T
	preemptions int
	expl        *Explorer
}

func (m *Machine) get(fr *frame, key ssa.Value) Value {
	switch key := key.(type) {
	case nil:
		return nil
	case *ssa.Function, *ssa.Builtin:
		return key
	case *ssa.Const:
		return m.constValue(key)
	case *ssa.Global:
		if r, ok := m.globals[key]; ok {
			return r
		}
		return m.globalAddr(key)
	}
	if r, ok := fr.env[key]; ok {
		return r
	}
	panic(fmt.Sprintf("get: no value for %T: %v in %s", key, key.Name(), fr.fn))
}

// globalAddr lazily creates storage for a global and makes sure its package is initialised.
func (m *Machine) globalAddr(g *ssa.Global) *Value {
	if r, ok := m.globals[g]; ok {
		return r
	}
	m.ensureInit(g.Pkg)
	if r, ok := m.globals[g]; ok {
		return r
	}
	cell := m.zero(deref(g.Type()))
	p := &cell
	m.globals[g] = p
	return p
}

// ensureInit runs the package initialiser of a package whose source we have. Globals of
// packages loaded from export data have no initialiser we can run: reading them is
// unsupported unless whitelisted.
func (m *Machine) ensureInit(pkg *ssa.Package) {
	if pkg == nil || m.initDone[pkg] {
		return
	}
	m.initDone[pkg] = true
	for _, mem := range pkg.Members {
		if g, ok := mem.(*ssa.Global); ok {
			if _, ok := m.globals[g]; !ok {
				cell := m.zero(deref(g.Type()))
				m.globals[g] = &cell
			}
		}
	}
	init := pkg.Func("init")
	if init == nil || init.Blocks == nil {
		if !m.cfg.allowNoInit(pkg.Pkg.Path()) {
			m.unsupported("global of package without source: " + pkg.Pkg.Path())
		}
		return
	}
	if m.logging {
		// initialisation during a path: must not be undone; suspend logging
		m.logging = false
		defer func() { m.logging = true }()
	}
	savedInstr := m.instrs
	m.instrs = -1 << 50
	m.callSSA(nil, token.NoPos, init, nil, nil)
	m.instrs = savedInstr
}

// isPkgInit reports whether fn is a synthetic package initialiser.
func isPkgInit(fn *ssa.Function) bool {
	return fn.Name() == "init" && fn.Synthetic != "" && fn.Signature.Recv() == nil && fn.Parent() == nil
}

// visitInit executes one instruction of a package initialiser tolerantly: an initialiser
// expression that is not encodable (reflection, regexp, os, ...) leaves a poison value
// (Bad) in the variable; only a later *use* of that variable is unsupported.
func (m *Machine) visitInit(fr *frame, instr ssa.Instruction) (k continuation) {
	if _, isGo := instr.(*ssa.Go); isGo {
		return kNext // background goroutines started by initialisers are not modelled
	}
	defer func() {
		if r := recover(); r != nil {
			if pa, ok := r.(pathAbort); ok && pa.kind != "unsupported" && pa.kind != "unwind" && pa.kind != "engine" {
				panic(r)
			}
			v, isVal := instr.(ssa.Value)
			if !isVal {
				switch instr.(type) {
				case *ssa.Store, *ssa.MapUpdate, *ssa.Send, *ssa.RunDefers, *ssa.Defer:
					k = kNext
					return
				}
				panic(pathAbort{"unsupported", fmt.Sprintf("package initialiser %s: cannot continue after %v", fr.fn.Pkg.Pkg.Path(), r)})
			}
			fr.env[v] = Bad{}
			k = kNext
		}
	}()
	return m.visitInstr(fr, instr)
}

func (m *Machine) constValue(c *ssa.Const) Value {
	if c.Value == nil {
		return m.zero(c.Type())
	}
	t := c.Type().Underlying()
	b, ok := t.(*types.Basic)
	if !ok {
		if _, isTP := t.(*types.TypeParam); isTP {
			m.unsupported("constant of type parameter type")
		}
		panic(fmt.Sprintf("constValue: %v of type %v", c, c.Type()))
	}
	if b.Info()&types.IsString != 0 {
		return constantString(c)
	}
	s, ok := sortOf(b)
	if !ok {
		m.unsupported("constant of type " + b.String())
	}
	switch s.K {
	case term.KBool:
		return m.tb.BoolC(constantBool(c))
	case term.KBV:
		if b.Info()&types.IsUnsigned != 0 {
			return m.tb.BV(int(s.W), c.Uint64())
		}
		return m.tb.BV(int(s.W), uint64(c.Int64()))
	default:
		if s.W == 32 {
			return m.tb.F32(float32(c.Float64()))
		}
		return m.tb.F64(c.Float64())
	}
}

// ---------- defers / panics ----------

func (m *Machine) runDefer(fr *frame, d *deferred) {
	var ok bool
	defer func() {
		if !ok {
			r := recover()
			if pa, isAbort := r.(pathAbort); isAbort {
				panic(pa)
			}
			fr.panicking = true
			fr.panic = r
		}
	}()
	m.call(fr, d.pos, d.fn, d.args)
	ok = true
}

func (m *Machine) runDefers(fr *frame) {
	for d := fr.defers; d != nil; d = d.tail {
		m.runDefer(fr, d)
	}
	fr.defers = nil
	if fr.panicking {
		panic(fr.panic)
	}
}

func (m *Machine) doRecover(caller *frame) Value {
	if caller != nil && !caller.panicking && caller.caller != nil && caller.caller.panicking {
		caller.caller.panicking = false
		p := caller.caller.panic
		caller.caller.panic = nil
		switch p := p.(type) {
		case targetPanic:
			return p.v
		default:
			panic(fmt.Sprintf("engine: unexpected panic value in recover: %T %v", p, p))
		}
	}
	return Iface{}
}

// runtimePanic raises a Go run-time panic in the interpreted program.
func (m *Machine) runtimePanic(msg string) {
	if !strings.HasPrefix(msg, "runtime error: ") {
		msg = "runtime error: " + msg
	}
	var v Value
	if m.rtErr != nil {
		v = Iface{m.rtErr, msg}
	} else {
		v = Iface{types.Typ[types.String], msg}
	}
	panic(targetPanic{v: v, stack: m.stackString()})
}

func (m *Machine) unsupported(what string) {
	panic(pathAbort{"unsupported", what + " @ " + m.stackString()})
}

func (m *Machine) stackString() string {
	var sb strings.Builder
	n := 0
	var fr *frame
	if m.cur != nil {
		fr = m.cur.top
	}
	for ; fr != nil && n < 12; fr = fr.caller {
		if n > 0 {
			sb.WriteString(" < ")
		}
		sb.WriteString(fr.fn.String())
		n++
	}
	return sb.String()
}

// ---------- calls ----------

func (m *Machine) prepareCall(fr *frame, call *ssa.CallCommon) (fn Value, args []Value) {
	v := m.get(fr, call.Value)
	if call.Method == nil {
		fn = v
	} else {
		recv := v.(Iface)
		if recv.T == nil {
			m.runtimePanic("invalid memory address or nil pointer dereference")
		}
		if recv.T == rtypeType {
			args = append(args, recv.V)
			for _, arg := range call.Args {
				args = append(args, m.get(fr, arg))
			}
			return m.rtypeMethod(call.Method.Name()), args
		}
		f := m.lookupMethod(recv.T, call.Method)
		if f == nil {
			panic(fmt.Sprintf("method set for dynamic type %v does not contain %s", recv.T, call.Method))
		}
		fn = f
		args = append(args, recv.V)
	}
	for _, arg := range call.Args {
		args = append(args, m.get(fr, arg))
	}
	return
}

func (m *Machine) lookupMethod(typ types.Type, meth *types.Func) *ssa.Function {
	return m.prog.LookupMethod(typ, meth.Pkg(), meth.Name())
}

func (m *Machine) call(caller *frame, pos token.Pos, fn Value, args []Value) Value {
	switch fn := fn.(type) {
	case *ssa.Function:
		if fn == nil {
			m.runtimePanic("invalid memory address or nil pointer dereference")
		}
		return m.callSSA(caller, pos, fn, args, nil)
	case *Closure:
		return m.callSSA(caller, pos, fn.Fn, args, fn.Env)
	case *ssa.Builtin:
		return m.callBuiltin(caller, fn, args)
	case *intrinsicClosure:
		return fn.f(m, caller, args)
	}
	panic(fmt.Sprintf("cannot call %T", fn))
}

type intrinsicClosure struct {
	f func(m *Machine, caller *frame, args []Value) Value
}

func (m *Machine) callSSA(caller *frame, pos token.Pos, fn *ssa.Function, args []Value, env []Value) Value {
	if m.callDepth > 400 {
		panic(pathAbort{"unwind", "call depth > 400 in " + fn.String()})
	}
	if fn.Parent() == nil {
		name := fn.String()
		if fn.Origin() != nil {
			name = fn.Origin().String()
		}
		if ov, ok := m.cfg.overrides[name]; ok {
			m.stubsUsed["override:"+name] = true
			fn = ov
		} else if in, ok := intrinsics[name]; ok {
			m.stubsUsed[name] = true
			fr := &frame{m: m, caller: caller, fn: fn, callpos: pos}
			return in(m, fr, args)
		}
		if fn.Blocks == nil {
			if fn.Name() == "init" && fn.Signature.Recv() == nil {
				return nil // initialiser of a package loaded from export data
			}
			m.unsupported("no code for function " + name)
		}
	}
	if fn.TypeParams().Len() > 0 && len(fn.TypeArgs()) == 0 {
		m.unsupported("uninstantiated generic " + fn.String())
	}
	if m.funcsSeen != nil {
		m.funcsSeen[fn] = true
	}
	var g *gor
	if caller != nil {
		g = caller.g
	} else {
		g = m.cur
	}
	fr := &frame{m: m, g: g, caller: caller, fn: fn, callpos: pos, isInit: isPkgInit(fn)}
	fr.env = make(map[ssa.Value]Value, len(fn.Params)+8)
	fr.block = fn.Blocks[0]
	fr.locals = make([]Value, len(fn.Locals))
	for i, l := range fn.Locals {
		fr.locals[i] = m.zero(deref(l.Type()))
		fr.env[l] = &fr.locals[i]
	}
	for i, p := range fn.Params {
		fr.env[p] = args[i]
	}
	for i, fv := range fn.FreeVars {
		fr.env[fv] = env[i]
	}
	var savedTop *frame
	if g != nil {
		savedTop = g.top
		g.top = fr
	}
	m.callDepth++
	defer func() {
		m.callDepth--
		if g != nil {
			g.top = savedTop
		}
	}()
	for fr.block != nil {
		m.runFrame(fr)
	}
	return fr.result
}

func (m *Machine) runFrame(fr *frame) {
	defer func() {
		if fr.block == nil {
			return // normal return
		}
		r := recover()
		if pa, ok := r.(pathAbort); ok {
			panic(pa)
		}
		if _, ok := r.(targetPanic); !ok {
			// engine bug or Go runtime error inside the engine: convert to engine abort
			panic(pathAbort{"engine", fmt.Sprintf("%v @ %s in %s", r, m.stackString(), fr.fn)})
		}
		fr.panicking = true
		fr.panic = r
		m.runDefers(fr)
		fr.block = fr.fn.Recover
		if fr.block == nil {
			// recovered, function has no named results: return zero values
			fr.result = m.zeroResults(fr.fn)
		}
	}()
	for {
		nonPhis := m.executePhis(fr)
		for _, instr := range nonPhis {
			m.instrs++
			if m.instrs > m.cfg.MaxInstr {
				panic(pathAbort{"unwind", fmt.Sprintf("instruction budget %d exhausted in %s", m.cfg.MaxInstr, fr.fn)})
			}
			var k continuation
			if fr.isInit {
				k = m.visitInit(fr, instr)
			} else {
				k = m.visitInstr(fr, instr)
			}
			if k == kReturn {
				return
			}
		}
	}
}

func (m *Machine) zeroResults(fn *ssa.Function) Value {
	res := fn.Signature.Results()
	switch res.Len() {
	case 0:
		return nil
	case 1:
		return m.zero(res.At(0).Type())
	}
	t := make(Tuple, res.Len())
	for i := range t {
		t[i] = m.zero(res.At(i).Type())
	}
	return t
}

func (m *Machine) executePhis(fr *frame) []ssa.Instruction {
	firstNonPhi := -1
	for i, instr := range fr.block.Instrs {
		if _, ok := instr.(*ssa.Phi); !ok {
			firstNonPhi = i
			break
		}
	}
	nonPhis := fr.block.Instrs[firstNonPhi:]
	if firstNonPhi > 0 {
		phis := fr.block.Instrs[:firstNonPhi]
		predIndex := slices.Index(fr.block.Preds, fr.prevBlock)
		fr.phitemps = fr.phitemps[:0]
		for _, phi := range phis {
			fr.phitemps = append(fr.phitemps, m.get(fr, phi.(*ssa.Phi).Edges[predIndex]))
		}
		for i, phi := range phis {
			fr.env[phi.(*ssa.Phi)] = fr.phitemps[i]
		}
	}
	return nonPhis
}

type continuation int

const (
	kNext continuation = iota
	kReturn
	kJump
)

// condBool resolves a Bool term to a concrete bool, forking when symbolic.
func (m *Machine) condBool(c *term.T, site string) bool {
	if c.IsConst() {
		return c.C == 1
	}
	return m.decide(site, []*term.T{c, m.tb.Not(c)}) == 0
}

// concInt resolves an integer term to a concrete value. Symbolic values are
// enumerated in [0, hi] via decisions; values outside take the out-of-range alternative
// (returned as ok=false).
func (m *Machine) concIndex(v *term.T, signed bool, n int, site string) (int, bool) {
	if v.IsConst() {
		var x int64
		if signed {
			x = v.Int()
		} else {
			if v.C > 1<<62 {
				return 0, false
			}
			x = int64(v.C)
		}
		if x < 0 || x >= int64(n) {
			return 0, false
		}
		return int(x), true
	}
	lo, hi := 0, n-1
	needOOR := true
	if v.ROK {
		// the structural value range bounds the enumeration
		if v.RLo > int64(hi) || v.RHi < 0 {
			return 0, false
		}
		if v.RLo > 0 {
			lo = int(v.RLo)
		}
		if v.RHi < int64(hi) {
			hi = int(v.RHi)
		}
		needOOR = v.RLo < 0 || v.RHi > int64(n-1)
	}
	if hi-lo+1 > m.cfg.MaxFanout {
		// too wide to enumerate structurally: let the solver enumerate the values the
		// path condition admits (decide_value.go); unsupported only if those are too many
		w := int(v.S.W)
		if w < 64 {
			lim := uint64(1) << uint(w)
			if signed {
				lim >>= 1
			}
			if uint64(hi) >= lim {
				hi = int(lim - 1)
			}
		}
		var oor *term.T
		if needOOR {
			if signed {
				oor = m.tb.Or(m.tb.SLt(v, m.tb.BV(w, uint64(lo))), m.tb.SLt(m.tb.BV(w, uint64(hi)), v))
			} else {
				oor = m.tb.Or(m.tb.ULt(v, m.tb.BV(w, uint64(lo))), m.tb.ULt(m.tb.BV(w, uint64(hi)), v))
			}
		}
		return m.decideValue(site, v, signed, lo, hi, oor)
	}
	w := int(v.S.W)
	conds := make([]*term.T, 0, hi-lo+2)
	oor := m.tb.True()
	for i := lo; i <= hi; i++ {
		if w < 64 {
			lim := uint64(1) << uint(w)
			if signed {
				lim >>= 1
			}
			if uint64(i) >= lim {
				break
			}
		}
		c := m.tb.Eq(v, m.tb.BV(w, uint64(i)))
		conds = append(conds, c)
		oor = m.tb.And(oor, m.tb.Not(c))
	}
	if !needOOR {
		k := m.decide(site, conds)
		return lo + k, true
	}
	conds = append(conds, oor)
	k := m.decide(site, conds)
	if k == len(conds)-1 {
		return 0, false
	}
	return lo + k, true
}

func (m *Machine) visitInstr(fr *frame, instr ssa.Instruction) continuation {
	switch instr := instr.(type) {
	case *ssa.DebugRef:

	case *ssa.UnOp:
		fr.env[instr] = m.unop(fr, instr, m.get(fr, instr.X))

	case *ssa.BinOp:
		fr.env[instr] = m.binop(instr.Op, instr.X.Type(), m.get(fr, instr.X), m.get(fr, instr.Y))

	case *ssa.Call:
		fn, args := m.prepareCall(fr, &instr.Call)
		fr.env[instr] = m.call(fr, instr.Pos(), fn, args)

	case *ssa.ChangeInterface:
		fr.env[instr] = m.get(fr, instr.X)

	case *ssa.ChangeType:
		fr.env[instr] = m.get(fr, instr.X)

	case *ssa.Convert:
		fr.env[instr] = m.conv(instr.Type(), instr.X.Type(), m.get(fr, instr.X))

	case *ssa.SliceToArrayPointer:
		x := m.get(fr, instr.X).([]Value)
		n := int(deref(instr.Type()).Underlying().(*types.Array).Len())
		if len(x) < n {
			m.runtimePanic(fmt.Sprintf("cannot convert slice with length %d to array or pointer to array with length %d", len(x), n))
		}
		if x == nil {
			fr.env[instr] = (*Value)(nil)
		} else {
			var cell Value = Array(x[:n:n])
			fr.env[instr] = &cell
		}

	case *ssa.MakeInterface:
		fr.env[instr] = Iface{T: instr.X.Type(), V: m.get(fr, instr.X)}

	case *ssa.Extract:
		fr.env[instr] = m.get(fr, instr.Tuple).(Tuple)[instr.Index]

	case *ssa.Slice:
		fr.env[instr] = m.slice(instr, m.get(fr, instr.X), m.get(fr, instr.Low), m.get(fr, instr.High), m.get(fr, instr.Max))

	case *ssa.Return:
		switch len(instr.Results) {
		case 0:
		case 1:
			fr.result = m.get(fr, instr.Results[0])
		default:
			res := make(Tuple, 0, len(instr.Results))
			for _, r := range instr.Results {
				res = append(res, m.get(fr, r))
			}
			fr.result = res
		}
		fr.block = nil
		return kReturn

	case *ssa.RunDefers:
		m.runDefers(fr)

	case *ssa.Panic:
		panic(targetPanic{v: m.get(fr, instr.X), stack: m.stackString()})

	case *ssa.Send:
		m.chanSend(m.get(fr, instr.Chan).(*Chan), m.get(fr, instr.X))

	case *ssa.Store:
		switch addr := m.get(fr, instr.Addr).(type) {
		case *Value:
			m.store(addr, m.get(fr, instr.Val))
		case *SymPtr:
			v := m.get(fr, instr.Val).(*term.T)
			w := int(addr.idx.S.W)
			for i := range addr.arr {
				old := addr.arr[i].(*term.T)
				m.set(&addr.arr[i], m.tb.Ite(m.tb.Eq(addr.idx, m.tb.BV(w, uint64(i))), v, old))
			}
		default:
			panic(fmt.Sprintf("store through %T", addr))
		}

	case *ssa.If:
		c := m.get(fr, instr.Cond).(*term.T)
		succ := 1
		if m.condBool(c, "if") {
			succ = 0
		}
		fr.prevBlock, fr.block = fr.block, fr.block.Succs[succ]
		return kJump

	case *ssa.Jump:
		fr.prevBlock, fr.block = fr.block, fr.block.Succs[0]
		return kJump

	case *ssa.Defer:
		fn, args := m.prepareCall(fr, &instr.Call)
		defers := &fr.defers
		if instr.DeferStack != nil {
			if into := m.get(fr, instr.DeferStack); into != nil {
				defers = into.(**deferred)
			}
		}
		*defers = &deferred{fn: fn, args: args, pos: instr.Pos(), tail: *defers}

	case *ssa.Go:
		fn, args := m.prepareCall(fr, &instr.Call)
		m.spawn(fn, args, instr.Pos())

	case *ssa.MakeChan:
		n, ok := m.concIndex(m.get(fr, instr.Size).(*term.T), true, 1<<20, "makechan")
		if !ok {
			m.runtimePanic("makechan: size out of range")
		}
		fr.env[instr] = &Chan{cap: n, elem: instr.Type().Underlying().(*types.Chan).Elem()}

	case *ssa.Alloc:
		var addr *Value
		if instr.Heap {
			addr = new(Value)
			fr.env[instr] = addr
		} else {
			addr = fr.env[instr].(*Value)
		}
		*addr = m.zero(deref(instr.Type()))

	case *ssa.MakeSlice:
		ln, ok1 := m.concIndex(m.get(fr, instr.Len).(*term.T), true, m.cfg.MaxAlloc+1, "makeslice-len")
		if !ok1 {
			m.makeTooBig(m.get(fr, instr.Len).(*term.T), "len")
		}
		cp, ok2 := m.concIndex(m.get(fr, instr.Cap).(*term.T), true, m.cfg.MaxAlloc+1, "makeslice-cap")
		if !ok2 || cp < ln {
			m.makeTooBig(m.get(fr, instr.Cap).(*term.T), "cap")
		}
		s := make([]Value, cp)
		et := instr.Type().Underlying().(*types.Slice).Elem()
		for i := range s {
			s[i] = m.zero(et)
		}
		fr.env[instr] = s[:ln]

	case *ssa.MakeMap:
		mt := instr.Type().Underlying().(*types.Map)
		fr.env[instr] = m.newMap(mt.Key(), mt.Elem())

	case *ssa.Range:
		x := m.get(fr, instr.X)
		if mp, ok := x.(*Map); ok {
			m.raceMap(fr, mp, false)
		}
		fr.env[instr] = m.rangeIter(x)

	case *ssa.Next:
		fr.env[instr] = m.get(fr, instr.Iter).(iter).next(m)

	case *ssa.FieldAddr:
		p := m.get(fr, instr.X).(*Value)
		if p == nil {
			m.runtimePanic("invalid memory address or nil pointer dereference")
		}
		s, ok := (*p).(Struct)
		if !ok {
			m.unsupported(fmt.Sprintf("field access into modelled type %v", deref(instr.X.Type())))
		}
		fr.env[instr] = &s[instr.Field]

	case *ssa.Field:
		s, ok := m.get(fr, instr.X).(Struct)
		if !ok {
			m.unsupported(fmt.Sprintf("field access into modelled type %v", instr.X.Type()))
		}
		fr.env[instr] = s[instr.Field]

	case *ssa.IndexAddr:
		x := m.get(fr, instr.X)
		idx := m.get(fr, instr.Index).(*term.T)
		sg := isSigned(instr.Index.Type())
		var elems []Value
		switch x := x.(type) {
		case []Value:
			elems = x
		case *Value:
			if x == nil {
				m.runtimePanic("invalid memory address or nil pointer dereference")
			}
			elems = []Value((*x).(Array))
		default:
			panic(fmt.Sprintf("unexpected x type in IndexAddr: %T", x))
		}
		if !idx.IsConst() && len(elems) > 1 && len(elems) <= 1024 && allScalar(elems) {
			// symbolic element address of a scalar array: loads become ite chains
			if !m.condBool(m.inRange(idx, sg, len(elems)), "index-range") {
				m.runtimePanic(fmt.Sprintf("index out of range [symbolic] with length %d", len(elems)))
			}
			fr.env[instr] = &SymPtr{arr: elems, idx: idx}
			break
		}
		i, ok := m.concIndex(idx, sg, len(elems), "indexaddr")
		if !ok {
			m.runtimePanic(fmt.Sprintf("index out of range [%s] with length %d", m.show(idx), len(elems)))
		}
		fr.env[instr] = &elems[i]

	case *ssa.Index:
		x := m.get(fr, instr.X)
		idx := m.get(fr, instr.Index).(*term.T)
		sg := isSigned(instr.Index.Type())
		switch x := x.(type) {
		case Array:
			fr.env[instr] = m.indexRead([]Value(x), idx, sg)
		case string:
			if idx.IsConst() {
				i, ok := m.concIndex(idx, sg, len(x), "index")
				if !ok {
					m.runtimePanic(fmt.Sprintf("index out of range [%s] with length %d", m.show(idx), len(x)))
				}
				fr.env[instr] = m.tb.BV(8, uint64(x[i]))
			} else {
				fr.env[instr] = m.indexReadBytes(m.sbytes(x), idx, sg)
			}
		case *SymStr:
			fr.env[instr] = m.indexReadBytes(x.B, idx, sg)
		default:
			panic(fmt.Sprintf("unexpected x type in Index: %T", x))
		}

	case *ssa.Lookup:
		x := m.get(fr, instr.X)
		k := m.get(fr, instr.Index)
		switch x := x.(type) {
		case *Map:
			m.raceMap(fr, x, false)
			v, ok := m.mapLookup(x, k)
			if !ok {
				v = m.zero(instr.X.Type().Underlying().(*types.Map).Elem())
			} else {
				v = copyVal(v)
			}
			if instr.CommaOk {
				fr.env[instr] = Tuple{v, m.tb.BoolC(ok)}
			} else {
				fr.env[instr] = v
			}
		default:
			panic(fmt.Sprintf("Lookup on %T", x))
		}

	case *ssa.MapUpdate:
		mp := m.get(fr, instr.Map).(*Map)
		m.raceMap(fr, mp, true)
		m.mapUpdate(mp, m.get(fr, instr.Key), copyVal(m.get(fr, instr.Value)))

	case *ssa.TypeAssert:
		fr.env[instr] = m.typeAssert(instr, m.get(fr, instr.X).(Iface))

	case *ssa.MakeClosure:
		var bindings []Value
		for _, b := range instr.Bindings {
			bindings = append(bindings, m.get(fr, b))
		}
		fr.env[instr] = &Closure{instr.Fn.(*ssa.Function), bindings}

	case *ssa.Select:
		fr.env[instr] = m.selectInstr(fr, instr)

	default:
		panic(fmt.Sprintf("unexpected instruction: %T", instr))
	}
	return kNext
}

// SymPtr is the address of arr[idx] for a symbolic, in-range idx over scalar elements.
type SymPtr struct {
	arr []Value
	idx *term.T
}

// inRange is the Bool term 0 <= idx < n (idx of any width and signedness).
func (m *Machine) inRange(idx *term.T, signed bool, n int) *term.T {
	wide := idx
	if idx.S.W < 64 {
		if signed {
			wide = m.tb.SExt(idx, 64)
		} else {
			wide = m.tb.ZExt(idx, 64)
		}
	}
	return m.tb.ULt(wide, m.tb.BV(64, uint64(n)))
}

func allScalar(x []Value) bool {
	for _, e := range x {
		if _, ok := e.(*term.T); !ok {
			return false
		}
	}
	return true
}

func (m *Machine) makeTooBig(n *term.T, what string) {
	// negative or larger than the configured allocation bound
	if n.IsConst() && n.Int() >= 0 && n.Int() <= 1<<40 {
		panic(pathAbort{"unwind", fmt.Sprintf("allocation of %d elements exceeds bound %d", n.Int(), m.cfg.MaxAlloc)})
	}
	if n.IsConst() {
		m.runtimePanic("makeslice: " + what + " out of range")
	}
	// symbolic: distinguish "in Go's panic range" from "merely above our bound"
	neg := m.tb.SLt(n, m.tb.BV(int(n.S.W), 0))
	huge := m.tb.SLt(m.tb.BV(int(n.S.W), 1<<40), n)
	if m.condBool(m.tb.Or(neg, huge), "makeslice-range") {
		m.runtimePanic("makeslice: " + what + " out of range")
	}
	panic(pathAbort{"unwind", fmt.Sprintf("symbolic allocation exceeds bound %d", m.cfg.MaxAlloc)})
}

// indexRead reads x[idx]; symbolic index over scalar elements becomes an ite chain.
func (m *Machine) indexRead(x []Value, idx *term.T, signed bool) Value {
	if idx.IsConst() {
		i, ok := m.concIndex(idx, signed, len(x), "index")
		if !ok {
			m.runtimePanic(fmt.Sprintf("index out of range [%s] with length %d", m.show(idx), len(x)))
		}
		return copyVal(x[i])
	}
	allScalar := len(x) > 0
	for _, e := range x {
		if _, ok := e.(*term.T); !ok {
			allScalar = false
			break
		}
	}
	if !allScalar {
		i, ok := m.concIndex(idx, signed, len(x), "index")
		if !ok {
			m.runtimePanic(fmt.Sprintf("index out of range [symbolic] with length %d", len(x)))
		}
		return copyVal(x[i])
	}
	bs := make([]*term.T, len(x))
	for i, e := range x {
		bs[i] = e.(*term.T)
	}
	return m.indexReadBytes(bs, idx, signed)
}

func (m *Machine) indexReadBytes(x []*term.T, idx *term.T, signed bool) *term.T {
	if idx.IsConst() {
		i, ok := m.concIndex(idx, signed, len(x), "index")
		if !ok {
			m.runtimePanic(fmt.Sprintf("index out of range [%s] with length %d", m.show(idx), len(x)))
		}
		return x[i]
	}
	w := int(idx.S.W)
	if !m.condBool(m.inRange(idx, signed, len(x)), "index-range") {
		m.runtimePanic(fmt.Sprintf("index out of range [symbolic] with length %d", len(x)))
	}
	if len(x) > 1024 {
		m.unsupported("symbolic index into table > 1024")
	}
	// group equal values to keep the chain short
	r := x[len(x)-1]
	for i := len(x) - 2; i >= 0; i-- {
		if x[i] == r {
			continue
		}
		// r currently valid for indexes > i ; build ite(idx <= i ? chain_i : r)
		_ = i
		break
	}
	// straightforward chain
	r = x[len(x)-1]
	for i := len(x) - 2; i >= 0; i-- {
		r = m.tb.Ite(m.tb.Eq(idx, m.tb.BV(w, uint64(i))), x[i], r)
	}
	return r
}

func (m *Machine) rangeIter(x Value) iter {
	switch x := x.(type) {
	case *Map:
		it := &mapIter{mp: x}
		if x != nil {
			it.snap = append(it.snap, x.ents...)
			if m.cfg.ReverseMaps {
				slices.Reverse(it.snap)
			}
		} else {
			it.mp = &Map{}
		}
		return it
	case string, *SymStr:
		return &strIter{s: x}
	}
	panic(fmt.Sprintf("cannot range over %T", x))
}

func (m *Machine) typeAssert(instr *ssa.TypeAssert, itf Iface) Value {
	var v Value
	err := ""
	if itf.T == nil {
		err = fmt.Sprintf("interface conversion: interface is nil, not %s", instr.AssertedType)
	} else if idst, ok := instr.AssertedType.Underlying().(*types.Interface); ok {
		v = itf
		if meth, _ := types.MissingMethod(itf.T, idst, true); meth != nil {
			err = fmt.Sprintf("interface conversion: %v is not %v: missing method %s", itf.T, idst, meth.Name())
		}
	} else if types.Identical(itf.T, instr.AssertedType) {
		v = itf.V
	} else {
		err = fmt.Sprintf("interface conversion: interface is %s, not %s", itf.T, instr.AssertedType)
	}
	if err != "" {
		if !instr.CommaOk {
			m.runtimePanic(err)
		}
		return Tuple{m.zero(instr.AssertedType), m.tb.False()}
	}
	if instr.CommaOk {
		return Tuple{v, m.tb.True()}
	}
	return v
}

func (m *Machine) slice(instr *ssa.Slice, x, lo, hi, max Value) Value {
	var Len, Cap int
	switch x := x.(type) {
	case string:
		Len = len(x)
		Cap = Len
	case *SymStr:
		Len = len(x.B)
		Cap = Len
	case []Value:
		Len = len(x)
		Cap = cap(x)
	case *Value:
		if x == nil {
			m.runtimePanic("invalid memory address or nil pointer dereference")
		}
		a := (*x).(Array)
		Len = len(a)
		Cap = cap(a)
	}
	conc := func(v Value, def int, what string) int {
		if v == nil {
			return def
		}
		t := v.(*term.T)
		i, ok := m.concIndex(t, true, Cap+1, "slice-"+what)
		if !ok {
			m.runtimePanic(fmt.Sprintf("slice bounds out of range [%s] with capacity %d", m.show(t), Cap))
		}
		return i
	}
	l := conc(lo, 0, "lo")
	var h int
	_, isStr := x.(string)
	_, isSym := x.(*SymStr)
	if isStr || isSym {
		h = conc(hi, Len, "hi")
		if h > Len {
			m.runtimePanic(fmt.Sprintf("slice bounds out of range [:%d] with length %d", h, Len))
		}
	} else {
		h = conc(hi, Len, "hi")
	}
	mx := conc(max, Cap, "max")
	if l > h {
		m.runtimePanic(fmt.Sprintf("slice bounds out of range [%d:%d]", l, h))
	}
	if h > mx {
		m.runtimePanic(fmt.Sprintf("slice bounds out of range [:%d] with capacity %d", h, mx))
	}
	switch x := x.(type) {
	case string:
		return x[l:h]
	case *SymStr:
		return mkStr(x.B[l:h])
	case []Value:
		if x == nil {
			return []Value(nil)
		}
		return x[l:h:mx]
	case *Value:
		a := (*x).(Array)
		return []Value(a)[l:h:mx]
	}
	panic(fmt.Sprintf("slice: unexpected X type: %T", x))
}
