package sym

import "strings"

// fmt.Fprintf to an io.Writer whose Write method is interpreted code (a buffer or
// recorder of the code under test, not an *os.File): modelled as the real one, i.e. the
// text is formatted (Machine.sprintf: the fmt model of fmt.go) and handed to w.Write in
// ONE call, whose (n, err) is returned. Needed by kapacitor.WritePointForRecording
// (C18), which writes the database and retention policy header lines with Fprintf.
// A value the fmt model can only render as a placeholder makes the path unsupported
// instead of writing wrong bytes. Writers without interpreted code (os.Stderr: pure
// diagnostics) keep the previous no-op model.
func init() {
	old := intrinsics["fmt.Fprintf"]
	reg("fmt.Fprintf", func(m *Machine, fr *frame, a []Value) Value {
		w, ok := a[0].(Iface)
		if !ok || w.T == nil {
			return old(m, fr, a)
		}
		fn := m.methodNamed(w.T, "Write")
		if fn == nil || fn.Blocks == nil {
			return old(m, fr, a)
		}
		s := m.sprintf(fr, a[1], a[2].([]Value))
		if cs, ok := s.(string); ok && strings.Contains(cs, "‹") {
			m.unsupported("fmt.Fprintf to an interpreted writer with a value the fmt model cannot render: " + cs)
		}
		bs := m.sbytes(s)
		buf := make([]Value, len(bs))
		for i, b := range bs {
			buf[i] = b
		}
		caller := fr
		if fr.caller != nil {
			caller = fr.caller
		}
		return m.call(caller, 0, fn, []Value{w.V, buf})
	})

	// influxdb/models.unsafeBytesToString(b) is *(*string)(unsafe.Pointer(&b)): the string
	// with exactly the bytes of b (sharing memory, which only matters if b were written
	// afterwards: the callers - parseIntBytes, parseFloatBytes, parseBoolBytes - pass it
	// straight to strconv). Modelled as string(b).
	reg("github.com/influxdata/influxdb/models.unsafeBytesToString", func(m *Machine, fr *frame, a []Value) Value {
		return mkStr(sliceBytes(a[0].([]Value)))
	})
}
