package sym

import (
	"go/token"
	"go/types"
	"reflect"
)

// Minimal reflection: only what pure libraries need at init or for simple kind tests.
// A reflect(lite).Type is Iface{T: rtypeType, V: RType{t}}; its methods are dispatched
// by name in prepareCall.

var rtypeType = types.NewNamed(types.NewTypeName(token.NoPos, nil, "gosym.rtype", nil), types.NewStruct(nil, nil), nil)

func (m *Machine) rtypeOf(t types.Type) Value {
	if t == nil {
		return Iface{}
	}
	return Iface{T: rtypeType, V: RType{t}}
}

func reflectKind(t types.Type) reflect.Kind {
	switch u := t.Underlying().(type) {
	case *types.Basic:
		switch u.Kind() {
		case types.Bool:
			return reflect.Bool
		case types.Int:
			return reflect.Int
		case types.Int8:
			return reflect.Int8
		case types.Int16:
			return reflect.Int16
		case types.Int32:
			return reflect.Int32
		case types.Int64:
			return reflect.Int64
		case types.Uint:
			return reflect.Uint
		case types.Uint8:
			return reflect.Uint8
		case types.Uint16:
			return reflect.Uint16
		case types.Uint32:
			return reflect.Uint32
		case types.Uint64:
			return reflect.Uint64
		case types.Uintptr:
			return reflect.Uintptr
		case types.Float32:
			return reflect.Float32
		case types.Float64:
			return reflect.Float64
		case types.String:
			return reflect.String
		case types.UnsafePointer:
			return reflect.UnsafePointer
		}
	case *types.Array:
		return reflect.Array
	case *types.Chan:
		return reflect.Chan
	case *types.Signature:
		return reflect.Func
	case *types.Interface:
		return reflect.Interface
	case *types.Map:
		return reflect.Map
	case *types.Pointer:
		return reflect.Pointer
	case *types.Slice:
		return reflect.Slice
	case *types.Struct:
		return reflect.Struct
	}
	return reflect.Invalid
}

func (m *Machine) rtypeMethod(name string) *intrinsicClosure {
	return &intrinsicClosure{f: func(m *Machine, caller *frame, args []Value) Value {
		t := args[0].(RType).T
		switch name {
		case "Elem":
			switch u := t.Underlying().(type) {
			case *types.Pointer:
				return m.rtypeOf(u.Elem())
			case *types.Slice:
				return m.rtypeOf(u.Elem())
			case *types.Array:
				return m.rtypeOf(u.Elem())
			case *types.Map:
				return m.rtypeOf(u.Elem())
			case *types.Chan:
				return m.rtypeOf(u.Elem())
			}
			m.runtimePanic("reflect: Elem of invalid type " + t.String())
		case "Kind":
			return m.tb.BV(64, uint64(reflectKind(t)))
		case "String":
			return t.String()
		case "Name":
			if n, ok := types.Unalias(t).(*types.Named); ok {
				return n.Obj().Name()
			}
			if b, ok := t.(*types.Basic); ok {
				return b.Name()
			}
			return ""
		case "Comparable":
			return m.tb.BoolC(types.Comparable(t))
		case "Implements":
			u := args[1].(Iface).V.(RType).T
			return m.tb.BoolC(types.Implements(t, u.Underlying().(*types.Interface)))
		}
		m.unsupported("reflect Type method " + name)
		return nil
	}}
}

func init() {
	typeOf := func(m *Machine, fr *frame, a []Value) Value { return m.rtypeOf(a[0].(Iface).T) }
	reg("internal/reflectlite.TypeOf", typeOf)
	reg("reflect.TypeOf", typeOf)
	reg("(reflect.Kind).String", func(m *Machine, fr *frame, a []Value) Value {
		return reflect.Kind(a[0].(interface{ Int() int64 }).Int()).String()
	})
}
