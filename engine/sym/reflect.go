package sym

import (
	"go/token"
	"go/types"
	"reflect"

	"gosym/term"
)

// Minimal reflection: only what pure libraries need at init or for simple kind tests.
// A reflect(lite).Type is Iface{T: rtypeType, V: RType{t}}; its methods are dispatched
// by name in prepareCall.

var rtypeType = types.NewNamed(types.NewTypeName(token.NoPos, nil, "gosym.rtype", nil), types.NewStruct(nil, nil), nil)

func (m *Machine) rtypeOf(t types.Type) Value {
	if t == nil {
		return Iface{}
	}
	return Iface{T: rtypeType, V: RType{t}}
}

func reflectKind(t types.Type) reflect.Kind {
	switch u := t.Underlying().(type) {
	case *types.Basic:
		switch u.Kind() {
		case types.Bool:
			return reflect.Bool
		case types.Int:
			return reflect.Int
		case types.Int8:
			return reflect.Int8
		case types.Int16:
			return reflect.Int16
		case types.Int32:
			return reflect.Int32
		case types.Int64:
			return reflect.Int64
		case types.Uint:
			return reflect.Uint
		case types.Uint8:
			return reflect.Uint8
		case types.Uint16:
			return reflect.Uint16
		case types.Uint32:
			return reflect.Uint32
		case types.Uint64:
			return reflect.Uint64
		case types.Uintptr:
			return reflect.Uintptr
		case types.Float32:
			return reflect.Float32
		case types.Float64:
			return reflect.Float64
		case types.String:
			return reflect.String
		case types.UnsafePointer:
			return reflect.UnsafePointer
		}
	case *types.Array:
		return reflect.Array
	case *types.Chan:
		return reflect.Chan
	case *types.Signature:
		return reflect.Func
	case *types.Interface:
		return reflect.Interface
	case *types.Map:
		return reflect.Map
	case *types.Pointer:
		return reflect.Pointer
	case *types.Slice:
		return reflect.Slice
	case *types.Struct:
		return reflect.Struct
	}
	return reflect.Invalid
}

func (m *Machine) rtypeMethod(name string) *intrinsicClosure {
	return &intrinsicClosure{f: func(m *Machine, caller *frame, args []Value) Value {
		t := args[0].(RType).T
		switch name {
		case "Elem":
			switch u := t.Underlying().(type) {
			case *types.Pointer:
				return m.rtypeOf(u.Elem())
			case *types.Slice:
				return m.rtypeOf(u.Elem())
			case *types.Array:
				return m.rtypeOf(u.Elem())
			case *types.Map:
				return m.rtypeOf(u.Elem())
			case *types.Chan:
				return m.rtypeOf(u.Elem())
			}
			m.runtimePanic("reflect: Elem of invalid type " + t.String())
		case "Kind":
			return m.tb.BV(64, uint64(reflectKind(t)))
		case "String":
			return t.String()
		case "Name":
			if n, ok := types.Unalias(t).(*types.Named); ok {
				return n.Obj().Name()
			}
			if b, ok := t.(*types.Basic); ok {
				return b.Name()
			}
			return ""
		case "Comparable":
			return m.tb.BoolC(types.Comparable(t))
		case "Implements":
			u := args[1].(Iface).V.(RType).T
			return m.tb.BoolC(types.Implements(t, u.Underlying().(*types.Interface)))
		}
		m.unsupported("reflect Type method " + name)
		return nil
	}}
}

func init() {
	typeOf := func(m *Machine, fr *frame, a []Value) Value { return m.rtypeOf(a[0].(Iface).T) }
	reg("internal/reflectlite.TypeOf", typeOf)
	reg("reflect.TypeOf", typeOf)
	reg("(reflect.Kind).String", func(m *Machine, fr *frame, a []Value) Value {
		return reflect.Kind(a[0].(interface{ Int() int64 }).Int()).String()
	})
}

// deepEqual models reflect.DeepEqual on two values of static type t: identical pointers,
// maps and slices are equal, otherwise the referenced contents are compared; scalars give
// a term (the result is one non-forking conjunction). Functions are equal only when both
// are nil; map comparison needs concrete keys.
func (m *Machine) deepEqual(t types.Type, x, y Value, seen map[[2]*Value]bool) *term.T {
	tb := m.tb
	switch u := t.Underlying().(type) {
	case *types.Interface:
		xi, yi := x.(Iface), y.(Iface)
		if xi.T == nil || yi.T == nil {
			return tb.BoolC(xi.T == nil && yi.T == nil)
		}
		if !types.Identical(xi.T, yi.T) {
			return tb.False()
		}
		return m.deepEqual(xi.T, xi.V, yi.V, seen)
	case *types.Pointer:
		xp, yp := x.(*Value), y.(*Value)
		if xp == yp {
			return tb.True()
		}
		if xp == nil || yp == nil {
			return tb.False()
		}
		key := [2]*Value{xp, yp}
		if seen[key] {
			return tb.True()
		}
		seen[key] = true
		return m.deepEqual(u.Elem(), *xp, *yp, seen)
	case *types.Struct:
		xs, ok1 := x.(Struct)
		ys, ok2 := y.(Struct)
		if !ok1 || !ok2 {
			return m.equals(t, x, y) // modelled struct types (time.Time, ...)
		}
		r := tb.True()
		for i := 0; i < u.NumFields(); i++ {
			r = tb.And(r, m.deepEqual(u.Field(i).Type(), xs[i], ys[i], seen))
			if r.IsFalse() {
				return r
			}
		}
		return r
	case *types.Array:
		xa, ya := x.(Array), y.(Array)
		r := tb.True()
		for i := range xa {
			r = tb.And(r, m.deepEqual(u.Elem(), xa[i], ya[i], seen))
		}
		return r
	case *types.Slice:
		xs, _ := x.([]Value)
		ys, _ := y.([]Value)
		if (xs == nil) != (ys == nil) || len(xs) != len(ys) {
			return tb.False()
		}
		r := tb.True()
		for i := range xs {
			r = tb.And(r, m.deepEqual(u.Elem(), xs[i], ys[i], seen))
			if r.IsFalse() {
				return r
			}
		}
		return r
	case *types.Map:
		xm, _ := x.(*Map)
		ym, _ := y.(*Map)
		if xm == ym {
			return tb.True()
		}
		if xm == nil || ym == nil || len(xm.ents) != len(ym.ents) {
			return tb.False()
		}
		if xm.symKeys > 0 || ym.symKeys > 0 {
			m.unsupported("reflect.DeepEqual on maps with symbolic keys")
		}
		r := tb.True()
		for _, e := range xm.ents {
			o := m.mapFind(ym, e.k)
			if o == nil {
				return tb.False()
			}
			r = tb.And(r, m.deepEqual(u.Elem(), e.v, o.v, seen))
		}
		return r
	case *types.Signature:
		return tb.BoolC(isNilFunc(x) && isNilFunc(y))
	case *types.Chan:
		return m.equals(t, x, y)
	}
	return m.equals(t, x, y)
}

func init() {
	reg("reflect.DeepEqual", func(m *Machine, fr *frame, a []Value) Value {
		x, y := a[0].(Iface), a[1].(Iface)
		if x.T == nil || y.T == nil {
			return m.tb.BoolC(x.T == nil && y.T == nil)
		}
		if !types.Identical(x.T, y.T) {
			return m.tb.False()
		}
		return m.deepEqual(x.T, x.V, y.V, map[[2]*Value]bool{})
	})
}
