package sym

import "time"

// (time.Time).Format on a CONCRETE instant and a concrete layout: formatted for real.
// The time model carries no location (UTC/Local/In are identities), so the instant is
// rendered in UTC: exact whenever the program formats t.UTC() (influxql's
// TimeLiteral.String does) or the process runs in UTC. Symbolic instants keep the
// placeholder of the base model. Needed by C16 (batch query text with concrete bounds
// is re-parsed by the harness).
func init() {
	base := intrinsics["(time.Time).Format"]
	reg("(time.Time).Format", func(m *Machine, fr *frame, a []Value) Value {
		t := a[0].(TimeV)
		layout, ok := a[1].(string)
		if ok && t.Zero {
			return time.Time{}.Format(layout)
		}
		if ok && t.NS != nil && t.NS.IsConst() {
			return time.Unix(0, t.NS.Int()).UTC().Format(layout)
		}
		if base == nil {
			return "‹time›"
		}
		return base(m, fr, a)
	})
}
