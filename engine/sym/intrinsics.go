package sym

import (
	"fmt"
	"go/types"
	"math"
	"math/big"
	"strings"

	"golang.org/x/tools/go/ssa"

	"gosym/term"
)

type intrinsic func(m *Machine, fr *frame, args []Value) Value

var intrinsics = map[string]intrinsic{}

const vrtT = "(*github.com/influxdata/kapacitor/zz_vrt.T)."

// Valid range of the abstract time model: [1678-01-01, 2262-01-01) approx.
var (
	minNS int64 = -9214560000000000000
	maxNS int64 = 9214646400000000000
)

func reg(name string, f intrinsic) { intrinsics[name] = f }

func (m *Machine) argStr(v Value) string {
	s, ok := v.(string)
	if !ok {
		panic(pathAbort{"engine", "vrt: name/label argument must be a constant string"})
	}
	return s
}

func (m *Machine) argInt(v Value, what string) int {
	t := v.(*term.T)
	if !t.IsConst() {
		// resolve by enumeration within a small range
		i, ok := m.concIndex(t, true, m.cfg.MaxFanout, what)
		if !ok {
			panic(pathAbort{"unwind", what + ": symbolic size outside fan-out bound"})
		}
		return i
	}
	return int(t.Int())
}

func init() {
	// ---------- vrt ----------
	mkInt := func(name string, w int, kind string) {
		reg(vrtT+name, func(m *Machine, fr *frame, a []Value) Value {
			return m.newInput(m.argStr(a[1]), kind, term.BVSort(w))
		})
	}
	mkInt("Int64", 64, "int")
	mkInt("Int", 64, "int")
	mkInt("Int32", 32, "int")
	mkInt("Int16", 16, "int")
	mkInt("Int8", 8, "int")
	mkInt("Uint64", 64, "uint")
	mkInt("Uint32", 32, "uint")
	mkInt("Uint16", 16, "uint")
	mkInt("Uint8", 8, "uint")
	mkInt("Byte", 8, "uint")
	reg(vrtT+"Bool", func(m *Machine, fr *frame, a []Value) Value {
		return m.newInput(m.argStr(a[1]), "bool", term.Bool)
	})
	reg(vrtT+"Float64", func(m *Machine, fr *frame, a []Value) Value {
		return m.tb.FFromBits(m.newInput(m.argStr(a[1]), "float", term.BV64))
	})
	reg(vrtT+"IntRange", func(m *Machine, fr *frame, a []Value) Value {
		return m.rangedInput(m.argStr(a[1]), "int", a[2].(*term.T), a[3].(*term.T))
	})
	reg(vrtT+"Choose", func(m *Machine, fr *frame, a []Value) Value {
		n := m.argInt(a[2], "Choose")
		if n <= 0 {
			panic(pathAbort{"engine", "Choose(n<=0)"})
		}
		k := m.decideFree("choose", n)
		m.ps.inputs = append(m.ps.inputs, Input{Name: m.argStr(a[1]), Kind: "choose", Val: fmt.Sprint(k)})
		return m.tb.BV(64, uint64(k))
	})
	bytesIn := func(m *Machine, a []Value) []*term.T {
		n := m.argInt(a[2], "Bytes")
		name := m.argStr(a[1])
		idx := len(m.ps.inputs)
		bs := make([]*term.T, n)
		for i := range bs {
			bs[i] = m.tb.Var(fmt.Sprintf("%s#%d[%d]", name, idx, i), term.BV8)
		}
		m.ps.inputs = append(m.ps.inputs, Input{Name: name, Kind: "bytes", terms: bs})
		return bs
	}
	reg(vrtT+"String", func(m *Machine, fr *frame, a []Value) Value { return mkStr(bytesIn(m, a)) })
	reg(vrtT+"Bytes", func(m *Machine, fr *frame, a []Value) Value {
		bs := bytesIn(m, a)
		out := make([]Value, len(bs))
		for i, b := range bs {
			out[i] = b
		}
		return out
	})
	reg(vrtT+"Time", func(m *Machine, fr *frame, a []Value) Value {
		lo, hi := a[2].(*term.T), a[3].(*term.T)
		x := m.rangedInput(m.argStr(a[1]), "time", lo, hi)
		m.assume(m.tb.And(m.tb.SLe(m.tb.BV(64, uint64(minNS)), x), m.tb.SLe(x, m.tb.BV(64, uint64(maxNS)))))
		return TimeV{NS: x}
	})
	reg(vrtT+"Bound", func(m *Machine, fr *frame, a []Value) Value {
		if v, ok := m.cfg.Bounds[m.argStr(a[1])]; ok {
			return m.tb.BV(64, uint64(v))
		}
		return a[2]
	})
	reg(vrtT+"Assume", func(m *Machine, fr *frame, a []Value) Value {
		m.assume(a[1].(*term.T))
		return nil
	})
	reg(vrtT+"Assert", func(m *Machine, fr *frame, a []Value) Value {
		m.assert(a[1].(*term.T), m.argStr(a[2]), nil, "")
		return nil
	})
	reg(vrtT+"AssertKnown", func(m *Machine, fr *frame, a []Value) Value {
		m.assert(a[1].(*term.T), m.argStr(a[2]), a[3].(*term.T), m.argStr(a[4]))
		return nil
	})
	reg(vrtT+"Fail", func(m *Machine, fr *frame, a []Value) Value {
		m.assert(m.tb.False(), m.argStr(a[1]), nil, "")
		return nil
	})
	reg(vrtT+"Reach", func(m *Machine, fr *frame, a []Value) Value {
		m.ensureModel()
		m.ps.reached = append(m.ps.reached, m.argStr(a[1]))
		return nil
	})
	reg(vrtT+"Observe", func(m *Machine, fr *frame, a []Value) Value {
		o := Obs{Label: m.argStr(a[1])}
		for _, v := range a[2].([]Value) {
			it := v.(Iface)
			o.vals = append(o.vals, it.V)
			o.types = append(o.types, it.T)
		}
		m.ps.obs = append(m.ps.obs, o)
		return nil
	})
	reg(vrtT+"Goroutines", func(m *Machine, fr *frame, a []Value) Value {
		return m.tb.BV(64, uint64(m.quiesce()))
	})

	// ---------- time ----------
	reg("time.Now", func(m *Machine, fr *frame, a []Value) Value { return m.timeNow() })
	reg("time.Since", func(m *Machine, fr *frame, a []Value) Value { return m.timeSub(m.timeNow(), a[0].(TimeV)) })
	reg("time.Until", func(m *Machine, fr *frame, a []Value) Value { return m.timeSub(a[0].(TimeV), m.timeNow()) })
	reg("time.Unix", func(m *Machine, fr *frame, a []Value) Value {
		sec, nsec := a[0].(*term.T), a[1].(*term.T)
		return TimeV{NS: m.tb.Add(m.tb.Mul(sec, m.tb.BV(64, 1000000000)), nsec), Loc: 1}
	})
	reg("time.UnixMilli", func(m *Machine, fr *frame, a []Value) Value {
		return TimeV{NS: m.tb.Mul(a[0].(*term.T), m.tb.BV(64, 1000000)), Loc: 1}
	})
	reg("time.Sleep", func(m *Machine, fr *frame, a []Value) Value { m.yield(); return nil })
	reg("time.After", func(m *Machine, fr *frame, a []Value) Value {
		return &Chan{cap: 1, elem: fr.fn.Signature.Results().At(0).Type().Underlying().(*types.Chan).Elem()}
	})
	reg("time.Tick", intrinsics["time.After"])
	setLoc := func(loc uint8) intrinsic {
		return func(m *Machine, fr *frame, a []Value) Value {
			t := a[0].(TimeV)
			t.Loc = loc
			return t
		}
	}
	reg("(time.Time).UTC", setLoc(0))
	reg("(time.Time).Local", setLoc(1))
	reg("(time.Time).In", func(m *Machine, fr *frame, a []Value) Value {
		t := a[0].(TimeV)
		t.Loc = 2
		if p, ok := a[1].(*Value); ok {
			if p == m.timeLocGlobal("UTC") {
				t.Loc = 0
			} else if p == m.timeLocGlobal("Local") {
				t.Loc = 1
			}
		}
		return t
	})
	reg("(time.Time).Location", func(m *Machine, fr *frame, a []Value) Value { return (*Value)(nil) })
	reg("(time.Time).Add", func(m *Machine, fr *frame, a []Value) Value {
		t := a[0].(TimeV)
		if t.Pre {
			m.unsupported("arithmetic on (zero Time + duration)")
		}
		if t.Zero {
			d := a[1].(*term.T)
			if d.IsConst() && d.C == 0 {
				return t
			}
			if d.IsConst() && d.Int() > 0 {
				return TimeV{Pre: true, Loc: t.Loc}
			}
			m.unsupported("Add of a symbolic or negative duration on the zero time.Time")
		}
		return TimeV{NS: m.tb.Add(t.NS, a[1].(*term.T)), Loc: t.Loc}
	})
	reg("(time.Time).Sub", func(m *Machine, fr *frame, a []Value) Value { return m.timeSub(a[0].(TimeV), a[1].(TimeV)) })
	reg("(time.Time).Before", func(m *Machine, fr *frame, a []Value) Value { return m.timeLess(a[0].(TimeV), a[1].(TimeV)) })
	reg("(time.Time).After", func(m *Machine, fr *frame, a []Value) Value { return m.timeLess(a[1].(TimeV), a[0].(TimeV)) })
	reg("(time.Time).Equal", func(m *Machine, fr *frame, a []Value) Value {
		return m.timeInstantEq(a[0].(TimeV), a[1].(TimeV))
	})
	reg("(time.Time).Compare", func(m *Machine, fr *frame, a []Value) Value {
		x, y := a[0].(TimeV), a[1].(TimeV)
		lt, gt := m.timeLess(x, y), m.timeLess(y, x)
		return m.tb.Ite(lt, m.tb.BV(64, ^uint64(0)), m.tb.Ite(gt, m.tb.BV(64, 1), m.tb.BV(64, 0)))
	})
	reg("(time.Time).IsZero", func(m *Machine, fr *frame, a []Value) Value { return m.tb.BoolC(a[0].(TimeV).Zero) })
	reg("(time.Time).UnixNano", func(m *Machine, fr *frame, a []Value) Value {
		t := a[0].(TimeV)
		m.noPre(t)
		if t.Zero {
			return m.tb.BV(64, uint64(zeroUnixNano))
		}
		return t.NS
	})
	reg("(time.Time).Unix", func(m *Machine, fr *frame, a []Value) Value {
		t := a[0].(TimeV)
		m.noPre(t)
		if t.Zero {
			return m.tb.BV(64, negU(62135596800))
		}
		return m.floorDiv(t.NS, 1000000000)
	})
	reg("(time.Time).UnixMilli", func(m *Machine, fr *frame, a []Value) Value {
		t := a[0].(TimeV)
		m.noPre(t)
		if t.Zero {
			return m.tb.BV(64, negU(62135596800000))
		}
		return m.floorDiv(t.NS, 1000000)
	})
	reg("(time.Time).Nanosecond", func(m *Machine, fr *frame, a []Value) Value {
		t := a[0].(TimeV)
		m.noPre(t)
		if t.Zero {
			return m.tb.BV(64, 0)
		}
		q := m.floorDiv(t.NS, 1000000000)
		return m.tb.Sub(t.NS, m.tb.Mul(q, m.tb.BV(64, 1000000000)))
	})
	reg("(time.Time).Truncate", func(m *Machine, fr *frame, a []Value) Value { return m.timeTrunc(a[0].(TimeV), a[1].(*term.T), false) })
	reg("(time.Time).Round", func(m *Machine, fr *frame, a []Value) Value { return m.timeTrunc(a[0].(TimeV), a[1].(*term.T), true) })
	for _, n := range []string{"String", "Format", "GoString"} {
		reg("(time.Time)."+n, func(m *Machine, fr *frame, a []Value) Value { return "‹time›" })
	}
	reg("(time.Time).AppendFormat", func(m *Machine, fr *frame, a []Value) Value { return a[1] })
	reg("(time.Time).MarshalJSON", func(m *Machine, fr *frame, a []Value) Value {
		m.unsupported("time.Time.MarshalJSON")
		return nil
	})
	reg("time.NewTimer", func(m *Machine, fr *frame, a []Value) Value {
		tt := deref(fr.fn.Signature.Results().At(0).Type())
		var cell Value = m.zero(tt)
		s := cell.(Struct)
		s[0] = &Chan{cap: 1, elem: tt.Underlying().(*types.Struct).Field(0).Type().Underlying().(*types.Chan).Elem()}
		return &cell
	})
	reg("time.NewTicker", intrinsics["time.NewTimer"])
	reg("time.AfterFunc", func(m *Machine, fr *frame, a []Value) Value {
		tt := deref(fr.fn.Signature.Results().At(0).Type())
		var cell Value = m.zero(tt)
		return &cell
	})
	retTrue := func(m *Machine, fr *frame, a []Value) Value { return m.tb.True() }
	nop := func(m *Machine, fr *frame, a []Value) Value { return nil }
	reg("(*time.Timer).Stop", retTrue)
	reg("(*time.Timer).Reset", retTrue)
	reg("(*time.Ticker).Stop", nop)
	reg("(*time.Ticker).Reset", nop)

	// ---------- sync ----------
	reg("(*sync.Mutex).Lock", func(m *Machine, fr *frame, a []Value) Value {
		m.syncPoint()
		s := m.mutexOf(a[0].(*Value))
		if s.locked {
			m.block(func() bool { return !s.locked }, "Mutex.Lock")
		}
		s.locked = true
		m.hbAcquire(s)
		return nil
	})
	reg("(*sync.Mutex).TryLock", func(m *Machine, fr *frame, a []Value) Value {
		s := m.mutexOf(a[0].(*Value))
		if s.locked {
			return m.tb.False()
		}
		s.locked = true
		m.hbAcquire(s)
		return m.tb.True()
	})
	reg("(*sync.Mutex).Unlock", func(m *Machine, fr *frame, a []Value) Value {
		s := m.mutexOf(a[0].(*Value))
		if !s.locked {
			panic(targetPanic{v: Iface{types.Typ[types.String], "fatal error: sync: unlock of unlocked mutex"}, stack: m.stackString()})
		}
		m.hbRelease(s)
		s.locked = false
		return nil
	})
	reg("(*sync.RWMutex).Lock", func(m *Machine, fr *frame, a []Value) Value {
		m.syncPoint()
		s := m.mutexOf(a[0].(*Value))
		if s.locked || s.readers > 0 {
			m.block(func() bool { return !s.locked && s.readers == 0 }, "RWMutex.Lock")
		}
		s.locked = true
		m.hbAcquire(s)
		return nil
	})
	reg("(*sync.RWMutex).Unlock", func(m *Machine, fr *frame, a []Value) Value {
		s := m.mutexOf(a[0].(*Value))
		if !s.locked {
			panic(targetPanic{v: Iface{types.Typ[types.String], "fatal error: sync: Unlock of unlocked RWMutex"}, stack: m.stackString()})
		}
		m.hbRelease(s)
		s.locked = false
		return nil
	})
	reg("(*sync.RWMutex).RLock", func(m *Machine, fr *frame, a []Value) Value {
		m.syncPoint()
		s := m.mutexOf(a[0].(*Value))
		if s.locked {
			m.block(func() bool { return !s.locked }, "RWMutex.RLock")
		}
		s.readers++
		m.hbAcquire(s)
		return nil
	})
	reg("(*sync.RWMutex).RUnlock", func(m *Machine, fr *frame, a []Value) Value {
		s := m.mutexOf(a[0].(*Value))
		if s.readers <= 0 {
			panic(targetPanic{v: Iface{types.Typ[types.String], "fatal error: sync: RUnlock of unlocked RWMutex"}, stack: m.stackString()})
		}
		m.hbRelease(s)
		s.readers--
		return nil
	})
	wgOf := func(m *Machine, p *Value) *wgState {
		s := m.wgs[p]
		if s == nil {
			s = &wgState{}
			m.wgs[p] = s
		}
		return s
	}
	reg("(*sync.WaitGroup).Add", func(m *Machine, fr *frame, a []Value) Value {
		s := wgOf(m, a[0].(*Value))
		d := a[1].(*term.T)
		if !d.IsConst() {
			m.unsupported("WaitGroup.Add with symbolic delta")
		}
		m.hbRelease(s)
		s.n += d.Int()
		if s.n < 0 {
			panic(targetPanic{v: Iface{types.Typ[types.String], "sync: negative WaitGroup counter"}, stack: m.stackString()})
		}
		return nil
	})
	reg("(*sync.WaitGroup).Done", func(m *Machine, fr *frame, a []Value) Value {
		s := wgOf(m, a[0].(*Value))
		m.hbRelease(s)
		s.n--
		if s.n < 0 {
			panic(targetPanic{v: Iface{types.Typ[types.String], "sync: negative WaitGroup counter"}, stack: m.stackString()})
		}
		return nil
	})
	reg("(*sync.WaitGroup).Wait", func(m *Machine, fr *frame, a []Value) Value {
		s := wgOf(m, a[0].(*Value))
		if s.n > 0 {
			m.block(func() bool { return s.n == 0 }, "WaitGroup.Wait")
		}
		m.hbAcquire(s)
		return nil
	})
	reg("(*sync.Once).Do", func(m *Machine, fr *frame, a []Value) Value {
		p := a[0].(*Value)
		s := m.onces[p]
		if s == nil {
			s = &onceState{}
			m.onces[p] = s
		}
		if !s.done {
			s.done = true
			m.call(fr, 0, a[1], nil)
			m.hbRelease(s)
		}
		m.hbAcquire(s)
		return nil
	})
	reg("(*sync.Pool).Get", func(m *Machine, fr *frame, a []Value) Value {
		p := a[0].(*Value)
		m.hbAcquire(p)
		if st := m.pools[p]; st != nil && len(*st) > 0 {
			v := (*st)[len(*st)-1]
			*st = (*st)[:len(*st)-1]
			return v
		}
		// New field: find by name
		s := (*p).(Struct)
		st := deref(fr.fn.Signature.Recv().Type()).Underlying().(*types.Struct)
		for i := 0; i < st.NumFields(); i++ {
			if st.Field(i).Name() == "New" {
				if f := s[i]; !isNilFunc(f) {
					return m.call(fr, 0, f, nil)
				}
			}
		}
		return Iface{}
	})
	reg("(*sync.Pool).Put", func(m *Machine, fr *frame, a []Value) Value {
		p := a[0].(*Value)
		st := m.pools[p]
		if st == nil {
			st = &[]Value{}
			m.pools[p] = st
		}
		*st = append(*st, a[1])
		m.hbRelease(p)
		return nil
	})

	// ---------- sync/atomic (functions; the typed wrappers are interpreted) ----------
	for _, ty := range []string{"Int32", "Int64", "Uint32", "Uint64", "Uintptr", "Pointer"} {
		ty := ty
		reg("sync/atomic.Load"+ty, func(m *Machine, fr *frame, a []Value) Value { return m.load(a[0].(*Value)) })
		reg("sync/atomic.Store"+ty, func(m *Machine, fr *frame, a []Value) Value { m.store(a[0].(*Value), a[1]); return nil })
		reg("sync/atomic.Swap"+ty, func(m *Machine, fr *frame, a []Value) Value {
			old := m.load(a[0].(*Value))
			m.store(a[0].(*Value), a[1])
			return old
		})
		reg("sync/atomic.CompareAndSwap"+ty, func(m *Machine, fr *frame, a []Value) Value {
			p := a[0].(*Value)
			cur := m.load(p)
			var eq *term.T
			if ct, ok := cur.(*term.T); ok {
				eq = m.tb.Eq(ct, a[1].(*term.T))
			} else {
				eq = m.tb.BoolC(cur == a[1])
			}
			if m.condBool(eq, "cas") {
				m.store(p, a[2])
				return m.tb.True()
			}
			return m.tb.False()
		})
		if ty != "Pointer" {
			reg("sync/atomic.Add"+ty, func(m *Machine, fr *frame, a []Value) Value {
				p := a[0].(*Value)
				n := m.tb.Add(m.load(p).(*term.T), a[1].(*term.T))
				m.store(p, n)
				return n
			})
			reg("sync/atomic.And"+ty, func(m *Machine, fr *frame, a []Value) Value {
				p := a[0].(*Value)
				old := m.load(p).(*term.T)
				m.store(p, m.tb.BAnd(old, a[1].(*term.T)))
				return old
			})
			reg("sync/atomic.Or"+ty, func(m *Machine, fr *frame, a []Value) Value {
				p := a[0].(*Value)
				old := m.load(p).(*term.T)
				m.store(p, m.tb.BOr(old, a[1].(*term.T)))
				return old
			})
		}
	}
	reg("(*sync/atomic.Value).Load", func(m *Machine, fr *frame, a []Value) Value {
		return (*a[0].(*Value)).(Struct)[0]
	})
	reg("(*sync/atomic.Value).Store", func(m *Machine, fr *frame, a []Value) Value {
		s := (*a[0].(*Value)).(Struct)
		m.set(&s[0], a[1])
		return nil
	})
	// every atomic operation synchronises on its word (happens-before tracking)
	for name, f := range intrinsics {
		if strings.HasPrefix(name, "sync/atomic.") || strings.HasPrefix(name, "(*sync/atomic.Value).") {
			f := f
			intrinsics[name] = func(m *Machine, fr *frame, a []Value) Value {
				if p, ok := a[0].(*Value); ok {
					m.hbBoth(p)
				}
				return f(m, fr, a)
			}
		}
	}

	// ---------- runtime ----------
	reg("runtime.Gosched", func(m *Machine, fr *frame, a []Value) Value { m.yield(); return nil })
	reg("runtime.GC", nop)
	reg("runtime.KeepAlive", nop)
	reg("runtime.SetFinalizer", nop)
	reg("runtime.Callers", func(m *Machine, fr *frame, a []Value) Value { return m.tb.BV(64, 0) })
	reg("runtime.Stack", func(m *Machine, fr *frame, a []Value) Value { return m.tb.BV(64, 0) })
	reg("runtime.NumGoroutine", func(m *Machine, fr *frame, a []Value) Value {
		n := 0
		for _, g := range m.gors {
			if !g.done {
				n++
			}
		}
		return m.tb.BV(64, uint64(n))
	})
	reg("(runtime.errorString).Error", func(m *Machine, fr *frame, a []Value) Value { return a[0] })
	reg("(runtime.errorString).RuntimeError", nop)
	reg("runtime/debug.Stack", func(m *Machine, fr *frame, a []Value) Value { return []Value{} })

	// ---------- math ----------
	reg("math.Float64bits", func(m *Machine, fr *frame, a []Value) Value { return m.fpBits(a[0].(*term.T)) })
	reg("math.Float32bits", func(m *Machine, fr *frame, a []Value) Value { return m.fpBits(a[0].(*term.T)) })
	reg("math.Float64frombits", func(m *Machine, fr *frame, a []Value) Value { return m.tb.FFromBits(a[0].(*term.T)) })
	reg("math.Float32frombits", func(m *Machine, fr *frame, a []Value) Value { return m.tb.FFromBits(a[0].(*term.T)) })
	reg("math.Abs", func(m *Machine, fr *frame, a []Value) Value { return m.tb.FAbs(a[0].(*term.T)) })
	reg("math.Sqrt", func(m *Machine, fr *frame, a []Value) Value { return m.tb.FSqrt(a[0].(*term.T)) })
	reg("math.sqrt", intrinsics["math.Sqrt"])
	reg("math.archSqrt", intrinsics["math.Sqrt"])
	reg("math.Floor", func(m *Machine, fr *frame, a []Value) Value { return m.tb.FRound(a[0].(*term.T), 1) })
	reg("math.Ceil", func(m *Machine, fr *frame, a []Value) Value { return m.tb.FRound(a[0].(*term.T), 2) })
	reg("math.Trunc", func(m *Machine, fr *frame, a []Value) Value { return m.tb.FRound(a[0].(*term.T), 0) })
	reg("math.archFloor", intrinsics["math.Floor"])
	reg("math.archCeil", intrinsics["math.Ceil"])
	reg("math.archTrunc", intrinsics["math.Trunc"])
	reg("math.IsNaN", func(m *Machine, fr *frame, a []Value) Value { return m.tb.FIsNaN(a[0].(*term.T)) })
	reg("math.IsInf", func(m *Machine, fr *frame, a []Value) Value {
		x, s := a[0].(*term.T), a[1].(*term.T)
		tb := m.tb
		pos := tb.And(tb.FIsInf(x), tb.FLt(tb.F64(0), x))
		neg := tb.And(tb.FIsInf(x), tb.FLt(x, tb.F64(0)))
		sz := tb.BV(64, 0)
		return tb.Or(tb.And(tb.SLe(sz, s), pos), tb.And(tb.SLe(s, sz), neg))
	})
	reg("math.Inf", func(m *Machine, fr *frame, a []Value) Value {
		s := a[0].(*term.T)
		return m.tb.Ite(m.tb.SLe(m.tb.BV(64, 0), s), m.tb.F64(math.Inf(1)), m.tb.F64(math.Inf(-1)))
	})
	reg("math.NaN", func(m *Machine, fr *frame, a []Value) Value { return m.tb.F64(math.NaN()) })
	goMinMax := func(isMax bool) intrinsic {
		return func(m *Machine, fr *frame, a []Value) Value {
			tb := m.tb
			x, y := a[0].(*term.T), a[1].(*term.T)
			inf := math.Inf(-1)
			if isMax {
				inf = math.Inf(1)
			}
			isInfS := func(v *term.T) *term.T { return tb.Eq(v, tb.F64(inf)) }
			nan := tb.Or(tb.FIsNaN(x), tb.FIsNaN(y))
			bothZero := tb.And(tb.FEq(x, tb.F64(0)), tb.FEq(y, tb.F64(0)))
			xNegZero := tb.Eq(x, tb.F64(math.Copysign(0, -1)))
			var pick, zeroPick *term.T
			if isMax {
				pick = tb.Ite(tb.FLt(y, x), x, y)
				zeroPick = tb.Ite(xNegZero, y, x)
			} else {
				pick = tb.Ite(tb.FLt(x, y), x, y)
				zeroPick = tb.Ite(xNegZero, x, y)
			}
			return tb.Ite(tb.Or(isInfS(x), isInfS(y)), tb.F64(inf),
				tb.Ite(nan, tb.F64(math.NaN()), tb.Ite(bothZero, zeroPick, pick)))
		}
	}
	reg("math.Max", goMinMax(true))
	reg("math.Min", goMinMax(false))
	reg("math.archMax", goMinMax(true))
	reg("math.archMin", goMinMax(false))
	for _, n := range []string{"Exp", "Log", "Pow", "Sin", "Cos", "Tan", "Log2", "Log10", "Exp2", "Mod", "archExp", "archLog", "archExp2", "archLog2", "archLog10", "archMod", "archPow", "archSin", "archCos", "archTan", "archHypot", "archModf", "archFrexp", "archLdexp"} {
		n := n
		reg("math."+n, func(m *Machine, fr *frame, a []Value) Value {
			// concrete arguments: compute natively; symbolic: not encodable
			fs := make([]float64, len(a))
			for i, v := range a {
				t, ok := v.(*term.T)
				if !ok || !t.IsConst() || t.S.K != term.KFP {
					m.unsupported("math." + n + " on a symbolic argument")
				}
				fs[i] = t.Float()
			}
			var r float64
			switch strings.TrimPrefix(n, "arch") {
			case "Exp":
				r = math.Exp(fs[0])
			case "Log":
				r = math.Log(fs[0])
			case "Pow":
				r = math.Pow(fs[0], fs[1])
			case "Sin":
				r = math.Sin(fs[0])
			case "Cos":
				r = math.Cos(fs[0])
			case "Tan":
				r = math.Tan(fs[0])
			case "Log2":
				r = math.Log2(fs[0])
			case "Log10":
				r = math.Log10(fs[0])
			case "Exp2":
				r = math.Exp2(fs[0])
			case "Mod":
				r = math.Mod(fs[0], fs[1])
			case "Hypot":
				r = math.Hypot(fs[0], fs[1])
			default:
				m.unsupported("math." + n)
			}
			return m.tb.F64(r)
		})
	}

	// ---------- strings / bytes kernels implemented in assembly ----------
	reg("internal/bytealg.IndexByteString", func(m *Machine, fr *frame, a []Value) Value {
		return m.indexByte(m.sbytes(a[0]), a[1].(*term.T))
	})
	reg("internal/bytealg.IndexByte", func(m *Machine, fr *frame, a []Value) Value {
		return m.indexByte(sliceBytes(a[0].([]Value)), a[1].(*term.T))
	})
	reg("internal/bytealg.LastIndexByteString", func(m *Machine, fr *frame, a []Value) Value {
		return m.lastIndexByte(m.sbytes(a[0]), a[1].(*term.T))
	})
	reg("internal/bytealg.LastIndexByte", func(m *Machine, fr *frame, a []Value) Value {
		return m.lastIndexByte(sliceBytes(a[0].([]Value)), a[1].(*term.T))
	})
	reg("strings.LastIndexByte", intrinsics["internal/bytealg.LastIndexByteString"])
	reg("bytes.LastIndexByte", intrinsics["internal/bytealg.LastIndexByte"])
	reg("strings.IndexByte", intrinsics["internal/bytealg.IndexByteString"])
	reg("bytes.IndexByte", intrinsics["internal/bytealg.IndexByte"])
	reg("internal/bytealg.CountString", func(m *Machine, fr *frame, a []Value) Value {
		return m.countByte(m.sbytes(a[0]), a[1].(*term.T))
	})
	reg("internal/bytealg.Count", func(m *Machine, fr *frame, a []Value) Value {
		return m.countByte(sliceBytes(a[0].([]Value)), a[1].(*term.T))
	})
	reg("strings.Index", func(m *Machine, fr *frame, a []Value) Value {
		return m.indexSub(m.sbytes(a[0]), m.sbytes(a[1]))
	})
	reg("bytes.Index", func(m *Machine, fr *frame, a []Value) Value {
		return m.indexSub(sliceBytes(a[0].([]Value)), sliceBytes(a[1].([]Value)))
	})
	indexRune := func(bs func(m *Machine, v Value) []*term.T) intrinsic {
		return func(m *Machine, fr *frame, a []Value) Value {
			s := mkStr(bs(m, a[0]))
			r := a[1].(*term.T)
			for pos := 0; pos < slen(s); {
				rr, size := m.decodeRune(s, pos)
				if m.condBool(m.tb.Eq(rr, r), "indexrune") {
					return m.tb.BV(64, uint64(pos))
				}
				pos += size
			}
			return m.tb.BV(64, ^uint64(0))
		}
	}
	reg("strings.IndexRune", indexRune(func(m *Machine, v Value) []*term.T { return m.sbytes(v) }))
	reg("bytes.IndexRune", indexRune(func(m *Machine, v Value) []*term.T { return sliceBytes(v.([]Value)) }))
	reg("internal/bytealg.IndexString", intrinsics["strings.Index"])
	reg("internal/bytealg.Index", intrinsics["bytes.Index"])
	reg("bytes.Equal", func(m *Machine, fr *frame, a []Value) Value {
		return m.seq(mkStr(sliceBytes(a[0].([]Value))), mkStr(sliceBytes(a[1].([]Value))))
	})
	reg("internal/bytealg.Equal", intrinsics["bytes.Equal"])
	reg("bytes.Compare", func(m *Machine, fr *frame, a []Value) Value {
		x, y := mkStr(sliceBytes(a[0].([]Value))), mkStr(sliceBytes(a[1].([]Value)))
		return m.tb.Ite(m.slt(x, y), m.tb.BV(64, ^uint64(0)), m.tb.Ite(m.slt(y, x), m.tb.BV(64, 1), m.tb.BV(64, 0)))
	})
	reg("internal/bytealg.Compare", intrinsics["bytes.Compare"])
	reg("strings.Compare", func(m *Machine, fr *frame, a []Value) Value {
		return m.tb.Ite(m.slt(a[0], a[1]), m.tb.BV(64, ^uint64(0)), m.tb.Ite(m.slt(a[1], a[0]), m.tb.BV(64, 1), m.tb.BV(64, 0)))
	})
	reg("internal/bytealg.CompareString", intrinsics["strings.Compare"])
	reg("internal/stringslite.Index", intrinsics["strings.Index"])
	reg("internal/stringslite.IndexByte", intrinsics["internal/bytealg.IndexByteString"])
	reg("(*strings.Builder).String", func(m *Machine, fr *frame, a []Value) Value {
		s := (*a[0].(*Value)).(Struct)
		return mkStr(sliceBytes(s[len(s)-1].([]Value)))
	})
	reg("(*strings.Builder).copyCheck", nop)
	reg("internal/bytealg.MakeNoZero", func(m *Machine, fr *frame, a []Value) Value {
		n := m.argInt(a[0], "MakeNoZero")
		out := make([]Value, n)
		for i := range out {
			out[i] = m.tb.BV(8, 0)
		}
		return out
	})
	reg("strings.Clone", func(m *Machine, fr *frame, a []Value) Value { return a[0] })
	reg("internal/stringslite.Clone", func(m *Machine, fr *frame, a []Value) Value { return a[0] })
	reg("internal/abi.NoEscape", func(m *Machine, fr *frame, a []Value) Value { return a[0] })
	reg("internal/abi.Escape", func(m *Machine, fr *frame, a []Value) Value { return a[0] })

	// ---------- fmt / errors ----------
	reg("fmt.Sprintf", func(m *Machine, fr *frame, a []Value) Value { return m.sprintf(fr, a[0], a[1].([]Value)) })
	reg("fmt.Sprint", func(m *Machine, fr *frame, a []Value) Value { return m.sprint(fr, a[0].([]Value), false) })
	reg("fmt.Sprintln", func(m *Machine, fr *frame, a []Value) Value { return m.sprint(fr, a[0].([]Value), true) })
	reg("fmt.Errorf", func(m *Machine, fr *frame, a []Value) Value {
		msg := m.sprintf(fr, a[0], a[1].([]Value))
		var wrapped Value
		if f, ok := a[0].(string); ok && strings.Contains(f, "%w") {
			for _, x := range a[1].([]Value) {
				if it, ok := x.(Iface); ok && it.T != nil && types.Implements(it.T, errorIface) {
					wrapped = it
				}
			}
		}
		return m.newError(msg, wrapped)
	})
	for _, n := range []string{"fmt.Printf", "fmt.Println", "fmt.Print", "fmt.Fprintf", "fmt.Fprintln", "fmt.Fprint", "log.Printf", "log.Println", "log.Print"} {
		reg(n, func(m *Machine, fr *frame, a []Value) Value {
			if rs := fr.fn.Signature.Results(); rs.Len() == 2 {
				return Tuple{m.tb.BV(64, 0), Iface{}}
			}
			return nil
		})
	}

	// ---------- unicode beyond Latin-1: uninterpreted is not needed; tables are interpreted ----------

	// ---------- os ----------
	reg("os.Getenv", func(m *Machine, fr *frame, a []Value) Value { return "" })
	reg("os.Hostname", func(m *Machine, fr *frame, a []Value) Value { return Tuple{"localhost", Iface{}} })
}

var errorIface = types.Universe.Lookup("error").Type().Underlying().(*types.Interface)

var zeroUnixNano int64 = -6795364578871345152

func isNilFunc(v Value) bool {
	switch f := v.(type) {
	case nil:
		return true
	case *ssa.Function:
		return f == nil
	case *Closure:
		return f == nil
	}
	return false
}

func sliceBytes(s []Value) []*term.T {
	out := make([]*term.T, len(s))
	for i, v := range s {
		out[i] = v.(*term.T)
	}
	return out
}

// rangedInput creates a 64-bit input constrained to [lo,hi]. With constant bounds the
// value is encoded as lo + zero_extend(k fresh bits) so that its range is structural
// (the simplifier then narrows div/rem and folds comparisons).
func (m *Machine) rangedInput(name, kind string, lo, hi *term.T) *term.T {
	tb := m.tb
	if lo.IsConst() && hi.IsConst() && lo.Int() <= hi.Int() && uint64(hi.Int()-lo.Int()) < 1<<40 {
		spread := uint64(hi.Int() - lo.Int())
		if spread == 0 {
			m.ps.inputs = append(m.ps.inputs, Input{Name: name, Kind: kind, Bits: 64, terms: []*term.T{lo}})
			return lo
		}
		k := 1
		for (uint64(1)<<k)-1 < spread {
			k++
		}
		raw := tb.Var(fmt.Sprintf("%s#%d", name, len(m.ps.inputs)), term.BVSort(k))
		x := tb.Add(tb.ZExt(raw, 64), lo)
		m.ps.inputs = append(m.ps.inputs, Input{Name: name, Kind: kind, Bits: 64, terms: []*term.T{x}})
		if (uint64(1)<<k)-1 != spread {
			m.assume(tb.ULe(raw, tb.BV(k, spread)))
		}
		return x
	}
	x := m.newInput(name, kind, term.BV64)
	m.assume(tb.And(tb.SLe(lo, x), tb.SLe(x, hi)))
	return x
}

func (m *Machine) assume(c *term.T) {
	if c.IsFalse() {
		panic(pathAbort{"assume", ""})
	}
	m.addPC(c)
}

// fpBits returns the IEEE bit pattern of an FP term.
func (m *Machine) fpBits(x *term.T) *term.T {
	w := int(x.S.W)
	if x.IsConst() {
		return m.tb.BV(w, x.C)
	}
	if x.Op == term.OFFromBits {
		return x.X
	}
	m.timeVarSeq++
	v := m.tb.Var(fmt.Sprintf("fpbits!%d!%d", len(m.ps.trace), m.timeVarSeq), term.BVSort(w))
	m.addPC(m.tb.Eq(m.tb.FFromBits(v), x))
	return v
}

// ---------- time model ----------

func (m *Machine) timeNow() TimeV {
	if m.ps == nil || !m.logging {
		// inside a package initialiser: any fixed instant is a legal clock reading
		return TimeV{NS: m.tb.BV(64, 1700000000000000000)}
	}
	m.timeVarSeq++
	v := m.tb.Var(fmt.Sprintf("time.Now!%d", m.timeVarSeq), term.BV64)
	lo := m.tb.BV(64, 1600000000000000000)
	if m.lastNow != nil {
		lo = m.lastNow
	}
	m.addPC(m.tb.And(m.tb.SLe(lo, v), m.tb.SLe(v, m.tb.BV(64, 4000000000000000000))))
	m.lastNow = v
	return TimeV{NS: v, Loc: 1}
}

// timeInstantEq: the two values denote the same instant (Time.Equal).
func (m *Machine) timeInstantEq(x, y TimeV) *term.T {
	if x.Pre || y.Pre {
		if x.Pre && y.Pre {
			m.unsupported("comparison of two (zero Time + duration) values")
		}
		return m.tb.False()
	}
	if x.Zero || y.Zero {
		return m.tb.BoolC(x.Zero == y.Zero)
	}
	return m.tb.Eq(x.NS, y.NS)
}

// timeLocGlobal is the value of the package variable time.UTC / time.Local (a pointer).
func (m *Machine) timeLocGlobal(name string) *Value {
	pkg := m.prog.ImportedPackage("time")
	if pkg == nil {
		return nil
	}
	g, ok := pkg.Members[name].(*ssa.Global)
	if !ok {
		return nil
	}
	p, _ := (*m.globalAddr(g)).(*Value)
	return p
}

func (m *Machine) timeLess(x, y TimeV) *term.T {
	if x.Pre || y.Pre {
		if x.Pre && y.Pre {
			m.unsupported("comparison of two (zero Time + duration) values")
		}
		// zero < pre < every modelled instant
		if x.Pre {
			return m.tb.BoolC(!y.Zero)
		}
		return m.tb.BoolC(x.Zero)
	}
	if x.Zero || y.Zero {
		return m.tb.BoolC(x.Zero && !y.Zero)
	}
	return m.tb.SLt(x.NS, y.NS)
}

// noPre: t must be a modelled instant or the zero Time.
func (m *Machine) noPre(t TimeV) {
	if t.Pre {
		m.unsupported("value of (zero Time + duration) needed")
	}
}

func (m *Machine) timeSub(x, y TimeV) *term.T {
	tb := m.tb
	m.noPre(x)
	m.noPre(y)
	maxD, minD := tb.BV(64, uint64(math.MaxInt64)), tb.BV(64, uint64(1)<<63)
	switch {
	case x.Zero && y.Zero:
		return tb.BV(64, 0)
	case x.Zero:
		return minD
	case y.Zero:
		return maxD
	}
	d := tb.Sub(x.NS, y.NS)
	if d.IsConst() && x.NS.IsConst() {
		a, b := x.NS.Int(), y.NS.Int()
		if (a >= b) != (d.Int() >= 0) {
			if a < b {
				return minD
			}
			return maxD
		}
		return d
	}
	lt := tb.SLt(x.NS, y.NS)
	neg := tb.SLt(d, tb.BV(64, 0))
	// overflow iff sign of the difference disagrees with the order
	ovf := tb.Not(tb.Eq(lt, neg))
	ovf = tb.And(ovf, tb.Not(tb.Eq(d, tb.BV(64, 0))))
	return tb.Ite(ovf, tb.Ite(lt, minD, maxD), d)
}

func (m *Machine) floorDiv(x *term.T, k int64) *term.T {
	tb := m.tb
	kk := tb.BV(64, uint64(k))
	q, r := tb.SDiv(x, kk), tb.SRem(x, kk)
	return tb.Ite(tb.SLt(r, tb.BV(64, 0)), tb.Sub(q, tb.BV(64, 1)), q)
}

// timeTrunc models Time.Truncate / Time.Round: both work on the absolute time since
// year 1, i.e. on ns + K with K = 62135596800e9 (which does not fit 64 bits), so
//
//	r = (floormod(ns, d) + K mod d) mod d
func (m *Machine) timeTrunc(t TimeV, d *term.T, round bool) Value {
	tb := m.tb
	if !d.IsConst() {
		m.unsupported("Truncate/Round with a symbolic duration (durations come from concrete tables)")
	}
	dv := d.Int()
	if dv <= 0 || t.Zero {
		return t
	}
	m.noPre(t)
	K := new(big.Int).Mul(big.NewInt(62135596800), big.NewInt(1000000000))
	c := new(big.Int).Mod(K, big.NewInt(dv)).Uint64()
	dd := tb.BV(64, uint64(dv))
	// floor-mod of the signed Unix nanoseconds, then shift by K mod d
	fm := func(x *term.T) *term.T {
		if x.ROK && x.RLo >= 0 {
			return tb.URem(x, dd)
		}
		if x.ROK && x.RLo > -(1<<62) && x.RHi < 1<<62 {
			// shift by a multiple of d that makes the operand non-negative
			mshift := ((-x.RLo + dv - 1) / dv) * dv
			if mshift/dv == (-x.RLo+dv-1)/dv && mshift < 1<<62 {
				return tb.URem(tb.Add(x, tb.BV(64, uint64(mshift))), dd)
			}
		}
		pos := tb.URem(x, dd)
		negv := tb.Sub(tb.BV(64, uint64(dv-1)), tb.URem(tb.Sub(tb.Neg(x), tb.BV(64, 1)), dd))
		return tb.Ite(tb.SLt(x, tb.BV(64, 0)), negv, pos)
	}
	r := tb.URem(tb.Add(fm(t.NS), tb.BV(64, c)), dd)
	if !round {
		return TimeV{NS: tb.Sub(t.NS, r), Loc: t.Loc}
	}
	// lessThanHalf(r, d): r+r < d  (unsigned)
	lth := tb.ULt(tb.Add(r, r), dd)
	return TimeV{NS: tb.Ite(lth, tb.Sub(t.NS, r), tb.Add(t.NS, tb.Sub(dd, r))), Loc: t.Loc}
}

// ---------- byte search kernels ----------

func (m *Machine) indexByte(s []*term.T, c *term.T) Value {
	for i, b := range s {
		if m.condBool(m.tb.Eq(b, c), "indexbyte") {
			return m.tb.BV(64, uint64(i))
		}
	}
	return m.tb.BV(64, ^uint64(0))
}

func (m *Machine) lastIndexByte(s []*term.T, c *term.T) Value {
	for i := len(s) - 1; i >= 0; i-- {
		if m.condBool(m.tb.Eq(s[i], c), "lastindexbyte") {
			return m.tb.BV(64, uint64(i))
		}
	}
	return m.tb.BV(64, ^uint64(0))
}

func (m *Machine) countByte(s []*term.T, c *term.T) Value {
	n := m.tb.BV(64, 0)
	for _, b := range s {
		n = m.tb.Add(n, m.tb.Ite(m.tb.Eq(b, c), m.tb.BV(64, 1), m.tb.BV(64, 0)))
	}
	return n
}

func (m *Machine) indexSub(s, sub []*term.T) Value {
	if len(sub) == 0 {
		return m.tb.BV(64, 0)
	}
	for i := 0; i+len(sub) <= len(s); i++ {
		eq := m.tb.True()
		for j := range sub {
			eq = m.tb.And(eq, m.tb.Eq(s[i+j], sub[j]))
		}
		if m.condBool(eq, "index") {
			return m.tb.BV(64, uint64(i))
		}
	}
	return m.tb.BV(64, ^uint64(0))
}

func negU(v int64) uint64 { return uint64(-v) }
