package sym

import (
	"fmt"
	"go/types"
	"strconv"

	"golang.org/x/tools/go/ssa"

	"gosym/term"
)

// Formatting is modelled, not interpreted: the result is the concatenation of the
// literal format text and a rendering of each argument. Concrete scalars are rendered by
// the real fmt; strings (also symbolic ones) are spliced in; error/Stringer values are
// rendered by calling their interpreted method; anything else becomes a placeholder.
// Code under test must not branch on such text (the native validation replays would
// show a divergence).

func (m *Machine) callMethodByName(fr *frame, it Iface, name string) (Value, bool) {
	if it.T == nil {
		return nil, false
	}
	ms := m.prog.MethodSets.MethodSet(it.T)
	for i := 0; i < ms.Len(); i++ {
		sel := ms.At(i)
		if sel.Obj().Name() == name {
			sig := sel.Obj().Type().(*types.Signature)
			if sig.Params().Len() != 0 || sig.Results().Len() != 1 {
				return nil, false
			}
			fn := m.prog.MethodValue(sel)
			if fn == nil {
				return nil, false
			}
			return m.call(fr, 0, fn, []Value{it.V}), true
		}
	}
	return nil, false
}

func (m *Machine) fmtArg(fr *frame, verb byte, flags string, v Value) Value {
	it, ok := v.(Iface)
	if !ok {
		return "‹?›"
	}
	if it.T == nil {
		if verb == 'd' {
			return "%!d(<nil>)"
		}
		return "<nil>"
	}
	if verb == 'T' {
		return it.T.String()
	}
	if verb == 'v' || verb == 's' || verb == 'q' {
		if p, isPtr := it.V.(*Value); isPtr && p == nil {
			return "<nil>"
		}
		if types.Implements(it.T, errorIface) {
			if r, ok := m.callMethodByName(fr, it, "Error"); ok {
				return r
			}
		}
		if r, ok := m.callMethodByName(fr, it, "String"); ok {
			if _, isStr := r.(string); isStr {
				return r
			}
			if _, isStr := r.(*SymStr); isStr {
				return r
			}
		}
	}
	switch x := it.V.(type) {
	case string:
		if verb == 'q' {
			return strconv.Quote(x)
		}
		if verb == 'x' {
			return fmt.Sprintf("%x", x)
		}
		return x
	case *SymStr:
		if verb == 'q' {
			return m.sconcat(m.sconcat(`"`, x), `"`)
		}
		return x
	case *term.T:
		if !x.IsConst() {
			if (verb == 'd' || verb == 'v') && flags == "" && x.S.K == term.KBV && x.ROK && x.RLo > -1000000000000 && x.RHi < 1000000000000 {
				return m.fmtSymInt(x)
			}
			return "‹sym›"
		}
		f := "%" + flags + string(verb)
		switch x.S.K {
		case term.KBool:
			return fmt.Sprintf(f, x.C == 1)
		case term.KFP:
			if x.S.W == 32 {
				return fmt.Sprintf(f, float32(x.Float()))
			}
			return fmt.Sprintf(f, x.Float())
		}
		if isSigned(it.T) {
			switch x.S.W {
			case 32:
				return fmt.Sprintf(f, int32(x.Int()))
			}
			return fmt.Sprintf(f, x.Int())
		}
		switch x.S.W {
		case 8:
			return fmt.Sprintf(f, uint8(x.C))
		}
		return fmt.Sprintf(f, x.C)
	case TimeV:
		return "‹time›"
	case []Value:
		if ek, ok := it.T.Underlying().(*types.Slice); ok {
			if k, _ := basicKind(ek.Elem()); k == types.Uint8 && (verb == 's' || verb == 'q') {
				return mkStr(sliceBytes(x))
			}
			if isString(ek.Elem()) && verb == 'v' {
				var out Value = "["
				for i, e := range x {
					if i > 0 {
						out = m.sconcat(out, " ")
					}
					out = m.sconcat(out, e)
				}
				return m.sconcat(out, "]")
			}
		}
	}
	return "‹" + it.T.String() + "›"
}

func (m *Machine) sprintf(fr *frame, format Value, args []Value) Value {
	f, ok := format.(string)
	if !ok {
		return "‹fmt›"
	}
	var out Value = ""
	argi := 0
	lit := 0
	for i := 0; i < len(f); i++ {
		if f[i] != '%' {
			continue
		}
		out = m.sconcat(out, f[lit:i])
		j := i + 1
		for j < len(f) && (f[j] == '+' || f[j] == '-' || f[j] == '#' || f[j] == ' ' || f[j] == '0' || (f[j] >= '1' && f[j] <= '9') || f[j] == '.' || f[j] == '*') {
			j++
		}
		if j >= len(f) {
			out = m.sconcat(out, "%!(NOVERB)")
			lit = len(f)
			break
		}
		verb := f[j]
		flags := f[i+1 : j]
		if verb == '%' {
			out = m.sconcat(out, "%")
		} else if argi < len(args) {
			out = m.sconcat(out, m.fmtArg(fr, verb, flags, args[argi]))
			argi++
		} else {
			out = m.sconcat(out, "%!"+string(verb)+"(MISSING)")
		}
		i = j
		lit = j + 1
	}
	if lit < len(f) {
		out = m.sconcat(out, f[lit:])
	}
	return out
}

func (m *Machine) sprint(fr *frame, args []Value, ln bool) Value {
	var out Value = ""
	for i, a := range args {
		if i > 0 && ln {
			out = m.sconcat(out, " ")
		}
		out = m.sconcat(out, m.fmtArg(fr, 'v', "", a))
	}
	if ln {
		out = m.sconcat(out, "\n")
	}
	return out
}

// newError builds an error value: *errors.errorString, or *fmt.wrapError when wrapping.
func (m *Machine) newError(msg Value, wrapped Value) Value {
	if wrapped != nil {
		if fp := m.prog.ImportedPackage("fmt"); fp != nil {
			if t := fp.Pkg.Scope().Lookup("wrapError"); t != nil {
				var cell Value = Struct{msg, wrapped}
				return Iface{T: types.NewPointer(t.Type()), V: &cell}
			}
		}
	}
	ep := m.prog.ImportedPackage("errors")
	if ep == nil {
		m.unsupported("package errors not loaded")
	}
	t := ep.Pkg.Scope().Lookup("errorString")
	var cell Value = Struct{msg}
	return Iface{T: types.NewPointer(t.Type()), V: &cell}
}

func init() {
	reg("(*fmt.wrapError).Error", func(m *Machine, fr *frame, a []Value) Value { return (*a[0].(*Value)).(Struct)[0] })
	reg("(*fmt.wrapError).Unwrap", func(m *Machine, fr *frame, a []Value) Value { return (*a[0].(*Value)).(Struct)[1] })
	reg("errors.Is", func(m *Machine, fr *frame, a []Value) Value {
		err, target := a[0].(Iface), a[1].(Iface)
		for depth := 0; depth < 32; depth++ {
			if err.T == nil {
				return m.tb.BoolC(target.T == nil)
			}
			if target.T != nil && types.Identical(err.T, target.T) && types.Comparable(err.T) {
				if m.condBool(m.equals(err.T, err.V, target.V), "errors.Is") {
					return m.tb.True()
				}
			}
			if fn := m.methodNamed(err.T, "Is"); fn != nil {
				if m.condBool(m.call(fr, 0, fn, []Value{err.V, target}).(*term.T), "errors.Is-method") {
					return m.tb.True()
				}
			}
			fn := m.methodNamed(err.T, "Unwrap")
			if fn == nil || fn.Signature.Results().Len() != 1 {
				return m.tb.False()
			}
			next, ok := m.call(fr, 0, fn, []Value{err.V}).(Iface)
			if !ok {
				return m.tb.False() // Unwrap() []error not modelled
			}
			err = next
		}
		return m.tb.False()
	})
	reg("errors.As", func(m *Machine, fr *frame, a []Value) Value {
		err, target := a[0].(Iface), a[1].(Iface)
		if target.T == nil {
			m.runtimePanic("errors: target cannot be nil")
		}
		pt, ok := target.T.Underlying().(*types.Pointer)
		if !ok {
			m.runtimePanic("errors: target must be a non-nil pointer")
		}
		et := pt.Elem()
		for depth := 0; depth < 32 && err.T != nil; depth++ {
			if _, isIface := et.Underlying().(*types.Interface); isIface {
				if types.Implements(err.T, et.Underlying().(*types.Interface)) {
					m.store(target.V.(*Value), err)
					return m.tb.True()
				}
			} else if types.Identical(err.T, et) {
				m.store(target.V.(*Value), err.V)
				return m.tb.True()
			}
			fn := m.methodNamed(err.T, "Unwrap")
			if fn == nil || fn.Signature.Results().Len() != 1 {
				break
			}
			next, ok := m.call(fr, 0, fn, []Value{err.V}).(Iface)
			if !ok {
				break
			}
			err = next
		}
		return m.tb.False()
	})
}

func (m *Machine) methodNamed(t types.Type, name string) *ssa.Function {
	ms := m.prog.MethodSets.MethodSet(t)
	for i := 0; i < ms.Len(); i++ {
		if ms.At(i).Obj().Name() == name {
			return m.prog.MethodValue(ms.At(i))
		}
	}
	return nil
}

// fmtSymInt renders a symbolic integer with a known narrow range in decimal: the sign and
// the number of digits are decided (forks), each digit is (v / 10^i) % 10.
func (m *Machine) fmtSymInt(x *term.T) Value {
	tb := m.tb
	w := int(x.S.W)
	v := x
	neg := false
	if x.RLo < 0 {
		if x.RHi < 0 || m.condBool(tb.SLt(x, tb.BV(w, 0)), "fmt-sign") {
			neg = true
			v = tb.Neg(x)
		}
	}
	// number of digits
	nd := 1
	p := uint64(10)
	for nd < 13 {
		if v.ROK && v.RHi < int64(p) {
			break
		}
		if m.condBool(tb.ULt(v, tb.BV(w, p)), "fmt-digits") {
			break
		}
		nd++
		p *= 10
	}
	bs := make([]*term.T, 0, nd+1)
	if neg {
		bs = append(bs, tb.BV(8, '-'))
	}
	div := uint64(1)
	for i := 1; i < nd; i++ {
		div *= 10
	}
	for i := 0; i < nd; i++ {
		d := tb.URem(tb.UDiv(v, tb.BV(w, div)), tb.BV(w, 10))
		bs = append(bs, tb.Add(tb.Extract(d, 7, 0), tb.BV(8, '0')))
		div /= 10
	}
	return mkStr(bs)
}
