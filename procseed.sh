#!/bin/bash
# procseed.sh <dir under /tmp/mut, e.g. C09c> : confirm both seeds of the directory and evaluate them against the property's quick check.
d="$1"; p="${d:0:3}"
cd /verif
for n in 1 2; do
  echo "=== confirm $d $n"; ./confirmmut.sh /tmp/mut/$d $n 2>&1 | grep -E "RESULT|cannot|does not"
done
for n in 1 2; do
  echo "=== eval $d $n"; timeout 1800 ./evalmut.sh $p /tmp/mut/$d/mut$n.diff 2>&1 | grep -E "VIOLATION|^OK|EXIT=|BROKEN|  - " | cut -c1-200 | head -6
done
