#!/usr/bin/env python3
"""setmeta.py <seed-id> key=value ... : update /verif/seeded/<seed-id>/meta.json"""
import json, sys
p = f"/verif/seeded/{sys.argv[1]}/meta.json"
m = json.load(open(p))
for a in sys.argv[2:]:
    k, v = a.split('=', 1)
    m[k] = v
json.dump(m, open(p, 'w'), indent=1)
